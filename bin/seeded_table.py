#!/usr/bin/python3
"""Prints a markdown table of the independently seeded changes archived under seeded/."""
import glob, json, os
V = os.path.dirname(os.path.dirname(os.path.abspath(__file__)))
try:
    CLOSED = json.load(open(os.path.join(V, "seeded", "CLOSED.json")))
except (OSError, ValueError):
    CLOSED = {}
rows = []
for d in sorted(glob.glob(os.path.join(os.path.dirname(os.path.dirname(os.path.abspath(__file__))), "seeded", "*"))):
    try:
        m = json.load(open(os.path.join(d, "meta.json")))
    except (OSError, ValueError):
        continue
    checks = m.get("our_checks", {})
    sigs = []
    for c, v in checks.items():
        for s in v.get("signatures", []):
            if s not in sigs:
                sigs.append(s)
    sid = os.path.basename(d)
    caught = "yes" if m.get("caught") else "NO"
    if caught == "NO" and sid in CLOSED:
        caught = "no; since " + CLOSED[sid]["after"] + ": yes"
        sigs = CLOSED[sid]["signatures"]
    rows.append((sid, m.get("breaks_property", "?"), "yes" if m.get("kept", True) else "no", caught,
                 ", ".join("`%s`" % s for s in sigs[:3]) + (" …" if len(sigs) > 3 else ""), (m.get("summary") or "").replace("|", "/")[:170]))
print("| seed | property | kept | caught | signatures (quick tier) | change |\n|---|---|---|---|---|---|")
for r in rows:
    print("| %s | %s | %s | %s | %s | %s |" % r)
print("\n%d seeds, %d kept, %d of the kept caught" % (len(rows), sum(r[2] == "yes" for r in rows), sum(r[2] == "yes" and r[3] != "NO" for r in rows)))
