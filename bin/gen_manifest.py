#!/usr/bin/python3
"""Regenerates MANIFEST.json from harness/registry.py and harness/claims.py."""
import json, os, sys
VERIF = os.path.dirname(os.path.dirname(os.path.abspath(__file__)))
sys.path.insert(0, os.path.join(VERIF, "harness"))
import registry, claims

props = [json.loads(l) for l in open(os.path.join(VERIF, "properties.jsonl"))]
checks, na = [], []
for p in props:
    pid = p["id"]
    hs = [h for h in registry.HARNESSES if h["prop"] == pid]
    c = claims.CLAIMS.get(pid)
    if not hs or not c or pid in getattr(claims, 'HOLD', set()):
        na.append({"property_id": pid, "reason": claims.NOT_CLAIMED.get(pid, "check not built yet (construction in progress, see DESIGN.md section 10)")})
        continue
    checks.append({
        "property_id": pid,
        "quick_cmd": "/usr/bin/python3 bin/check %s --tier quick" % pid,
        "thorough_cmd": "/usr/bin/python3 bin/check %s --tier thorough" % pid,
        "evidence_file": "/verif/evidence/%s.json" % pid,
        "replay_cmd_template": "/usr/bin/python3 bin/check --replay {path}",
        "engine": c["engine"],
        "level_claimed": {"category": "model_checking", "text": c["text"], "design_ref": c.get("design_ref", "DESIGN.md section 5/" + pid)},
        "level_note": c["note"],
        "technique": c["technique"],
    })
m = {
    "version": 1,
    "setup_cmd": "/usr/bin/python3 bin/check ALL --build-only",
    "hooks": {"guard": "OPENTELEMETRY_CPP_VERIF",
              "enable": "no source hooks are used: checks recompile /repo's sources; Engine-A builds force-include engine/shim/vf_std.h, which token-renames std::atomic/mutex/condition_variable/thread/... to scheduler-backed look-alikes; clock_gettime is interposed at link time",
              "baseline_off_cmd": "cmake --build /repo/_build -j16 && ctest --test-dir /repo/_build -j8 --timeout 900",
              "source_commits": [], "add_only": True},
    "engines": [
        {"name": "sched", "path": "engine/sched engine/shim engine/core", "serves_properties": sorted(k for k, v in claims.CLAIMS.items() if "sched" in v["engine"]),
         "kind_free_text": "stateless preemption-bounded model checker of the real threads of the unmodified SDK sources under a cooperative scheduler (token-renamed synchronisation, virtual clock), iterative deviation bounding, happens-before state caching, fork per execution"},
        {"name": "seq", "path": "engine/core engine/seq models", "serves_properties": sorted(k for k, v in claims.CLAIMS.items() if "seq" in v["engine"]),
         "kind_free_text": "explicit choice-tree enumeration of operation sequences / input shapes / environment answers up to a bound, each step executed on the real objects in lock-step with a reference model, under AddressSanitizer"},
    ],
    "checks": checks,
    "notes": "All checks rebuild what they need from /repo's working tree through a content-hash cache (bin/check). Known findings: known_findings.txt. See DESIGN.md.",
    "not_applicable": na,
}
json.dump(m, open(os.path.join(VERIF, "MANIFEST.json"), "w"), indent=1)
print("MANIFEST.json: %d checks, %d not claimed" % (len(checks), len(na)))
