#!/usr/bin/python3
"""bin/design_refresh.py - regenerate the seeded-changes table of DESIGN.md section 12.5 from seeded/*/meta.json."""
import os, re, subprocess
V = os.path.dirname(os.path.dirname(os.path.abspath(__file__)))
tab = subprocess.run(["/usr/bin/python3", os.path.join(V, "bin/seeded_table.py")], stdout=subprocess.PIPE, text=True).stdout.strip()
p = os.path.join(V, "DESIGN.md")
s = open(p).read()
m = re.search(r"\| seed \| property \| kept \| caught \|.*?\n\d+ seeds, \d+ kept, \d+ of the kept caught\n", s, re.S)
assert m, "table not found"
s = s[:m.start()] + tab + "\n" + s[m.end():]
open(p, "w").write(s)
print(tab.splitlines()[-1])
