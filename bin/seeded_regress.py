#!/usr/bin/python3
"""bin/seeded_regress.py [seed-id-substring ...] [--tier=quick|thorough] [--also=C11,...]

Detection regression over the archived, independently seeded changes (seeded/<id>/patch.diff).
For every kept seed: copy api/ sdk/ ext/ of /repo to a scratch directory outside /repo and /verif,
apply the patch there, run the check of the seed's property against the copy (VERIF_REPO, own
build/run/evidence directories, so /verif/evidence is not touched), and require exit 1 with a
VIOLATION line.  Writes seeded/REGRESSION.md (one line per seed: exit code, signatures, wall time).
Nothing is ever applied to /repo itself."""
import json, os, re, shutil, subprocess, sys, time

V = os.path.dirname(os.path.dirname(os.path.abspath(__file__)))
SCRATCH = "/tmp/vf_seedreg"


def main():
    tier = "quick"
    subs = []
    for a in sys.argv[1:]:
        if a.startswith("--tier="):
            tier = a.split("=", 1)[1]
        else:
            subs.append(a)
    seeds = sorted(d for d in os.listdir(os.path.join(V, "seeded")) if os.path.exists(os.path.join(V, "seeded", d, "patch.diff")))
    rows = []
    bad = 0
    for sid in seeds:
        if subs and not any(s in sid for s in subs):
            continue
        meta = json.load(open(os.path.join(V, "seeded", sid, "meta.json")))
        if meta.get("kept") is False:
            rows.append((sid, meta.get("breaks_property", "?"), "not kept", "", 0))
            continue
        prop = meta.get("breaks_property") or meta.get("property")
        d = os.path.join(SCRATCH, sid)
        shutil.rmtree(d, ignore_errors=True)
        os.makedirs(d)
        for sub in ("api", "sdk", "ext"):
            shutil.copytree(os.path.join("/repo", sub), os.path.join(d, sub), symlinks=True)
        r = subprocess.run(["patch", "-p1", "-s", "-i", os.path.join(V, "seeded", sid, "patch.diff")], cwd=d, stdout=subprocess.PIPE, stderr=subprocess.STDOUT, text=True)
        if r.returncode != 0:
            rows.append((sid, prop, "PATCH FAILED", r.stdout.strip()[:100], 0))
            bad += 1
            shutil.rmtree(d, ignore_errors=True)
            continue
        t0 = time.time()
        r = subprocess.run([os.path.join(V, "bin/check"), prop, "--tier", tier, "--replay-dir=" + os.path.join(SCRATCH, "replays")],
                           env=dict(os.environ, VERIF_REPO=d), stdout=subprocess.PIPE, stderr=subprocess.STDOUT, text=True)
        sigs = sorted(set(re.findall(r"signature=(\S+)", r.stdout)))
        viol = "VIOLATION property=" in r.stdout
        verdict = "caught" if (r.returncode == 1 and viol) else "MISSED (exit %d)" % r.returncode
        if verdict != "caught":
            bad += 1
        rows.append((sid, prop, verdict, " ".join("`%s`" % s for s in sigs[:6]) + (" …" if len(sigs) > 6 else ""), round(time.time() - t0)))
        print("%-7s %-4s %-16s %4ds %s" % (sid, prop, verdict, rows[-1][4], " ".join(sigs[:4])), flush=True)
        shutil.rmtree(d, ignore_errors=True)
    shutil.rmtree(SCRATCH, ignore_errors=True)
    if not subs:
        with open(os.path.join(V, "seeded", "REGRESSION.md"), "w") as f:
            f.write("# Detection regression over the archived seeded changes (bin/seeded_regress.py, tier=%s, %s)\n\n" % (tier, time.strftime("%F %T UTC", time.gmtime())))
            f.write("| seed | property | verdict | signatures | wall s (incl. rebuild) |\n|---|---|---|---|---|\n")
            for row in rows:
                f.write("| %s | %s | %s | %s | %s |\n" % row)
            f.write("\n%d seeds run, %d not caught\n" % (len([r for r in rows if r[2] != "not kept"]), bad))
    return 1 if bad else 0


if __name__ == "__main__":
    sys.exit(main())
