#!/usr/bin/python3
"""bin/seed_prompt.py <ID> <n>  - prints the brief for an independent change-seeding sub-agent and
creates its scratch worktree /tmp/seed/<ID>-<n> (a git worktree of /repo's HEAD).  The brief contains
only the property text; nothing from /verif."""
import json, os, subprocess, sys
pid, n = sys.argv[1], sys.argv[2]
props = {json.loads(l)["id"]: json.loads(l) for l in open("/verif/properties.jsonl")}
p = props[pid]
wt = "/tmp/seed/%s-%s" % (pid, n)
if not os.path.exists(wt):
    subprocess.run(["git", "-C", "/repo", "worktree", "add", "--detach", wt, "HEAD"], check=True, stdout=subprocess.DEVNULL, stderr=subprocess.DEVNULL)
hint = {
    "1": "Prefer a change in shared mutable state, cursor/offset/sequence-number logic, ordering of two steps (publish before write, notify before done, check after act), or a boundary condition.",
    "3": "Stay off the beaten track: pick a less-used class, overload or configuration option among the anchored code (or a helper it depends on), an error/timeout/failure path, or state carried over from an earlier cycle/call, rather than the main happy path of the most prominent class.",
    "4": "The obvious slips have been tried already. Look for something subtle: an effect that only shows on the second or third repetition, an interaction between two features (e.g. shutdown during flush, a timeout expiring exactly while work completes, a limit reached exactly), a memory-ordering-free logical race between three parties, or a rarely taken branch whose result is only observable later.",
    "5": "Read the WHOLE statement and pick a clause that is easy to overlook (often the second half of a sentence, an 'or', a 'never', a parenthesis), then break only that clause. Good places: a code path reached only through a non-default option, overload or second instance (a second processor / reader / meter / logger / handle / view), through state left behind by an earlier cycle or call, through an error / timeout / failure return of a collaborator, or at an exact limit (N vs N+1). The main path of the most prominent class must keep working.",
    "6": "Think like a refactoring gone subtly wrong: a helper extracted and called once too often or too seldom, a loop bound or comparison changed in a rarely hit branch, a cache/memo that is not invalidated, a moved-from or stale value reused, a default argument changed, the order of two independent-looking statements swapped, an equality replaced by a prefix/hash/partial comparison. The slip must sit in code the property is anchored in (or a helper it depends on) and must need a specific multi-step history or input to show.",
    "2": "Prefer a DIFFERENT kind of change than the most obvious one: e.g. two cooperating sites that each look fine alone, a special case taken only for an unusual input/configuration, a lifetime/ownership slip, a wrong default, an early return on a rare path.",
}.get(n, "")
if len(sys.argv) > 3:
    # wave 7+: pin the change to anchored files that no earlier seed touched (the list comes from the property's own anchors)
    hint = ("Your change MUST be made in one of these anchored files (the others have been explored enough already): "
            + ", ".join(sys.argv[3].split(",")) + ". Read that file's role in the property carefully first; the slip must break the "
            "statement through behaviour that file is responsible for, needing a specific input, configuration, history or interleaving to show.")
print("""You are helping to evaluate a verification effort for the C++ library opentelemetry-cpp. Your job is to act as a careless-but-plausible maintainer: introduce ONE realistic defect into the library that breaks a given semantic property, yet still compiles and passes the library's existing test suite, and to prove with a demonstration that the defect is real.

Your own scratch checkout (a git worktree; work ONLY inside it, never touch /repo or /verif, never read /verif): %(wt)s
How to build and run tests there: read /tmp/seed/README_AGENT.md first.

The property (JSON; 'anchors' point at the code that implements it):
%(prop)s

Requirements for the change:
* It modifies library source under api/ or sdk/ (not tests, not build files); small (typically 1-15 lines); looks like an honest mistake or refactoring slip — no comments announcing it, no dead code, no #ifdefs.
* The library and the existing tests still compile, and the existing tests still PASS: build and run at least every test binary that exercises the files you touched and their direct users (run them several times if they are timing dependent). If an existing test fails, the change is not acceptable: pick another.
* It breaks the property as stated, but only under something specific: a particular thread interleaving, a fault or timeout at a particular point, a multi-step sequence of operations, an unusual input or configuration, or two cooperating sites that each look fine alone. Not something any ordinary use would expose immediately. %(hint)s
* Provide a demonstration that FAILS with your change and PASSES without it: a small standalone C++ program or gtest file (kept outside the library sources, in %(wt)s/seed/). For an interleaving-dependent defect the demo may force the schedule (sleeps, a slow exporter, many iterations) but must fail reliably (>= 9 of 10 runs) with the change and pass 10 of 10 without.

Deliverables, all in %(wt)s/seed/ :
* patch.diff  — `git diff` of the library change only (must apply with `git apply` on a clean checkout of the worktree's HEAD)
* demo.cc (or demo_test.cc) and DEMO.md with the exact commands to build and run it and the expected output with / without the patch
* meta.json — {"property": "%(pid)s", "summary": "<one sentence>", "files": [...], "needs": "<what is required for the defect to manifest>", "tests_run": ["<command>: <result>", ...], "demo_fails_with_patch": true, "demo_passes_without_patch": true}
Leave the worktree's tracked files UNMODIFIED at the end (`git -C %(wt)s checkout -- .` after saving the patch); keep the seed/ directory and your _build directory. Do not commit. Use at most 6 parallel build jobs.
Finish with a short report: the change, why the existing tests do not notice, what the demo shows.""" % dict(wt=wt, prop=json.dumps(p, indent=1), hint=hint, pid=pid))
