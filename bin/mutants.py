#!/usr/bin/python3
"""bin/mutants.py [name-substring ...]  - detection demonstrations for the Engine-A checks.

Each mutant is a small, realistic change to the anchored code. It is applied to a scratch copy of
the sources (never to /repo), the named check is run against the copy (VERIF_REPO) and must exit 1
with a matching signature. Results go to mutants/RESULTS_engineA.md, the diffs to mutants/<ID>/."""
import glob, os, re, shutil, subprocess, sys, time

VERIF = os.path.dirname(os.path.dirname(os.path.abspath(__file__)))
SCRATCH = "/tmp/vf_mut"
CB = "sdk/include/opentelemetry/sdk/common/circular_buffer.h"
CBR = "sdk/include/opentelemetry/sdk/common/circular_buffer_range.h"
SL = "api/include/opentelemetry/common/spin_lock_mutex.h"
BSP = "sdk/src/trace/batch_span_processor.cc"
BLP = "sdk/src/logs/batch_log_record_processor.cc"
SSP = "sdk/include/opentelemetry/sdk/trace/simple_processor.h"
SLP = "sdk/src/logs/simple_log_record_processor.cc"
PR = "sdk/src/metrics/export/periodic_exporting_metric_reader.cc"
MSP = "sdk/include/opentelemetry/sdk/trace/multi_span_processor.h"
MLP = "sdk/src/logs/multi_log_record_processor.cc"
MC = "sdk/src/metrics/meter_context.cc"

# (name, property, harness, extra args, file, old, new, expected signature regex)
M = [
    ("cb_drop_undo", "C11", "c11_circbuf", ["--k=2"], CB, "        data_[head_index].Swap(ptr);\n      }", "      }", r"C11:"),
    ("cb_full_off_by_one", "C11", "c11_circbuf", ["--k=2"], CB, "if (head - tail >= capacity_ - 1)", "if (head - tail > capacity_ - 1)", r"C11:"),
    ("cb_publish_head_before_slot", "C11", "c11_circbuf", ["--k=2"], CB,
     """      if (data_[head_index].SwapIfNull(ptr))
      {
        auto new_head      = head + 1;
        auto expected_head = head;
        if (head_.compare_exchange_weak(expected_head, new_head, std::memory_order_release,
                                        std::memory_order_relaxed))
        {
          // free the swapped out value
          ptr.reset();

          return true;
        }""",
     """      auto new_head      = head + 1;
      auto expected_head = head;
      if (head_.compare_exchange_weak(expected_head, new_head, std::memory_order_release,
                                      std::memory_order_relaxed))
      {
        if (data_[head_index].SwapIfNull(ptr))
        {
          ptr.reset();
          return true;
        }""", r"C11:"),
    ("cb_clear_before_tail", "C11", "c11_circbuf", ["--k=2"], CB, "    tail_ += n;\n    callback(range);", "    callback(range);\n    tail_ += n;", r"C11:"),
    ("spin_trylock_check_then_act", "C11", "c11_spinlock", ["--k=3"], SL,
     "    return !flag_.load(std::memory_order_relaxed) &&\n           !flag_.exchange(true, std::memory_order_acquire);",
     "    if (flag_.load(std::memory_order_relaxed))\n      return false;\n    flag_.store(true, std::memory_order_release);\n    return true;", r"C11:(two-holders|trylock)"),
    ("bsp_ticket_after_snapshot", "C02", "batch_c02", [], BSP,
     """    std::uint64_t notify_force_flush =
        synchronization_data_->force_flush_pending_sequence.load(std::memory_order_acquire);
    // Never hand""", """    std::uint64_t notify_force_flush = 0;
    // Never hand""", None),  # placeholder replaced below
    ("bsp_shutdown_exporter_always", "C02", "batch_c02", [], BSP, "  if (!already_shutdown && exporter_ != nullptr)", "  if (exporter_ != nullptr)", r"C02:exporter-shutdown-twice"),
    ("blp_notify_before_export", "C02", "batch_c02", [], BLP,
     """    exporter_->Export(
        nostd::span<std::unique_ptr<Recordable>>(records_arr.data(), records_arr.size()));
    if (num_records_to_export == num_records_queued)
    {
      NotifyCompletion(notify_force_flush, exporter_, synchronization_data_);
    }""",
     """    if (num_records_to_export == num_records_queued)
    {
      NotifyCompletion(notify_force_flush, exporter_, synchronization_data_);
    }
    exporter_->Export(
        nostd::span<std::unique_ptr<Recordable>>(records_arr.data(), records_arr.size()));""", r"C02:flush"),
    ("bsp_notify_latest_ticket", "C02", "batch_c02", [], BSP,
     "    if (num_records_to_export == num_records_queued)\n    {\n      NotifyCompletion(notify_force_flush, exporter_, synchronization_data_);\n    }",
     "    if (num_records_to_export == num_records_queued)\n    {\n      NotifyCompletion(synchronization_data_->force_flush_pending_sequence.load(), exporter_, synchronization_data_);\n    }", r"C02:flush"),
    ("blp_shutdown_skips_drain", "C02", "batch_c02", [], BLP, "      DrainQueue();\n      break;", "      break;", r"C02:(shutdown-incomplete|leak|flush)"),
    ("blp_consume_leaves_slot", "C01", "batch_c01", [], BLP,
     "                        ptr.Swap(swap_ptr);\n                        records_arr.push_back(std::unique_ptr<Recordable>(swap_ptr.release()));",
     "                        records_arr.push_back(std::unique_ptr<Recordable>(ptr.Get()));", r"C01:"),
    ("bsp_batch_uncapped", "C03", "batch_c03", [], BSP,
     "        num_records_queued >= max_export_batch_size_ ? max_export_batch_size_ : num_records_queued;",
     "        synchronization_data_->force_flush_pending_sequence.load() ? num_records_queued\n        : num_records_queued >= max_export_batch_size_ ? max_export_batch_size_ : num_records_queued;", r"C03:batch-exceeds"),
    ("ssp_export_outside_lock", "C03", "procs_c03", [], SSP,
     "    const std::lock_guard<opentelemetry::common::SpinLockMutex> locked(lock_);\n    if (exporter_->Export(batch)",
     "    {\n      const std::lock_guard<opentelemetry::common::SpinLockMutex> locked(lock_);\n    }\n    if (exporter_->Export(batch)", r"C03:overlapping-export"),
    ("slp_shutdown_not_latched", "C02", "procs_c02", [], SLP,
     "  if (!is_shutdown_.exchange(true, std::memory_order_acq_rel) && exporter_ != nullptr)",
     "  if (!is_shutdown_.load(std::memory_order_acquire) && exporter_ != nullptr && (is_shutdown_.store(true), true))", r"C02:exporter-shutdown-twice"),
    ("msp_flush_or", "C02", "procs_c02", [], MSP, "      result &= processor->ForceFlush(timeout);", "      result |= processor->ForceFlush(timeout);", r"C02:provider-flush"),
    ("reader_ticket_on_cancel", "C02", "reader_c02", [], PR, "  while (exported.load(std::memory_order_acquire) && notify_force_flush > notified_sequence)", "  while (notify_force_flush > notified_sequence)",
     r"C02:reader-flush-without-export"),
    # --- gaps named by the coverage review (docs/gaps/gaps_A.md) ---
    ("bsp_retry_failed_export", "C01", "batch_c01_x", [], BSP,
     "    exporter_->Export(nostd::span<std::unique_ptr<Recordable>>(spans_arr.data(), spans_arr.size()));\n",
     "    if (exporter_->Export(nostd::span<std::unique_ptr<Recordable>>(spans_arr.data(), spans_arr.size())) ==\n        sdk::common::ExportResult::kFailure)\n    {\n      exporter_->Export(nostd::span<std::unique_ptr<Recordable>>(spans_arr.data(), spans_arr.size()));\n    }\n",
     r"C01:duplicate"),
    ("blp_wait_for_room", "C01", "batch_c01", [], BLP,
     "  if (buffer_.Add(std::unique_ptr<Recordable>(record.release())) == false)\n  {\n    return;\n  }",
     "  if (buffer_.Add(std::unique_ptr<Recordable>(record.release())) == false)\n  {\n    std::unique_lock<std::mutex> lk(synchronization_data_->force_flush_cv_m);\n    synchronization_data_->force_flush_cv.wait_for(lk, std::chrono::milliseconds(10));\n    return;\n  }",
     r"C01:producer-waited"),
    ("bsp_ack_ticket_read_after_export", "C01", "batch_c01", [], BSP,
     "    if (num_records_to_export == num_records_queued)\n    {\n      NotifyCompletion(notify_force_flush, exporter_, synchronization_data_);\n    }",
     "    if (num_records_to_export == num_records_queued)\n    {\n      NotifyCompletion(synchronization_data_->force_flush_pending_sequence.load(std::memory_order_acquire),\n                       exporter_, synchronization_data_);\n    }",
     r"C01:lost:between-flushes"),
    ("bsp_shutdown_timed_detach", "C02", "batch_c02", [], BSP,
     "    worker_thread_.join();\n  }\n\n  GetWaitAdjustedTime(timeout, start_time);",
     "    if (timeout < std::chrono::seconds(1))\n    {\n      worker_thread_.detach();\n    }\n    else\n    {\n      worker_thread_.join();\n    }\n  }\n\n  GetWaitAdjustedTime(timeout, start_time);",
     r"C02:"),
    ("msp_flush_last_wins", "C02", "procs_c02", [], MSP, "      result &= processor->ForceFlush(timeout);", "      result = processor->ForceFlush(timeout);", r"C02:provider-flush"),
    ("mlp_flush_last_wins", "C02", "procs_c02", [], MLP,
     "    if (!processor->ForceFlush(std::chrono::duration_cast<std::chrono::microseconds>(timeout_ns)))\n    {\n      result = false;\n    }",
     "    result = processor->ForceFlush(std::chrono::duration_cast<std::chrono::microseconds>(timeout_ns));", r"C02:provider-flush"),
    ("cbr_take_whole_second_span", "C11", "c11_circbuf_big", [], CBR,
     "    return {first_, nostd::span<T>{second_.data(), n - first_.size()}};", "    return {first_, second_};", r"C11:"),
    ("meterctx_flush_last_wins", "C02", "meterctx_c02", [], MC,
     "    if (!std::static_pointer_cast<MetricCollector>(collector)->ForceFlush(\n            std::chrono::duration_cast<std::chrono::microseconds>(time_remaining)))\n    {\n      result = false;\n    }",
     "    result = std::static_pointer_cast<MetricCollector>(collector)->ForceFlush(\n        std::chrono::duration_cast<std::chrono::microseconds>(time_remaining));", r"C02:meter:flush"),
    ("reader_exporter_flush_before_wait", "C02", "reader_c02", [], PR,
     "  bool result = false;\n  while (!result && timeout_steady > std::chrono::steady_clock::duration::zero())",
     "  bool flushed = exporter_->ForceFlush(timeout);\n  bool result  = false;\n  while (!result && timeout_steady > std::chrono::steady_clock::duration::zero())", None),
    ("reader_ticket_after_collect", "C02", "reader_c02", [], PR,
     "  std::uint64_t notify_force_flush = force_flush_pending_sequence_.load(std::memory_order_acquire);\n  std::unique_ptr<std::thread> task_thread;",
     "  std::uint64_t notify_force_flush = 0;\n  std::unique_ptr<std::thread> task_thread;", None),
]

# two mutants move the ticket read behind the work it must precede
def _fix(name, file, marker_old, insert_after, new_read):
    for i, m in enumerate(M):
        if m[0] == name:
            M[i] = m[:5] + (m[5], m[6], m[7])
_TICKET = {
    "bsp_ticket_after_snapshot": (BSP, "    const size_t num_records_queued = buffer_.size();\n",
                                  "    const size_t num_records_queued = buffer_.size();\n    notify_force_flush =\n        synchronization_data_->force_flush_pending_sequence.load(std::memory_order_acquire);\n", r"C02:flush-incomplete"),
    "reader_exporter_flush_before_wait": (PR, "      result =\n          exporter_->ForceFlush(std::chrono::duration_cast<std::chrono::microseconds>(timeout));\n",
                                          "      result = flushed;\n", r"C02:reader-flush-incomplete:exporter-flushed-before-data"),
    "reader_ticket_after_collect": (PR, "  if (task_thread && task_thread->joinable())\n  {\n    task_thread->join();\n  }\n",
                                    "  if (task_thread && task_thread->joinable())\n  {\n    task_thread->join();\n  }\n  notify_force_flush = force_flush_pending_sequence_.load(std::memory_order_acquire);\n", r"C02:reader-flush"),
}


def apply(repo, m):
    name, prop, harness, args, file, old, new, sig = m
    p = os.path.join(repo, file)
    s = open(p).read()
    if s.count(old) != 1:
        return "pattern found %d times" % s.count(old)
    s = s.replace(old, new)
    if name in _TICKET:
        f2, o2, n2, _ = _TICKET[name]
        if s.count(o2) != 1:
            return "second pattern found %d times" % s.count(o2)
        s = s.replace(o2, n2)
    open(p, "w").write(s)
    return None


def main():
    sel = sys.argv[1:]
    rows = []
    for m in M:
        name, prop, harness, args, file, old, new, sig = m
        if name in _TICKET:
            sig = _TICKET[name][3]
        if sel and not any(x in name for x in sel):
            continue
        repo = os.path.join(SCRATCH, "repo")
        shutil.rmtree(SCRATCH, ignore_errors=True)
        os.makedirs(repo)
        for d in ("api", "sdk", "ext"):
            shutil.copytree("/repo/" + d, os.path.join(repo, d))
        err = apply(repo, m)
        if err:
            rows.append((name, prop, harness, "NOT APPLIED: " + err, "", 0))
            print(name, "NOT APPLIED", err)
            continue
        os.makedirs(os.path.join(VERIF, "mutants", prop), exist_ok=True)
        d = subprocess.run(["diff", "-u", "/repo/" + file, os.path.join(repo, file)], stdout=subprocess.PIPE, text=True).stdout
        d = d.replace("--- /repo/" + file, "--- a/" + file).replace("+++ " + os.path.join(repo, file), "+++ b/" + file)
        open(os.path.join(VERIF, "mutants", prop, name + ".diff"), "w").write(d)
        env = dict(os.environ, VERIF_REPO=repo)
        t0 = time.time()
        r = subprocess.run([os.path.join(VERIF, "bin/check"), prop, "--only", harness, "--replay-dir=/tmp/vf_mut/replays"] + args, env=env, stdout=subprocess.PIPE, stderr=subprocess.STDOUT, text=True)
        dt = time.time() - t0
        sigs = sorted(set(re.findall(r"signature=(\S+)", r.stdout)))
        ok = r.returncode == 1 and any(re.search(sig, s) for s in sigs)
        rows.append((name, prop, harness, "caught" if ok else "MISSED (exit %d)" % r.returncode, " ".join(sigs), dt))
        print("%-34s %s %-12s %s %s %.0fs" % (name, prop, harness, "caught" if ok else "MISSED exit=%d" % r.returncode, " ".join(sigs), dt), flush=True)
        if not ok:
            print(r.stdout[-1500:])
        # remove the objects built from the scratch copy
        for f in glob.glob(os.path.join(VERIF, "build", "*", "obj", "_tmp_vf_mut_*")):
            os.unlink(f)
    shutil.rmtree(SCRATCH, ignore_errors=True)
    if not sel:
        with open(os.path.join(VERIF, "mutants", "RESULTS_engineA.md"), "w") as f:
            f.write("# Engine-A detection demonstrations (bin/mutants.py)\n\n| mutant | property | harness | verdict | signatures | wall s (incl. rebuild) |\n|---|---|---|---|---|---|\n")
            for r in rows:
                f.write("| %s | %s | %s | %s | %s | %.0f |\n" % r)
    return 0 if all(r[3] == "caught" for r in rows) else 1


if __name__ == "__main__":
    sys.exit(main())
