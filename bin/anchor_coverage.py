#!/usr/bin/python3
"""bin/anchor_coverage.py <ID>... [--deadline=S] [--tier=quick] [--all-files]

Vacuity audit of the checks themselves: which executable lines of the files a property is ANCHORED in does the
property's own check execute at all?  A line no harness execution reaches is a place where a change cannot be
noticed, whatever the oracle says.  Not a registered command and not a deciding step - a development tool whose
output (docs/coverage/<ID>.txt) is read by a human who then extends an alphabet, a configuration or a driver.

How: the property's harnesses are rebuilt with gcov instrumentation (VERIF_COV=1 makes bin/check use the variants
<v>-cov in their own object directories, with -DVF_COVERAGE so that the engine dumps the counters when a worker or a
per-execution child leaves through _exit), run with a short deadline, and the .gcda files are merged per source line
(maximum over all translation units and template instantiations).  Template code that is never instantiated has no
line records at all and therefore does not show up as uncovered: the report lists, per anchored header, the number
of instrumented lines so that an implausibly small number is visible.
"""
import glob
import gzip
import json
import os
import subprocess
import sys

VERIF = os.path.dirname(os.path.dirname(os.path.abspath(__file__)))
REPO = os.environ.get("VERIF_REPO", "/repo")


def main():
    ids = [a for a in sys.argv[1:] if not a.startswith("--")]
    deadline = "60"
    tier = "quick"
    all_files = False
    for a in sys.argv[1:]:
        if a.startswith("--deadline="):
            deadline = a.split("=", 1)[1]
        if a.startswith("--tier="):
            tier = a.split("=", 1)[1]
        if a == "--all-files":
            all_files = True
    props = {json.loads(l)["id"]: json.loads(l) for l in open(os.path.join(VERIF, "properties.jsonl"))}
    os.makedirs(os.path.join(VERIF, "docs", "coverage"), exist_ok=True)
    for pid in ids:
        # fresh counters
        for g in glob.glob(os.path.join(VERIF, "build", "*-cov", "obj", "*.gcda")):
            os.unlink(g)
        env = dict(os.environ, VERIF_COV="1")
        log = os.path.join(VERIF, "build", "cov_%s.log" % pid)
        with open(log, "w") as lf:
            r = subprocess.run([os.path.join(VERIF, "bin", "check"), pid, "--tier", tier, "--deadline=" + deadline, "--jobs=8"], env=env, stdout=lf, stderr=subprocess.STDOUT)
        summary = [l for l in open(log, errors="replace").read().splitlines() if l.startswith(pid)]
        lines = {}  # file -> {line: count}
        funcs = {}  # file -> {name: (start_line, count)}
        for gcda in glob.glob(os.path.join(VERIF, "build", "*-cov", "obj", "*.gcda")):
            d = os.path.dirname(gcda)
            r = subprocess.run(["/usr/bin/gcov", "--json-format", "--stdout", "-o", d, gcda], cwd=d, stdout=subprocess.PIPE, stderr=subprocess.DEVNULL)
            if r.returncode != 0 or not r.stdout:
                continue
            try:
                for doc in r.stdout.decode(errors="replace").splitlines():
                    if not doc.strip():
                        continue
                    j = json.loads(doc)
                    for f in j.get("files", []):
                        fn = os.path.normpath(os.path.join(d, f["file"])) if not f["file"].startswith("/") else os.path.normpath(f["file"])
                        if not fn.startswith(REPO + "/"):
                            continue
                        rel = fn[len(REPO) + 1:]
                        fl = lines.setdefault(rel, {})
                        for ln in f.get("lines", []):
                            n = ln["line_number"]
                            fl[n] = max(fl.get(n, 0), ln["count"])
                        ff = funcs.setdefault(rel, {})
                        for fu in f.get("functions", []):
                            k = (fu.get("demangled_name") or fu["name"])
                            old = ff.get(k, (fu["start_line"], 0))
                            ff[k] = (fu["start_line"], max(old[1], fu["execution_count"]))
            except ValueError:
                continue
        anchors = props[pid]["anchors"]["files"]
        anchors = [a.split(":")[0] for a in anchors]
        out = []
        out.append("# %s anchor line coverage by its own check (tier %s, deadline %s s per harness)" % (pid, tier, deadline))
        out += ["# " + s for s in summary]
        files = sorted(lines) if all_files else anchors
        tot_e = tot_c = 0
        for rel in files:
            fl = lines.get(rel)
            if fl is None:
                out.append("\n== %s: NOT COMPILED INTO ANY HARNESS OF THIS PROPERTY (or no executable line instantiated)" % rel)
                continue
            ex = sorted(fl)
            cov = [n for n in ex if fl[n] > 0]
            tot_e += len(ex)
            tot_c += len(cov)
            out.append("\n== %s: %d of %d instrumented lines executed" % (rel, len(cov), len(ex)))
            unc_f = sorted((v[0], k) for k, v in funcs.get(rel, {}).items() if v[1] == 0)
            for st, name in unc_f:
                out.append("   function never entered: line %d %s" % (st, name[:150]))
            try:
                src = open(os.path.join(REPO, rel), errors="replace").read().splitlines()
            except OSError:
                src = []
            unc = [n for n in ex if fl[n] == 0]
            # group into ranges (gaps of non-instrumented lines are bridged)
            i = 0
            while i < len(unc):
                j = i
                while j + 1 < len(unc) and all((m not in fl) or fl[m] == 0 for m in range(unc[j], unc[j + 1] + 1)):
                    j += 1
                a, b = unc[i], unc[j]
                out.append("   uncovered %d-%d:" % (a, b))
                for n in range(a, min(b, a + 14) + 1):
                    if n - 1 < len(src):
                        out.append("      %5d%s %s" % (n, "!" if fl.get(n) == 0 else " ", src[n - 1][:140]))
                if b > a + 14:
                    out.append("      ... (%d more lines)" % (b - a - 14))
                i = j + 1
        out.insert(2, "# total over listed files: %d of %d instrumented lines executed" % (tot_c, tot_e))
        p = os.path.join(VERIF, "docs", "coverage", pid + ".txt")
        open(p, "w").write("\n".join(out) + "\n")
        print("%s: %d/%d lines of %d listed files executed -> %s" % (pid, tot_c, tot_e, len(files), p))


if __name__ == "__main__":
    main()
