#!/bin/bash
# bin/seed_quickscan.sh <worktree> <SEED>...   - early miss detection for freshly delivered seeds: applies
# /tmp/seed/<SEED>/seed/patch.diff to the scratch worktree (sources only, no build of the repository), runs the quick
# check of the seed's property against it (VERIF_REPO) and appends "<SEED> <P> exit=<rc> <signatures>" to /tmp/seed/QUICKSCAN.txt.
# Confirmation of a seed (tests still pass, demo fails/passes) is the verifier's job (bin/seed_verify.py / VERIFIER.md).
WT=$1; shift
for S in "$@"; do
  P=${S%%-*}
  git -C "$WT" checkout -- . || exit 2
  if ! git -C "$WT" apply "/tmp/seed/$S/seed/patch.diff"; then echo "$S $P patch-does-not-apply" >> /tmp/seed/QUICKSCAN.txt; continue; fi
  t0=$(date +%s)
  VERIF_REPO="$WT" /usr/bin/python3 /verif/bin/check "$P" --tier quick --replay-dir=/tmp/my_replays > "/tmp/seed/qs_$S.log" 2>&1
  rc=$?
  sigs=$(grep -o 'signature=[^ ]*' "/tmp/seed/qs_$S.log" | sort -u | tr '\n' ' ')
  echo "$S $P exit=$rc $(( $(date +%s) - t0 ))s $sigs" >> /tmp/seed/QUICKSCAN.txt
  git -C "$WT" checkout -- .
done
echo "SCAN-DONE $*" >> /tmp/seed/QUICKSCAN.txt
