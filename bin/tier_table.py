#!/usr/bin/python3
"""bin/tier_table.py <quick-evidence-dir> <thorough-evidence-dir>  - measured tier table (markdown) from evidence files.
Used to fill DESIGN.md section 12.8; prints to stdout."""
import json, os, sys
qd, td = sys.argv[1], sys.argv[2]


def rows(d):
    out = {}
    for i in range(1, 21):
        pid = "C%02d" % i
        f = os.path.join(d, pid + ".json")
        if not os.path.exists(f):
            continue
        j = json.load(open(f))
        out[pid] = j
    return out


def fmt_h(h):
    b = h.get("budgets", {})
    dev = ",".join("%s%d" % (k[0], v) for k, v in b.items() if k not in ("total", "mut") and v)
    s = "%s: %s exec" % (h["harness"], "{:,}".format(h["executions"]).replace(",", " "))
    if dev:
        s += ", bound %s" % dev
        s += ", rounds ≤ %d of %d complete" % (h.get("bounds_completed", 0), b.get("total", 0))
    s += ", exhaustive" if h.get("exhaustive") else ", %s" % (h.get("cap_hit") or "capped")
    s += ", %.0f s" % h.get("wall_s", 0)
    return s


q, t = rows(qd), rows(td)
print("| id | quick (measured) | thorough (measured) |")
print("|---|---|---|")
for pid in sorted(set(q) | set(t)):
    cells = []
    for src in (q, t):
        j = src.get(pid)
        if not j or (src is t and j.get("tier") != "thorough"):
            cells.append("-")
            continue
        hs = j["coverage"].get("harnesses", [])
        cells.append("<br>".join(fmt_h(h) for h in hs) + "<br>**total %.0f s**" % j.get("wall_s", 0))
    print("| %s | %s | %s |" % (pid, cells[0], cells[1]))
