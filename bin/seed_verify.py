#!/usr/bin/python3
"""bin/seed_verify.py <seed-dir> [--checks C01,C02]  - confirm an independently seeded change and run our checks on it.

<seed-dir> holds patch.diff, a demonstration (demo.cc / demo_test.cc + DEMO.md) and meta.json as
delivered by a change-seeding sub-agent.  Steps, all in the scratch worktree /tmp/seedverify (own
build directory, never /repo):
  1. the patch applies to a clean checkout of /repo's HEAD and the tree builds;
  2. the repository's own tests that were built still pass (ctest, curl tests excluded);
  3. the demonstration fails with the patch and passes without it (DEMO.md is followed by hand;
     this script only records what the caller reports with --demo-ok);
  4. our quick checks for the named properties are run against the patched sources (VERIF_REPO)
     and must exit 1.
Writes <seed-dir>/verify.json."""
import json, os, re, subprocess, sys, time

VERIF = os.path.dirname(os.path.dirname(os.path.abspath(__file__)))
WT = os.environ.get("SEEDVERIFY_WT", "/tmp/seedverify")


def sh(cmd, **kw):
    return subprocess.run(cmd, shell=True, stdout=subprocess.PIPE, stderr=subprocess.STDOUT, text=True, **kw)


def main():
    d = os.path.abspath(sys.argv[1])
    checks = None
    tier = "quick"
    skip_tests = False
    for a in sys.argv[2:]:
        if a.startswith("--checks="):
            checks = a.split("=", 1)[1].split(",")
        if a.startswith("--tier="):
            tier = a.split("=", 1)[1]
        if a == "--skip-tests":
            skip_tests = True
    meta = json.load(open(os.path.join(d, "meta.json")))
    if not checks:
        checks = [meta["property"]]
    out = {"seed": d, "property": meta["property"], "time": time.strftime("%F %T")}
    head = sh("git -C /repo rev-parse HEAD").stdout.strip()
    r = sh("git -C %s checkout -q --detach %s && git -C %s checkout -- . && git -C %s clean -fdq -e _build" % (WT, head, WT, WT))
    out["repo_head"] = head
    if r.returncode != 0 or sh("git -C %s rev-parse HEAD" % WT).stdout.strip() != head:
        out["error"] = "could not check out /repo's HEAD in the worktree: " + r.stdout[-400:]
        json.dump(out, open(os.path.join(d, "verify.json"), "w"), indent=1)
        print(json.dumps(out, indent=1))
        return 1
    r = sh("git -C %s apply --whitespace=nowarn %s" % (WT, os.path.join(d, "patch.diff")))
    out["applies"] = r.returncode == 0
    if r.returncode != 0:
        out["apply_error"] = r.stdout[-500:]
        json.dump(out, open(os.path.join(d, "verify.json"), "w"), indent=1)
        print(json.dumps(out, indent=1))
        return 1
    out["files"] = sh("git -C %s diff --stat" % WT).stdout.strip().splitlines()
    if not skip_tests:
        t0 = time.time()
        r = sh("ninja -C %s/_build -j10 2>&1 | tail -5" % WT)
        out["build_ok"] = "FAILED" not in r.stdout and "error:" not in r.stdout
        out["build_tail"] = r.stdout[-400:]
        r = sh("ctest --test-dir %s/_build -j8 --timeout 600 -E 'curl|Curl' 2>&1 | tail -15" % WT)
        out["ctest_tail"] = r.stdout[-900:]
        m = re.search(r"(\d+)% tests passed, (\d+) tests failed out of (\d+)", r.stdout)
        out["tests_pass"] = bool(m and m.group(2) == "0")
        out["tests_summary"] = m.group(0) if m else "?"
        out["test_wall_s"] = round(time.time() - t0)
    # our checks against the patched sources
    out["checks"] = {}
    env = dict(os.environ, VERIF_REPO=WT)
    for c in checks:
        t0 = time.time()
        r = subprocess.run([os.path.join(VERIF, "bin/check"), c, "--tier", tier, "--replay-dir=/tmp/seedverify_replays"], env=env, stdout=subprocess.PIPE, stderr=subprocess.STDOUT, text=True)
        sigs = sorted(set(re.findall(r"signature=(\S+)", r.stdout)))
        out["checks"][c] = {"exit": r.returncode, "signatures": sigs, "wall_s": round(time.time() - t0), "tier": tier}
    sh("git -C %s checkout -- ." % WT)
    out["caught"] = any(v["exit"] == 1 for v in out["checks"].values())
    json.dump(out, open(os.path.join(d, "verify.json"), "w"), indent=1)
    print(json.dumps(out, indent=1))
    return 0


if __name__ == "__main__":
    sys.exit(main())
