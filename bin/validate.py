#!/opt/veriftools/pyvenv/bin/python
import json, sys, glob, jsonschema
jsonschema.validate(json.load(open('/verif/MANIFEST.json')), json.load(open('/root/.vp/MANIFEST.schema.json')))
es = json.load(open('/root/.vp/EVIDENCE.schema.json'))
m = json.load(open('/verif/MANIFEST.json'))
for c in m['checks']:
    try:
        jsonschema.validate(json.load(open(c['evidence_file'])), es)
    except Exception as e:
        print('EVIDENCE INVALID', c['evidence_file'], str(e)[:300])
print('manifest valid; %d checks' % len(m['checks']))
