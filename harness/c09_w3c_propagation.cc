// C09: W3C trace-context propagation round-trips and only accepts well-formed headers (Engine B).
//  part 0  inject   : all 256 flag bytes, every (position, nibble) one-hot / all-f / mixed trace and span id, the zero
//                     ids, no span at all, trace states with 0 / 1 / 32 / 32 maximal members, local and remote originals;
//                     oracle: exact `00-32hex-16hex-2hex` (55 bytes, lower case) from an independent encoder, tracestate
//                     written iff non-empty, nothing else written, Extract(Inject(x)) == x and remote, invalid => untouched.
//  part 1  extract  : deviation-bounded generator over well-formed and near-well-formed traceparent seeds (<= m point
//                     mutations over byte classes, truncation at every length, tails) against an independent W3C parser,
//                     three-valued oracle (must-accept / must-reject / don't-care), two caller contexts.
//  part 2  extract  : valid traceparent with mutated tracestate headers: the traceparent result never depends on them.
//  part 3  helpers  : the public static TraceIdFromHex / SpanIdFromHex / TraceFlagsFromHex on exact-size heap blocks of every
//                     length 0..2N+2 (odd, short, over-long) with every single-position deviation over hex / non-hex byte
//                     classes: never a crash or an out-of-bounds access; all-hex input that fits decodes to the left-padded value.
//  Carriers: on the unmutated layer every absent header is also answered with a default-constructed (null data) view.
#include <opentelemetry/trace/propagation/http_trace_context.h>

#include "c09_propagation_common.h"

using namespace vfp;
using opentelemetry::trace::propagation::HttpTraceContext;

namespace {

const char *const kTP = "traceparent";
const char *const kTS = "tracestate";

// ---- independent W3C traceparent parser -----------------------------------------------------------------
struct W3C {
  bool ok = false;
  std::string tid, sid;
  uint8_t flags = 0;
};
// strict level-1 grammar: version "ff" forbidden, version 00 exactly 55 bytes, higher versions 55 bytes or a
// '-'-terminated 55-byte prefix, lower-case hex only, non-zero ids
W3C parse_strict(const std::string &s) {
  W3C r;
  if (s.size() < 55) return r;
  auto run = [&](size_t a, size_t n) { for (size_t i = 0; i < n; ++i) if (!is_lhex(s[a + i])) return false; return true; };
  if (!run(0, 2) || s[2] != '-' || !run(3, 32) || s[35] != '-' || !run(36, 16) || s[52] != '-' || !run(53, 2)) return r;
  if (s[0] == 'f' && s[1] == 'f') return r;
  if (s[0] == '0' && s[1] == '0') { if (s.size() != 55) return r; }
  else if (s.size() > 55 && s[55] != '-') return r;
  r.tid = s.substr(3, 32);
  r.sid = s.substr(36, 16);
  if (all_zero_digits(r.tid) || all_zero_digits(r.sid)) return r;
  r.flags = (uint8_t)(nibble(s[53]) * 16 + nibble(s[54]));
  r.ok = true;
  return r;
}
// the latitude the statement grants: surrounding ASCII whitespace and hex-digit case
W3C parse_lenient(const std::string &s) {
  const char *ws = " \t\n\v\f\r";
  size_t a = s.find_first_not_of(ws);
  if (a == std::string::npos) return W3C();
  size_t b = s.find_last_not_of(ws);
  return parse_strict(fold_hex(s.substr(a, b - a + 1)));
}

// ---- trace states ------------------------------------------------------------------------------------------
const std::vector<std::string> &trace_states() {
  static std::vector<std::string> v;
  if (v.empty()) {
    v.push_back("");
    v.push_back("rojo=00f067aa0ba902b7");
    std::string h32, hmax;
    for (int i = 0; i < 32; ++i) {
      h32 += vf::sfmt("%sk%02d=v%d", i ? "," : "", i, i);
      // W3C limits: 32 members, keys and values of up to 256 characters
      hmax += vf::sfmt("%sk%02d", i ? "," : "", i) + std::string(253, 'x') + "=" + vf::sfmt("%02d", i) + std::string(254, 'v');
    }
    v.push_back(h32);
    v.push_back(hmax);
  }
  return v;
}

const std::string T1 = "0af7651916cd43dd8448eb211c80319c", S1 = "b7ad6b7169203331";

// ---- part 0: inject ------------------------------------------------------------------------------------------
void run_inject(vf::Ctx &c) {
  const auto &tids = id_patterns<16>();
  const auto &sids = id_patterns<8>();
  static const std::array<uint8_t, 16> fixed_t[4] = {bytes_of_hex<16>(T1), bytes_of_hex<16>("00000000000000000000000000000001"),
                                                     bytes_of_hex<16>("ffffffffffffffffffffffffffffffff"), bytes_of_hex<16>("80000000000000000000000000000000")};
  static const std::array<uint8_t, 8> fixed_s[4] = {bytes_of_hex<8>(S1), bytes_of_hex<8>("0000000000000001"), bytes_of_hex<8>("ffffffffffffffff"),
                                                    bytes_of_hex<8>("8000000000000000")};
  static const uint8_t few_flags[4] = {0x00, 0x01, 0x09, 0xfe};
  std::array<uint8_t, 16> t{};
  std::array<uint8_t, 8> s{};
  uint8_t flags = 0;
  size_t tsi = 0;
  bool no_span = false, product = false;
  // (trace states are validated with std::regex by the library, which is slow under ASan: they get their own sweep)
  int sweep = c.pick("sweep", c.thorough() ? 6 : 5);
  switch (sweep) {
    case 0: {  // every flags byte
      flags = (uint8_t)c.pick("flags", 256);
      int p = c.pick("ids", 4);
      t = fixed_t[p]; s = fixed_s[p];
      break;
    }
    case 1:  // every trace id pattern (index 0 = zero id)
      t = tids[c.pick("tid", (int)tids.size())];
      s = fixed_s[c.pick("sid", 3)];
      flags = few_flags[c.pick("flags", 4)];
      break;
    case 2:  // every span id pattern
      s = sids[c.pick("sid", (int)sids.size())];
      t = fixed_t[c.pick("tid", 3)];
      flags = few_flags[c.pick("flags", 4)];
      break;
    case 3:  // a context without any span
      no_span = true;
      break;
    case 4: {  // trace states: empty, one member, 32 members, 32 members of maximal size
      tsi = (size_t)c.pick("tracestate", (int)trace_states().size());
      flags = few_flags[c.pick("flags", 4)];
      int p = c.pick("ids", 2);
      t = fixed_t[p]; s = fixed_s[p];
      break;
    }
    default:  // thorough: the full product of id patterns
      t = tids[c.pick("tid", (int)tids.size())];
      s = sids[c.pick("sid", (int)sids.size())];
      flags = few_flags[1 + c.pick("flags", 2) * 2];
      product = true;
      break;
  }
  bool remote = !no_span && !product && c.flip("original-is-remote");
  // stale headers already in the carrier (not in the id sweeps: a stale tracestate costs a regex match per execution)
  bool prefilled = (sweep == 0 || sweep == 3 || sweep == 4) && c.flip("carrier-prefilled");
  const std::string &tsh = trace_states()[tsi];

  c.stage("inject:build");
  vfq::HeapStr tsblock(tsh);
  nostd::shared_ptr<trace::TraceState> ts = trace::TraceState::FromHeader(tsblock.view());
  tsblock.scribble();
  VFP_CHECK(c, ts->ToHeader() == tsh, "C09:tracestate:valid-header-not-reproduced", "TraceState::FromHeader/ToHeader does not reproduce the W3C-valid " + vf::sfmt("%zu", tsh.size()) + "-byte test header");
  trace::SpanContext sc = make_sc(t, s, flags, remote, ts);
  context::Context cx = no_span ? context::Context() : ctx_with_span(sc);
  bool valid = !no_span && hex_lower(t.data(), 16) != std::string(32, '0') && hex_lower(s.data(), 8) != std::string(16, '0');
  std::string want = "00-" + hex_lower(t.data(), 16) + "-" + hex_lower(s.data(), 8) + "-" + hex_lower(&flags, 1);
  std::string what = no_span ? std::string("context without span") : want + (remote ? " remote" : " local") + vf::sfmt(" tracestate[%zu bytes]", tsh.size());

  MapCarrier car;
  const std::string stale_tp = "00-99999999999999999999999999999999-8888888888888888-01", stale_ts = "stale=1";
  if (prefilled) { car.put(kTP, stale_tp); car.put(kTS, stale_ts); car.put("other", "x"); }
  auto before = car.snapshot();
  HttpTraceContext prop;
  c.stage("Inject");
  prop.Inject(car, cx);
  c.step();

  if (!valid) {
    VFP_CHECK(c, car.sets.empty() && car.snapshot() == before, "C09:inject:invalid-context-injected",
              "Inject wrote headers for an invalid span context (" + what + "): " + car.show());
    c.state("inject|none");
    c.outcome("inject|invalid-not-injected");
    c.sample("Inject(" + what + ") => nothing written");
    return;
  }
  VFP_CHECK(c, car.has(kTP), "C09:inject:no-traceparent", "Inject wrote no traceparent for " + what);
  std::string got = car.value(kTP);
  if (got != want) {
    bool flags_case_only = got.size() == 55 && got.substr(0, 53) == want.substr(0, 53) && fold_hex(got) == want;
    if (flags_case_only) {
      // keep going when this is a listed finding: everything else is still checked
      c.report("C09:inject:flags-not-lowercase", vf::sfmt("Inject of flags byte 0x%02x wrote traceparent '%s' (upper-case hex digits in the flags field); the W3C form is '%s'",
                                                          flags, got.c_str(), want.c_str()));
    } else {
      c.fail("C09:inject:traceparent-form", "Inject of " + what + " wrote traceparent '" + vfq::printable(got, 100) + "', expected '" + want + "'");
    }
  }
  if (tsh.empty()) {
    if (prefilled) VFP_CHECK(c, car.value(kTS) == stale_ts, "C09:inject:tracestate-written-when-empty", "Inject with an empty trace state changed the tracestate header to '" + vfq::printable(car.value(kTS)) + "'");
    else VFP_CHECK(c, !car.has(kTS), "C09:inject:tracestate-written-when-empty", "Inject with an empty trace state wrote tracestate '" + vfq::printable(car.value(kTS)) + "'");
  } else {
    VFP_CHECK(c, car.has(kTS) && car.value(kTS) == tsh, "C09:inject:tracestate-value",
              "Inject wrote tracestate '" + vfq::printable(car.value(kTS), 60) + "' for the state '" + vfq::printable(tsh, 60) + "'");
  }
  for (auto &k : car.sets) VFP_CHECK(c, k == kTP || k == kTS, "C09:inject:unexpected-header", "Inject wrote the header '" + vfq::printable(k) + "'");
  if (prefilled) VFP_CHECK(c, car.value("other") == "x", "C09:inject:unexpected-header", "Inject changed an unrelated header");
  // the original is untouched
  VFP_CHECK(c, tid_hex(trace::GetSpan(cx)->GetContext()) == hex_lower(t.data(), 16), "C09:inject:modified-context", "Inject changed the context it read");

  // round trip (when the stale tracestate was left in place it is part of what a receiver sees: skip the state comparison then)
  c.stage("Extract(injected)");
  std::string injected = car.show();
  bool stale_state = prefilled && tsh.empty();
  Extracted e = extract_checked(c, prop, car, product ? 1 : c.pick("caller", 2), "C09:roundtrip");
  c.step();
  VFP_CHECK(c, e.installed, "C09:roundtrip:rejected", "Extract rejected what Inject wrote: " + injected);
  VFP_CHECK(c, e.tid == hex_lower(t.data(), 16) && e.sid == hex_lower(s.data(), 8), "C09:roundtrip:ids",
            "ids after the round trip are " + e.tid + "/" + e.sid + "; injected " + injected);
  VFP_CHECK(c, e.flags == flags, "C09:roundtrip:flags", vf::sfmt("flags byte 0x%02x came back as 0x%02x; injected %s", flags, e.flags, injected.c_str()));
  if (!stale_state)
    VFP_CHECK(c, e.ts == tsh, "C09:roundtrip:tracestate", "trace state came back as '" + vfq::printable(e.ts, 60) + "', original '" + vfq::printable(tsh, 60) + "'");
  c.state("inject|" + got + "|" + vf::sfmt("%zu", e.ts.size()));
  c.outcome("inject|" + got);
  if (tsh.size() < 40) c.sample("Inject(" + what + ") => " + injected + " => Extract => " + e.canon());
}

// ---- part 1: traceparent mutations -----------------------------------------------------------------------------
// reduced: the alphabet of the second mutation in the thorough tier
const MutSpec &tp_spec(bool reduced = false) {
  static MutSpec ms, small;
  if (ms.classes.empty()) {
    // hex digits (zero / non-zero / 'f' matter to the id and version rules), both cases, the characters next to
    // the hex ranges in ASCII, separator, whitespace, control, DEL, 0x80+, NUL
    ms.classes = std::string("017afAFgG/:@`- \t\r\x01\x7f\x80\xff", 21) + std::string(1, '\0');
    ms.tails = {"-", "--", "-00", "-x-y", " \t", "\r\n", std::string("\0\0", 2), "-" + std::string(200, 'z')};
    small.classes = std::string("0afFg- \x80", 8) + std::string(1, '\0');
    small.tails = {"-", "-00", " "};
  }
  return reduced ? small : ms;
}

const std::vector<std::string> &tp_seeds() {
  static std::vector<std::string> v;
  if (v.empty()) {
    const std::string Z32(32, '0'), Z16(16, '0');
    v = {
        "00-" + T1 + "-" + S1 + "-01",                                             // version 00, exact
        "00-00000000000000000000000000000001-0000000000000001-00",                 // one non-zero digit per id
        "01-" + T1 + "-" + S1 + "-01",                                             // higher version, exact length
        "01-" + T1 + "-" + S1 + "-01-what-ever",                                   // higher version, longer
        "fe-" + T1 + "-" + S1 + "-00-",                                            // highest valid version, empty tail
        "cc-ffffffffffffffffffffffffffffffff-ffffffffffffffff-ff-" + std::string("\0\x80 ", 3),  // binary tail
        "ff-" + T1 + "-" + S1 + "-01",                                             // forbidden version
        "00-" + T1 + "-" + S1 + "-01-extra",                                       // version 00 must be exact
        "00-" + Z32 + "-" + S1 + "-01",                                            // zero trace id
        "00-" + T1 + "-" + Z16 + "-01",                                            // zero span id
        " 00-" + T1 + "-" + S1 + "-01\t",                                          // padded (latitude)
        "00-0AF7651916CD43DD8448EB211C80319C-B7AD6B7169203331-0A",                 // upper case (latitude)
        "0f-" + T1 + "-" + S1 + "-a0x",                                            // higher version, flags not terminated
        "",                                                                        // empty header
    };
  }
  return v;
}

void run_extract(vf::Ctx &c) {
  const auto &seeds = tp_seeds();
  int si = c.pick("seed", (int)seeds.size());
  std::string in = seeds[si], desc = vf::sfmt("seed%d", si);
  // two mutations (thorough): on the core seeds only (version 00 exact, one-non-zero-digit ids, higher version with a
  // tail, forbidden version ff, whitespace-padded), second mutation over the reduced alphabet
  bool core = si == 0 || si == 1 || si == 3 || si == 6 || si == 10;
  int maxm = c.thorough() && core ? 2 : 1;
  int nm = c.pick("mutations", maxm + 1);
  size_t minpos = 0;
  bool vacuous = false;
  for (int i = 0; i < nm; ++i) {
    std::string d = mutate(c, in, &minpos, tp_spec(i > 0));
    if (d.empty()) vacuous = true;
    desc += " " + (d.empty() ? std::string("noop") : d);
  }
  if (vacuous) c.counted("vacuous_mutations");
  // the context choice and a tracestate ride along on the single-mutation layer only
  int caller = nm <= 1 ? c.pick("caller", 2) : 1;
  int tsv = nm <= 1 ? c.pick("tracestate", 2) : 0;
  bool tp_absent = (in.empty() && c.flip("traceparent-absent"));
  // a carrier may answer an absent key with a default-constructed view (data() == nullptr) rather than with ""
  bool null_absent = nm == 0 && (tp_absent || !tsv) && c.flip("absent-header-is-null-view");

  MapCarrier car;
  car.absent_null = null_absent;
  if (null_absent) { c.counted("absent_header_null_view"); desc += " absent=null-view"; }
  if (!tp_absent) car.put(kTP, in);
  if (tsv) car.put(kTS, "congo=t61rcWkgMzE,rojo=00f067aa0ba902b7");
  HttpTraceContext prop;
  c.stage("Extract(traceparent)");
  Extracted e = extract_checked(c, prop, car, caller, "C09:extract");
  c.step();

  W3C strict = parse_strict(in), len = strict.ok ? strict : parse_lenient(in);
  std::string shown = "'" + vfq::printable(in, 120) + "' (" + desc + ")";
  if (strict.ok) {
    c.counted("must_accept");
    VFP_CHECK(c, e.installed, "C09:extract:wellformed-rejected", "well-formed traceparent " + shown + " was rejected");
  } else if (!len.ok) {
    c.counted("must_reject");
    VFP_CHECK(c, !e.installed, "C09:extract:malformed-accepted",
              "traceparent " + shown + " is not of the W3C shape (even after trimming whitespace and folding hex case) but was accepted as " + e.canon());
  } else {
    c.counted(e.installed ? "dont_care_accepted" : "dont_care_rejected");
  }
  if (e.installed) {
    VFP_CHECK(c, e.tid == len.tid && e.sid == len.sid, "C09:extract:wrong-ids", "traceparent " + shown + " decoded to ids " + e.tid + "/" + e.sid);
    VFP_CHECK(c, e.flags == len.flags, "C09:extract:wrong-flags", vf::sfmt("traceparent %s decoded to flags 0x%02x, encoded 0x%02x", shown.c_str(), e.flags, len.flags));
    VFP_CHECK(c, e.ts == (tsv ? "congo=t61rcWkgMzE,rojo=00f067aa0ba902b7" : ""), "C09:extract:wrong-tracestate",
              "traceparent " + shown + ": trace state is '" + vfq::printable(e.ts) + "'");
  }
  c.state("tp|" + e.canon());
  c.outcome("tp|" + e.canon());
  if (in.size() < 70) c.sample("Extract(traceparent " + shown + ") => " + e.canon());
}

// ---- part 2: tracestate mutations under a valid traceparent ---------------------------------------------------
void run_tracestate(vf::Ctx &c) {
  static const std::vector<std::string> seeds = {"", "a=1", "congo=t61rcWkgMzE,rojo=00f067aa0ba902b7", "a=1, b=2 ,,c=3", "t1@sys=v w", trace_states()[2], trace_states()[2] + ",k32=v"};
  static const MutSpec ms = {std::string("a1A=,@ \t\x01\x80;", 11) + std::string(1, '\0'), {",", ",,", "=", ",k=v", " "}};
  static const std::string tps[3] = {"00-" + T1 + "-" + S1 + "-01", "00-00000000000000000000000000000001-0000000000000001-ff", "7f-" + T1 + "-" + S1 + "-00-future"};
  int si = c.pick("seed", (int)seeds.size());
  std::string in = seeds[si], desc = vf::sfmt("seed%d", si);
  int nm = c.pick("mutations", (c.thorough() ? 2 : 1) + 1);
  size_t minpos = 0;
  for (int i = 0; i < nm; ++i) {
    if (in.size() > 60) {  // long seeds: mutate the last member only
      std::string head = in.substr(0, in.size() - 8), tail = in.substr(in.size() - 8);
      size_t mp = minpos > head.size() ? minpos - head.size() : 0;
      std::string d = mutate(c, tail, &mp, ms);
      minpos = mp + head.size();
      in = head + tail;
      desc += " " + d;
    } else {
      desc += " " + mutate(c, in, &minpos, ms);
    }
  }
  int tpi = c.pick("traceparent", 3);
  bool ts_absent = (in.empty() && c.flip("tracestate-absent"));
  MapCarrier car;
  car.absent_null = ts_absent && c.flip("absent-header-is-null-view");
  if (car.absent_null) desc += " absent=null-view";
  car.put(kTP, tps[tpi]);
  if (!ts_absent) car.put(kTS, in);
  HttpTraceContext prop;
  c.stage("Extract(tracestate)");
  Extracted e = extract_checked(c, prop, car, c.pick("caller", 2), "C09:extract");
  c.step();
  W3C w = parse_strict(tps[tpi]);
  std::string shown = "'" + vfq::printable(in, 100) + "' (" + desc + ")";
  VFP_CHECK(c, e.installed, "C09:extract:tracestate-invalidates-traceparent", "a well-formed traceparent was rejected because of the tracestate " + shown);
  VFP_CHECK(c, e.tid == w.tid && e.sid == w.sid && e.flags == w.flags, "C09:extract:tracestate-changes-ids", "with tracestate " + shown + " the traceparent decoded to " + e.canon());
  if (nm == 0) {
    // unmutated seeds: the documented meaning (whitespace around members trimmed, empty members skipped, more than 32 members => dropped)
    static const std::vector<std::string> want = {"", "a=1", "congo=t61rcWkgMzE,rojo=00f067aa0ba902b7", "a=1,b=2,c=3", "t1@sys=v w", trace_states()[2], ""};
    VFP_CHECK(c, e.ts == want[si], "C09:extract:wrong-tracestate", "tracestate " + shown + " was extracted as '" + vfq::printable(e.ts, 100) + "'");
  }
  // an extracted state is always a list the propagator could inject again unchanged
  {
    vfq::HeapStr hb(e.ts);
    VFP_CHECK(c, trace::TraceState::FromHeader(hb.view())->ToHeader() == e.ts, "C09:extract:tracestate-not-reinjectable", "extracted trace state '" + vfq::printable(e.ts, 100) + "' does not survive another round trip");
  }
  c.state("ts|" + e.canon());
  c.outcome("ts|" + e.ts);
  if (in.size() < 50) c.sample("Extract(valid traceparent, tracestate " + shown + ") => " + e.canon());
}

// ---- part 3: the public *FromHex helpers -------------------------------------------------------------------------
// Extract only ever hands them exact-length, pre-validated fields; as public static members they can be called with
// anything.  Demanded: no crash, no access outside the view (exact-size heap block, an empty view has no readable byte)
// or outside the helper's own buffer (ASan).  For input made of hex digits only that fits (length <= 2N) the result is
// the value left-padded with zeroes (detail/hex.h: "Smaller hex strings are left padded with zeroes"); what non-hex or
// over-long input decodes to is don't-care.
void run_fromhex(vf::Ctx &c) {
  static const std::string classes = std::string("0f9Aa", 5) + std::string("g \x80", 3) + std::string(1, '\0') + "-";  // 5 hex, 5 non-hex
  static const std::string digits = "123456789abcdef0fedcba9876543210123456";  // position-distinguishable base
  int helper = c.pick("helper", 3);  // 0 trace id (N=16), 1 span id (N=8), 2 flags (N=1)
  const size_t N = helper == 0 ? 16 : helper == 1 ? 8 : 1;
  size_t len = (size_t)c.pick("length", (int)(2 * N + 3));  // 0 .. 2N+2
  std::string in = digits.substr(0, len);
  std::string desc = vf::sfmt("%zu digits", len);
  if (len > 0 && c.flip("deviate")) {
    size_t pos = (size_t)c.pick("pos", (int)len);
    char ch = classes[c.pick("class", (int)classes.size())];
    in[pos] = ch;
    desc += vf::sfmt(", byte %zu = %s", pos, show_byte(ch).c_str());
  } else if (len > 0 && c.flip("uniform")) {
    char ch = classes[c.pick("class", (int)classes.size())];
    in.assign(len, ch);
    desc += ", all " + show_byte(ch);
  }
  static const char *const names[3] = {"TraceIdFromHex", "SpanIdFromHex", "TraceFlagsFromHex"};
  bool null_view = len == 0 && c.flip("null-view");
  Block blk(in);
  nostd::string_view view = null_view ? nostd::string_view() : blk.view();
  c.stage(names[helper]);
  std::string got;
  if (helper == 0) { trace::TraceId id = HttpTraceContext::TraceIdFromHex(view); got = hex_lower(id.Id().data(), 16); }
  else if (helper == 1) { trace::SpanId id = HttpTraceContext::SpanIdFromHex(view); got = hex_lower(id.Id().data(), 8); }
  else { uint8_t f = HttpTraceContext::TraceFlagsFromHex(view).flags(); got = hex_lower(&f, 1); }
  c.step();
  std::string shown = std::string(names[helper]) + "('" + vfq::printable(in, 60) + "') [" + desc + (null_view ? ", default-constructed view" : "") + "]";
  if (all_xhex(in) && len <= 2 * N) {
    std::string want = std::string(2 * N - len, '0') + fold_hex(in);
    c.counted("fromhex_must_decode");
    VFP_CHECK(c, got == want, len == 2 * N ? "C09:fromhex:value" : "C09:fromhex:value:short-input", shown + " = " + got + ", expected the left-padded value " + want);
  } else {
    c.counted(len > 2 * N ? "fromhex_dontcare_overlong" : "fromhex_dontcare_nonhex");
  }
  c.state(vf::sfmt("fromhex|%d|", helper) + got);
  c.outcome(vf::sfmt("fromhex|%d|%zu|", helper, len) + got);
  if (len != 2 * N) c.sample(shown + " = " + got);
}

void setup(vf::Options &o) {
  o.split_depth = 2;
  o.deadline_s = o.thorough ? 900 : 100;
  o.table_bits = o.thorough ? 23 : 22;
}

void run(vf::Ctx &c) {
  static const int only = atoi(c.opt().get("part", "-1").c_str());  // development aid: --part=N runs one part
  switch (only >= 0 ? only : c.pick("part", 4)) {
    case 0: run_inject(c); break;
    case 1: run_extract(c); break;
    case 2: run_tracestate(c); break;
    default: run_fromhex(c); break;
  }
}

}  // namespace

VF_MAIN("c09_w3c_propagation", "C09", setup, run)
