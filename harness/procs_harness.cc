// Engine-A harness for (a) the simple span / log-record processors called from several threads
// (C03: one Export at a time; C02: exporter shut down exactly once) and (b) provider-level
// ForceFlush / Shutdown through the real TracerProvider / LoggerProvider with {batch}, {simple, batch}
// processors (C02 part c).  --oracle=C02|C03 selects the configurations and the oracle.
#include <opentelemetry/logs/logger.h>
#include <opentelemetry/sdk/common/global_log_handler.h>
#include <opentelemetry/sdk/logs/batch_log_record_processor.h>
#include <opentelemetry/sdk/logs/exporter.h>
#include <opentelemetry/sdk/logs/logger_provider.h>
#include <opentelemetry/sdk/logs/simple_log_record_processor.h>
#include <opentelemetry/sdk/resource/resource.h>
#include <opentelemetry/sdk/trace/batch_span_processor.h>
#include <opentelemetry/sdk/trace/batch_span_processor_options.h>
#include <opentelemetry/sdk/trace/exporter.h>
#include <opentelemetry/sdk/trace/simple_processor.h>
#include <opentelemetry/sdk/trace/tracer_provider.h>

#include "stub_recordables.h"
#include "vf_core.h"

namespace nostd = opentelemetry::nostd;
namespace sdkc = opentelemetry::sdk::common;
namespace sdkt = opentelemetry::sdk::trace;
namespace sdkl = opentelemetry::sdk::logs;
using namespace std::chrono;

namespace {

constexpr int64_t MS = 1000000;
constexpr int kDelayMs = 1000, kLatencyMs = 1500;

enum Ev : int { CALL_ADD, RET_ADD, CALL_FF, RET_FF, CALL_SD, RET_SD, EXP_ENTER, EXP_EXIT, XFF_ENTER, XFF_EXIT, XSD_ENTER, XSD_EXIT };
const char *const kEvName[] = {"call-add", "ret-add", "call-flush", "ret-flush", "call-shutdown", "ret-shutdown", "export-enter", "export-exit",
                               "exp-flush-enter", "exp-flush-exit", "exp-shutdown-enter", "exp-shutdown-exit"};
struct Event { int kind, thread, a, b; int64_t vt; };

struct Cfg {
  int mode;     // 0: simple processor directly, 1: provider
  int kind;     // 0 trace, 1 logs
  int T, n;     // producer threads, records each
  int S;        // concurrent shutdown threads (mode 0) / provider shutdown callers
  int procs;    // mode 1: 0 = {batch}, 1 = {simple, batch}, 2 = {batch, batch}
  int F;        // provider ForceFlush threads
  int fft;      // 0: max timeout, 1: 100 ms (shorter than the slow exporter), 2: zero (no limit for a batch processor; the deadline of a multi processor has passed at once)
  int latency;  // 1: Export of the batch child's exporter is slow
  int destroy;  // provider destroyed without explicit Shutdown
  int slow_first;  // procs == 2: the slow exporter belongs to the FIRST child (an earlier child uses up the flush budget)
  int xfail;    // bit x: exporter x reports failure from Export, ForceFlush and Shutdown (the fault alphabet of the statement);
                // the other children must be flushed and shut down all the same
};
std::vector<Cfg> g_cfgs;
std::string g_oracle;

struct Shared {
  std::vector<Event> ev;
  int inflight[4] = {0, 0, 0, 0};
  int xsd_calls[4] = {0, 0, 0, 0};
  std::vector<std::pair<int, int>> exported;  // (exporter, tag)
  std::vector<int> export_idx;                // event index of the Export entry that carried it
  int live = 0;
  std::atomic<int> tick{0};
  const Cfg *cfg = nullptr;
  int log(int kind, int a = 0, int b = 0) {
    ev.push_back({kind, vfs::self(), a, b, vfs::virt_ns()});
    vfs::note(kEvName[kind], (uint64_t)a, (uint64_t)b);
    return (int)ev.size() - 1;
  }
} *g;

int parse_tag(nostd::string_view s) {
  int v = 0;
  for (char c : s) if (c >= '0' && c <= '9') v = v * 10 + (c - '0');
  return v;
}
struct SpanRec : vfstub::SpanRec {
  int tag = -1;
  SpanRec() { g->live++; }
  ~SpanRec() override { g->live--; }
  void SetName(nostd::string_view n) noexcept override { tag = parse_tag(n); }
};
struct LogRec : vfstub::LogRec {
  int tag = -1;
  LogRec() { g->live++; }
  ~LogRec() override { g->live--; }
  void SetBody(const opentelemetry::common::AttributeValue &v) noexcept override {
    if (nostd::holds_alternative<nostd::string_view>(v)) tag = parse_tag(nostd::get<nostd::string_view>(v));
    else if (nostd::holds_alternative<const char *>(v)) tag = parse_tag(nostd::get<const char *>(v));
  }
};

[[noreturn]] void fail(const std::string &sig, const std::string &msg) {
  const Cfg &c = *g->cfg;
  std::string s = msg + vf::sfmt("\n  config: mode=%d kind=%d T=%d n=%d S=%d procs=%d F=%d fft=%d latency=%d destroy=%d slow_first=%d\n  events:\n", c.mode, c.kind, c.T, c.n, c.S, c.procs,
                                 c.F, c.fft, c.latency, c.destroy, c.slow_first);
  for (size_t i = 0; i < g->ev.size(); ++i)
    s += vf::sfmt("    [%zu] T%d %s %d %d @%lldms\n", i, g->ev[i].thread, kEvName[g->ev[i].kind], g->ev[i].a, g->ev[i].b, (long long)(g->ev[i].vt / MS));
  vfs::fail(sig, s);
}

template <class Base, class Rec, class RecBase>
class Exporter final : public Base {
  int id_;
  bool slow_;
  bool fail_;

 public:
  Exporter(int id, bool slow, bool failing = false) : id_(id), slow_(slow), fail_(failing) {}
  std::unique_ptr<RecBase> MakeRecordable() noexcept override { return std::unique_ptr<RecBase>(new Rec()); }
  sdkc::ExportResult Export(const nostd::span<std::unique_ptr<RecBase>> &batch) noexcept override {
    int idx = g->log(EXP_ENTER, id_, (int)batch.size());
    for (auto &r : batch) { g->exported.emplace_back(id_, static_cast<Rec *>(r.get())->tag); g->export_idx.push_back(idx); }
    if (++g->inflight[id_] > 1 && g_oracle == "C03") fail("C03:overlapping-export", vf::sfmt("Export on exporter %d entered while a previous Export on it is still running", id_));
    if (slow_) std::this_thread::sleep_for(milliseconds(kLatencyMs));
    else g->tick.fetch_add(1);
    --g->inflight[id_];
    g->log(EXP_EXIT, id_);
    return fail_ ? sdkc::ExportResult::kFailure : sdkc::ExportResult::kSuccess;
  }
  bool ForceFlush(microseconds) noexcept override { g->log(XFF_ENTER, id_); g->log(XFF_EXIT, id_); return !fail_; }
  bool Shutdown(microseconds) noexcept override { g->xsd_calls[id_]++; g->log(XSD_ENTER, id_); g->tick.fetch_add(1); g->log(XSD_EXIT, id_); return !fail_; }
};
using SpanExp = Exporter<sdkt::SpanExporter, SpanRec, sdkt::Recordable>;
using LogExp = Exporter<sdkl::LogRecordExporter, LogRec, sdkl::Recordable>;

// ---------------------------------------------------------------------------------------------
template <class Proc, class Exp, class RecBase, class Rec>
void run_simple(vf::Ctx &c, const Cfg &cfg, void (*add)(Proc &, std::unique_ptr<RecBase>)) {
  {
    Proc proc(std::unique_ptr<typename std::remove_pointer<decltype((Exp *)nullptr)>::type>(new Exp(0, false)));
    std::vector<std::thread> ts;
    for (int t = 0; t < cfg.T; ++t)
      ts.emplace_back([&, t] {
        for (int i = 0; i < cfg.n; ++i) {
          auto r = proc.MakeRecordable();
          static_cast<Rec *>(r.get())->tag = t * 100 + i;
          g->log(CALL_ADD, t * 100 + i);
          add(proc, std::move(r));
          g->log(RET_ADD, t * 100 + i);
        }
      });
    for (int f = 0; f < cfg.F; ++f)
      ts.emplace_back([&, f] {
        // ForceFlush racing the exports (an independently seeded change released the export lock from here)
        g->log(CALL_FF, f);
        bool ok = proc.ForceFlush();
        g->log(RET_FF, f, ok);
      });
    for (int s = 0; s < cfg.S; ++s)
      ts.emplace_back([&, s] {
        g->log(CALL_SD, s);
        proc.Shutdown();
        g->log(RET_SD, s);
      });
    for (auto &t : ts) t.join();
    if (!cfg.destroy) { g->log(CALL_SD, 99); proc.Shutdown(); g->log(RET_SD, 99); }
  }
}

void produce_span(sdkt::TracerProvider &p, int tag) {
  auto tracer = p.GetTracer("h");
  g->log(CALL_ADD, tag);
  auto span = tracer->StartSpan(vf::sfmt("r%d", tag));
  span->End();
  span = nostd::shared_ptr<opentelemetry::trace::Span>();
  g->log(RET_ADD, tag);
}
void produce_log(sdkl::LoggerProvider &p, int tag) {
  auto logger = p.GetLogger("h", "lib");
  g->log(CALL_ADD, tag);
  std::string body = vf::sfmt("r%d", tag);
  logger->EmitLogRecord(opentelemetry::logs::Severity::kInfo, nostd::string_view(body));
  g->log(RET_ADD, tag);
}

template <class Provider, class ProcBase>
void drive_provider(vf::Ctx &c, const Cfg &cfg, std::vector<std::unique_ptr<ProcBase>> procs, void (*produce)(Provider &, int)) {
  {
    Provider provider(std::move(procs), opentelemetry::sdk::resource::Resource::GetEmpty());
    std::vector<std::thread> ts;
    for (int t = 0; t < cfg.T; ++t)
      ts.emplace_back([&, t] { for (int i = 0; i < cfg.n; ++i) produce(provider, t * 100 + i); });
    for (int f = 0; f < cfg.F; ++f)
      ts.emplace_back([&, f] {
        g->log(CALL_FF, f);
        bool ok = provider.ForceFlush(cfg.fft == 0 ? (microseconds::max)() : cfg.fft == 2 ? microseconds(0) : microseconds(100 * 1000));
        g->log(RET_FF, f, ok);
      });
    for (int s = 0; s < cfg.S; ++s)
      ts.emplace_back([&, s] { g->log(CALL_SD, s); provider.Shutdown(); g->log(RET_SD, s); });
    for (auto &t : ts) t.join();
    if (!cfg.destroy) { g->log(CALL_SD, 99); provider.Shutdown(); g->log(RET_SD, 99); }
    else g->log(CALL_SD, 98);
  }
  if (cfg.destroy) g->log(RET_SD, 98);
}

void run_cfg(vf::Ctx &c, const Cfg &cfg) {
  Shared sh;
  g = &sh;
  sh.cfg = &cfg;
  int nexp = 1;
  c.stage("run");
  vfs::begin(c);
  vfs::set_post_release_points(true);  // also separate plain accesses from the unlock before them
  if (cfg.mode == 0) {
    if (cfg.kind == 0) run_simple<sdkt::SimpleSpanProcessor, SpanExp, sdkt::Recordable, SpanRec>(c, cfg, [](sdkt::SimpleSpanProcessor &p, std::unique_ptr<sdkt::Recordable> r) { p.OnEnd(std::move(r)); });
    else run_simple<sdkl::SimpleLogRecordProcessor, LogExp, sdkl::Recordable, LogRec>(c, cfg, [](sdkl::SimpleLogRecordProcessor &p, std::unique_ptr<sdkl::Recordable> r) { p.OnEmit(std::move(r)); });
  } else if (cfg.kind == 0) {
    std::vector<std::unique_ptr<sdkt::SpanProcessor>> procs;
    sdkt::BatchSpanProcessorOptions o;
    o.max_queue_size = 8; o.max_export_batch_size = 2; o.schedule_delay_millis = milliseconds(kDelayMs);
    int id = 0;
    if (cfg.procs == 1) procs.emplace_back(new sdkt::SimpleSpanProcessor(std::unique_ptr<sdkt::SpanExporter>(new SpanExp(id, false, (cfg.xfail >> id) & 1)))), ++id;
    if (cfg.procs == 2) procs.emplace_back(new sdkt::BatchSpanProcessor(std::unique_ptr<sdkt::SpanExporter>(new SpanExp(id, cfg.latency == 1 && cfg.slow_first, (cfg.xfail >> id) & 1)), o)), ++id;
    procs.emplace_back(new sdkt::BatchSpanProcessor(std::unique_ptr<sdkt::SpanExporter>(new SpanExp(id, cfg.latency == 1 && !cfg.slow_first, (cfg.xfail >> id) & 1)), o)), ++id;
    nexp = id;
    drive_provider<sdkt::TracerProvider, sdkt::SpanProcessor>(c, cfg, std::move(procs), produce_span);
  } else {
    std::vector<std::unique_ptr<sdkl::LogRecordProcessor>> procs;
    int id = 0;
    if (cfg.procs == 1) procs.emplace_back(new sdkl::SimpleLogRecordProcessor(std::unique_ptr<sdkl::LogRecordExporter>(new LogExp(id, false, (cfg.xfail >> id) & 1)))), ++id;
    if (cfg.procs == 2) procs.emplace_back(new sdkl::BatchLogRecordProcessor(std::unique_ptr<sdkl::LogRecordExporter>(new LogExp(id, cfg.latency == 1 && cfg.slow_first, (cfg.xfail >> id) & 1)), 8, milliseconds(kDelayMs), 2)), ++id;
    procs.emplace_back(new sdkl::BatchLogRecordProcessor(std::unique_ptr<sdkl::LogRecordExporter>(new LogExp(id, cfg.latency == 1 && !cfg.slow_first, (cfg.xfail >> id) & 1)), 8, milliseconds(kDelayMs), 2)), ++id;
    nexp = id;
    drive_provider<sdkl::LoggerProvider, sdkl::LogRecordProcessor>(c, cfg, std::move(procs), produce_log);
  }
  vfs::end();
  c.stage("oracle");
  const std::vector<Event> &ev = sh.ev;
  int first_sd_call = -1, first_sd_ret = -1;
  for (size_t i = 0; i < ev.size(); ++i) {
    if (ev[i].kind == CALL_SD && first_sd_call < 0) first_sd_call = (int)i;
    if (ev[i].kind == RET_SD && first_sd_ret < 0) first_sd_ret = (int)i;
  }
  std::string outcome;
  for (auto &e : sh.exported) outcome += vf::sfmt("%d:%d,", e.first, e.second);
  if (g_oracle == "C02") {
    for (int x = 0; x < nexp; ++x)
      if (sh.xsd_calls[x] != 1)
        fail(sh.xsd_calls[x] == 0 ? "C02:exporter-never-shut-down" : "C02:exporter-shutdown-twice", vf::sfmt("Shutdown of exporter %d was invoked %d times", x, sh.xsd_calls[x]));
    if (cfg.mode == 1) {
      // a provider ForceFlush that returned true is complete for every processor
      for (size_t i = 0; i < ev.size(); ++i) {
        if (ev[i].kind != RET_FF || !ev[i].b) continue;
        int ci = -1;
        for (int j = (int)i; j >= 0; --j) if (ev[j].kind == CALL_FF && ev[j].thread == ev[i].thread) { ci = j; break; }
        for (int j = 0; j < ci; ++j) {
          if (ev[j].kind != RET_ADD) continue;
          for (int x = 0; x < nexp; ++x) {
            int at = -1;
            for (size_t k = 0; k < sh.exported.size(); ++k) if (sh.exported[k].first == x && sh.exported[k].second == ev[j].a) { at = sh.export_idx[k]; break; }
            if (at < 0 || at > (int)i)
              fail("C02:provider-flush-incomplete", vf::sfmt("the provider's ForceFlush returned true at [%zu] but record %d (produced at [%d], before the flush was called at [%d]) had not been passed to exporter %d",
                                                             i, ev[j].a, j, ci, x));
          }
        }
        for (int x = 0; x < nexp; ++x) {
          // the exporter's ForceFlush must be entered after the last Export that carried a record produced
          // before the flush was called (a flush issued before the data arrived flushes nothing)
          int last_export = ci;
          for (int j = 0; j < ci; ++j) {
            if (ev[j].kind != RET_ADD) continue;
            for (size_t k = 0; k < sh.exported.size(); ++k)
              if (sh.exported[k].first == x && sh.exported[k].second == ev[j].a && sh.export_idx[k] > last_export) last_export = sh.export_idx[k];
          }
          bool xff = false, xff_any = false;
          for (int j = ci; j < (int)i; ++j) if (ev[j].kind == XFF_ENTER && ev[j].a == x) { xff_any = true; if (j > last_export) xff = true; }
          if (!xff_any) fail("C02:provider-flush-without-exporter-flush", vf::sfmt("the provider's ForceFlush returned true at [%zu] but ForceFlush of exporter %d was not invoked in between", i, x));
          if (!xff) fail("C02:provider-flush-incomplete:exporter-flushed-before-data", vf::sfmt("the provider's ForceFlush returned true at [%zu]: ForceFlush of exporter %d was only invoked before the Export at [%d] of a record produced before the flush was called", i, x, last_export));
        }
      }
      // shutdown through the provider exports everything produced before it, then silence
      for (size_t j = 0; j < ev.size(); ++j) {
        if (ev[j].kind != RET_ADD || (int)j > first_sd_call) continue;
        for (int x = 0; x < nexp; ++x) {
          bool found = false;
          for (auto &e : sh.exported) if (e.first == x && e.second == ev[j].a) found = true;
          if (!found) fail("C02:provider-shutdown-incomplete", vf::sfmt("record %d was produced (at [%zu]) before Shutdown was called at [%d] but never reached exporter %d", ev[j].a, j, first_sd_call, x));
        }
      }
      // (only batch processors promise silence after Shutdown; the simple processor is exporter 0 when procs==1)
      if (first_sd_ret >= 0)
        for (size_t i = first_sd_ret; i < ev.size(); ++i)
          if ((ev[i].kind == EXP_ENTER || ev[i].kind == XFF_ENTER || ev[i].kind == XSD_ENTER) && !(cfg.procs == 1 && ev[i].a == 0))
            fail("C02:exporter-call-after-shutdown", vf::sfmt("%s of exporter %d at [%zu] after a provider Shutdown had returned at [%d]", kEvName[ev[i].kind], ev[i].a, i, first_sd_ret));
      if (sh.live != 0) fail("C02:leak", vf::sfmt("%d recordables alive after the provider was destroyed", sh.live));
    }
  }
  if (g_oracle == "C03" && cfg.mode == 0) {
    // every record handed to a simple processor is exported in a batch of exactly one (size checked at entry)
    for (auto &e : ev) if (e.kind == EXP_ENTER && e.b != 1) fail("C03:simple-batch-size", vf::sfmt("simple processor exported a batch of %d", e.b));
  }
  c.outcome(vf::sfmt("%d|", (int)(&cfg - &g_cfgs[0])) + outcome);
  c.sample(vf::sfmt("mode=%s kind=%s T=%d n=%d S=%d procs=%d F=%d exported=%s events=%zu", cfg.mode ? "provider" : "simple", cfg.kind ? "logs" : "trace", cfg.T, cfg.n, cfg.S, cfg.procs,
                    cfg.F, outcome.c_str(), ev.size()));
}

void setup(vf::Options &o) {
  opentelemetry::sdk::common::internal_log::GlobalLogHandler::SetLogLevel(opentelemetry::sdk::common::internal_log::LogLevel::None);
  g_oracle = o.get("oracle", o.property);
  o.property = g_oracle;
  o.fork_per_exec = true;
  o.split_depth = 2;
  o.horizon = 20000;
  bool th = o.thorough;
  o.cap[vf::PREEMPT] = atoi(o.get("k", th ? "3" : "2").c_str());
  o.cap[vf::TIMER] = atoi(o.get("t", th ? "1" : "0").c_str());
  o.cap[vf::WAKE] = atoi(o.get("w", th ? "1" : "0").c_str());  // spurious wake-ups of condition waits (thorough)
  o.table_bits = th ? 25 : 23;
  o.deadline_s = atof(o.get("budget", th ? "900" : "60").c_str());
  for (int kind = 0; kind < 2; ++kind) {
    Cfg z{};
    z.kind = kind;
    if (g_oracle == "C03") {
      { Cfg c = z; c.T = 2; c.n = 2; g_cfgs.push_back(c); }
      { Cfg c = z; c.T = 3; c.n = 1; g_cfgs.push_back(c); }
      { Cfg c = z; c.T = 2; c.n = 1; c.S = 1; g_cfgs.push_back(c); }
      { Cfg c = z; c.T = 2; c.n = 1; c.F = 1; g_cfgs.push_back(c); }   // ForceFlush while exports are in flight
      { Cfg c = z; c.T = 2; c.n = 2; c.F = 1; g_cfgs.push_back(c); }
      if (th) { Cfg c = z; c.T = 3; c.n = 2; g_cfgs.push_back(c); }
      if (th) { Cfg c = z; c.T = 3; c.n = 1; c.F = 2; g_cfgs.push_back(c); }
    } else {
      { Cfg c = z; c.T = 1; c.n = 1; c.S = 2; g_cfgs.push_back(c); }                  // simple: latch forwards one exporter Shutdown
      { Cfg c = z; c.T = 1; c.n = 1; c.S = 2; c.destroy = 1; g_cfgs.push_back(c); }
      { Cfg c = z; c.mode = 1; c.T = 1; c.n = 1; c.F = 1; g_cfgs.push_back(c); }       // {batch}, flush through the provider
      { Cfg c = z; c.mode = 1; c.T = 1; c.n = 1; c.F = 1; c.procs = 1; g_cfgs.push_back(c); }
      { Cfg c = z; c.mode = 1; c.T = 1; c.n = 1; c.F = 1; c.fft = 1; c.latency = 1; g_cfgs.push_back(c); }  // child flush times out
      // two batch children, a finite flush budget, and the slow exporter behind the first / the last child: the child
      // that ran out of time must make the provider's answer false whatever the later children say
      { Cfg c = z; c.mode = 1; c.T = 1; c.n = 1; c.F = 1; c.fft = 1; c.latency = 1; c.procs = 2; c.slow_first = 1; g_cfgs.push_back(c); }
      { Cfg c = z; c.mode = 1; c.T = 1; c.n = 1; c.F = 1; c.fft = 1; c.latency = 1; c.procs = 2; g_cfgs.push_back(c); }
      { Cfg c = z; c.mode = 1; c.T = 1; c.n = 1; c.S = 2; c.procs = 1; g_cfgs.push_back(c); }
      { Cfg c = z; c.mode = 1; c.T = 1; c.n = 1; c.destroy = 1; g_cfgs.push_back(c); }
      // an exporter that reports failure (Export kFailure, ForceFlush false, Shutdown false) behind the FIRST child: the
      // later children are flushed and shut down all the same, once, and nothing happens after Shutdown returned
      { Cfg c = z; c.mode = 1; c.T = 1; c.n = 1; c.procs = 2; c.xfail = 1; g_cfgs.push_back(c); }
      { Cfg c = z; c.mode = 1; c.T = 1; c.n = 1; c.procs = 1; c.xfail = 1; g_cfgs.push_back(c); }
      { Cfg c = z; c.mode = 1; c.T = 1; c.n = 1; c.procs = 2; c.xfail = 1; c.F = 1; g_cfgs.push_back(c); }
      { Cfg c = z; c.mode = 1; c.T = 1; c.n = 1; c.procs = 2; c.F = 1; c.fft = 2; g_cfgs.push_back(c); }   // a zero budget: every child is flushed all the same
      if (th) {
        { Cfg c = z; c.mode = 1; c.T = 1; c.n = 1; c.procs = 2; c.xfail = 2; c.F = 1; g_cfgs.push_back(c); }
        { Cfg c = z; c.mode = 1; c.T = 1; c.n = 1; c.procs = 2; c.xfail = 3; c.S = 1; g_cfgs.push_back(c); }
        { Cfg c = z; c.mode = 1; c.T = 1; c.n = 2; c.F = 1; c.procs = 2; g_cfgs.push_back(c); }
        { Cfg c = z; c.mode = 1; c.T = 2; c.n = 1; c.F = 1; c.S = 1; c.procs = 1; g_cfgs.push_back(c); }
      }
    }
  }
  std::string only = o.get("cfg");
  if (!only.empty()) { Cfg c = g_cfgs[atoi(only.c_str())]; g_cfgs.assign(1, c); }
}

void run(vf::Ctx &c) { run_cfg(c, g_cfgs[c.pick("config", (int)g_cfgs.size())]); }

}  // namespace

VF_MAIN("procs", "C02", setup, run)
