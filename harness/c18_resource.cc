// C18 (a): Resource::Merge / Resource::Create precedence and the OTEL_RESOURCE_ATTRIBUTES reader (Engine B).
//  part 0  Merge: every pair (thorough: triple) of attribute maps over {a, b, service.name} x {absent, string,
//          other type} and schema URLs {"", u1, u2} against a map model (union, right operand wins, schema rule,
//          operands unchanged).
//  part 1  OTELResourceDetector::Detect (the uncached seam below Resource::Create) over a deviation-bounded
//          generator of OTEL_RESOURCE_ATTRIBUTES values x OTEL_SERVICE_NAME values against an independent
//          key=value list reader (three-valued).
//  part 2  Resource::Create caches the detected environment in a function-local static, so each environment
//          assignment is exercised in a child forked inside the execution; the child reports the created
//          resource through a pipe and the parent compares it with defaults (+) env (+) user + fallback.
#include <sys/wait.h>
#include <unistd.h>

#include <map>
#include <set>

#include <opentelemetry/sdk/common/global_log_handler.h>
#include <opentelemetry/sdk/resource/resource.h>
#include <opentelemetry/sdk/resource/resource_detector.h>
#include <opentelemetry/sdk/version/version.h>

#include "seq/vf_seq.h"

namespace sdkres    = opentelemetry::sdk::resource;
namespace sdkcommon = opentelemetry::sdk::common;
namespace nostd     = opentelemetry::nostd;
using sdkres::Resource;
using sdkres::ResourceAttributes;

namespace {

// ResourceDetector::Create is the documented way for detectors to build a Resource from a map.
struct Maker : sdkres::ResourceDetector {
  Resource Detect() override { return Create({}); }
  static Resource Make(const ResourceAttributes &a, const std::string &schema) { return Create(a, schema); }
};

typedef std::map<std::string, std::string> Model;  // key -> canonical value

struct CanonValue {
  std::string operator()(bool v) const { return vf::sfmt("b:%d", (int)v); }
  std::string operator()(int32_t v) const { return vf::sfmt("i32:%d", v); }
  std::string operator()(uint32_t v) const { return vf::sfmt("u32:%u", v); }
  std::string operator()(int64_t v) const { return vf::sfmt("i64:%lld", (long long)v); }
  std::string operator()(uint64_t v) const { return vf::sfmt("u64:%llu", (unsigned long long)v); }
  std::string operator()(double v) const { return vf::sfmt("d:%.17g", v); }
  std::string operator()(const std::string &v) const { return "s:" + v; }
  template <class T> std::string operator()(const std::vector<T> &v) const {
    std::string o = vf::sfmt("vec%zu[", sizeof(T));
    for (const auto &e : v) o += vf::sfmt("%lld,", (long long)e);
    return o + "]";
  }
  std::string operator()(const std::vector<std::string> &v) const {
    std::string o = "vs[";
    for (const auto &e : v) o += vf::sfmt("%zu:", e.size()) + e + ",";
    return o + "]";
  }
  std::string operator()(const std::vector<bool> &v) const {
    std::string o = "vb[";
    for (bool e : v) o += e ? "1" : "0";
    return o + "]";
  }
  std::string operator()(const std::vector<double> &v) const {
    std::string o = "vd[";
    for (double e : v) o += vf::sfmt("%.17g,", e);
    return o + "]";
  }
};
Model model_of(const ResourceAttributes &a) {
  Model m;
  for (auto &kv : a) m[kv.first] = nostd::visit(CanonValue(), kv.second);
  return m;
}
std::string show(const Model &m) {
  std::string o = "{";
  for (auto &kv : m) o += vfq::printable(kv.first, 30) + "=" + vfq::printable(kv.second, 40) + "; ";
  return o + "}";
}
std::string show(const Resource &r) { return show(model_of(r.GetAttributes())) + " schema='" + r.GetSchemaURL() + "'"; }

const char *kKeys[3] = {"a", "b", "service.name"};
const char *kSchemas[3] = {"", "https://example.test/schema/1", "https://example.test/schema/2"};

// operand `who` in {0,1,2}; shape per key: 0 absent, 1 string, 2 another type (differs per operand)
ResourceAttributes make_attrs(vf::Ctx &c, int who, int nkeys, std::string *desc) {
  ResourceAttributes a;
  for (int k = 0; k < nkeys; ++k) {
    int shape = c.pick("shape", 3);
    std::string key = kKeys[k == 1 && nkeys == 2 ? 2 : k];
    if (shape == 1) a[key] = std::string(1, (char)('A' + who)) + "-" + key;
    else if (shape == 2) {
      if (who == 0) a[key] = (int64_t)(100 + k);
      else if (who == 1) a[key] = std::vector<std::string>{"B", key};
      else a[key] = true;
    }
    *desc += vf::sfmt("%d", shape);
  }
  return a;
}

void check_merge(vf::Ctx &c, const Resource &x, const Resource &y, const Resource &got, const char *what) {
  Model want = model_of(x.GetAttributes());
  for (auto &kv : model_of(y.GetAttributes())) want[kv.first] = kv.second;
  Model g = model_of(got.GetAttributes());
  if (g != want) {
    bool sizes = g.size() == want.size();
    c.fail(sizes ? "C18:merge:wrong-precedence" : "C18:merge:not-the-union",
           vf::sfmt("%s: %s merged with %s gave %s, expected %s", what, show(x).c_str(), show(y).c_str(), show(got).c_str(), show(want).c_str()));
  }
  std::string ws = y.GetSchemaURL().empty() ? x.GetSchemaURL() : y.GetSchemaURL();
  c.check(got.GetSchemaURL() == ws, "C18:merge:schema-url",
          vf::sfmt("%s: schema '%s' merged with '%s' gave '%s', expected '%s'", what, x.GetSchemaURL().c_str(), y.GetSchemaURL().c_str(), got.GetSchemaURL().c_str(), ws.c_str()));
}

void run_merge(vf::Ctx &c) {
  std::string desc;
  int nops = c.thorough() ? 3 : 2;
  std::vector<Resource> ops;
  for (int i = 0; i < nops; ++i) {
    ResourceAttributes a = make_attrs(c, i, i == 2 ? 2 : 3, &desc);
    int s = c.pick("schema", 3);
    desc += vf::sfmt("/%d ", s);
    ops.push_back(Maker::Make(a, kSchemas[s]));
  }
  std::vector<std::string> before;
  for (auto &r : ops) before.push_back(show(r));
  c.stage("Merge");
  Resource ab = ops[0].Merge(ops[1]);
  c.step();
  check_merge(c, ops[0], ops[1], ab, "a.Merge(b)");
  Resource aa = ops[0].Merge(ops[0]);
  c.step();
  c.check(show(aa) == before[0], "C18:merge:self", "a.Merge(a) = " + show(aa) + " differs from a = " + before[0]);
  Resource ea = Resource::GetEmpty().Merge(ops[0]), ae = ops[0].Merge(Resource::GetEmpty());
  c.step(2);
  c.check(show(ea) == before[0] && show(ae) == before[0], "C18:merge:empty-not-neutral", "merging with the empty resource changed " + before[0] + ": " + show(ea) + " / " + show(ae));
  std::string fin = show(ab);
  if (nops == 3) {
    Resource abc = ab.Merge(ops[2]);
    c.step();
    check_merge(c, ab, ops[2], abc, "(a.Merge(b)).Merge(c)");
    Resource bc = ops[1].Merge(ops[2]);
    Resource a_bc = ops[0].Merge(bc);
    c.step(2);
    c.check(show(a_bc) == show(abc), "C18:merge:not-associative", "a.Merge(b.Merge(c)) = " + show(a_bc) + " but (a.Merge(b)).Merge(c) = " + show(abc));
    fin = show(abc);
  }
  for (int i = 0; i < nops; ++i)
    c.check(show(ops[i]) == before[i], "C18:merge:operand-modified", vf::sfmt("operand %d changed from %s to %s", i, before[i].c_str(), show(ops[i]).c_str()));
  c.state("M|" + fin);
  c.outcome("M|" + fin);
  c.sample("Merge " + desc + "=> " + fin);
}

// ---- environment -------------------------------------------------------------------------------
struct EnvVal {
  bool set;
  std::string s;
};
std::string show(const EnvVal &e) { return e.set ? "'" + vfq::printable(e.s, 60) + "'" : std::string("<unset>"); }
std::vector<EnvVal> g_attr_inputs, g_attr_small, g_svc_inputs;

std::map<const void *, std::set<std::string>> g_seen;  // per list: strings already added
void add(std::vector<EnvVal> &v, const std::string &s) {
  if (s.find('\0') != std::string::npos) return;
  if (v.size() >= 59000) return;  // a pick has at most 60000 alternatives
  if (!g_seen[&v].insert(s).second) return;
  v.push_back({true, s});
}

void build_env_inputs(bool thorough) {
  g_attr_small = {{false, ""}, {true, ""}};
  for (const char *s : {"a=1", "a=1,b=2", "a=1,a=2", "service.name=envsvc", "service.name=envsvc,a=1,", "telemetry.sdk.name=custom,a=1", "novalue", "=v", " a = 1 , b=2", "a=1=2,,b=", "process.executable.name=exe"})
    add(g_attr_small, s);
  g_attr_inputs = g_attr_small;
  for (auto &e : g_attr_small) if (e.set) g_seen[&g_attr_inputs].insert(e.s);
  const char *seeds[] = {"a=1", "a=1,b=2", "a=1,a=2", "service.name=x,a=1", "a=1,", ",a=1", "a", "=v", "a=", "a=1=2", " a = 1 , b=2", "a=1,,b=2", "a=x y,b=2", ",", "=", "a=1;b=2"};
  const std::string classes = "a=, 1\t\x80;";
  for (auto s : seeds) {
    add(g_attr_inputs, s);
    for (auto &m : vfq::mutations(s, classes)) {
      add(g_attr_inputs, m);
      if (std::string(s).size() <= (thorough ? 12u : 6u))
        for (auto &m2 : vfq::mutations(m, thorough ? "=, a" : "=, ")) add(g_attr_inputs, m2);
    }
  }
  add(g_attr_inputs, "k=" + std::string(5000, 'v'));
  std::string many;
  for (int i = 0; i < 200; ++i) many += vf::sfmt("k%d=v%d,", i, i);
  add(g_attr_inputs, many);
  g_svc_inputs = {{false, ""}, {true, ""}, {true, "svcname"}, {true, "svc,x=y"}, {true, " "}};
}

std::string trim(const std::string &s) {
  size_t a = s.find_first_not_of(" \t"), b = s.find_last_not_of(" \t");
  return a == std::string::npos ? std::string() : s.substr(a, b - a + 1);
}

// Independent reader of the two variables: normalised key -> set of permitted canonical values.
// Don't-cares (the statement does not settle them): blanks around keys and values may or may not be
// trimmed; of a repeated key any of its values may survive; a member with an empty key may be skipped.
struct EnvRef {
  std::map<std::string, std::set<std::string>> allowed;  // normalised key -> permitted trimmed values
  std::set<std::string> required;                         // normalised keys that must be present
  bool svc_set = false;                                   // OTEL_SERVICE_NAME is set and not empty
  std::string svc;
};
EnvRef env_reference(const EnvVal &attrs, const EnvVal &svc) {
  EnvRef r;
  if (attrs.set) {
    size_t pos = 0;
    const std::string &s = attrs.s;
    while (pos <= s.size()) {
      size_t e = s.find(',', pos);
      if (e == std::string::npos) e = s.size();
      std::string m = s.substr(pos, e - pos);
      pos = e + 1;
      size_t eq = m.find('=');
      if (eq == std::string::npos) continue;  // not a key=value member: contributes nothing
      std::string k = trim(m.substr(0, eq)), v = trim(m.substr(eq + 1));
      r.allowed[k].insert(v);
      if (!k.empty()) r.required.insert(k);
    }
  }
  if (svc.set && !svc.s.empty()) {  // OTEL_SERVICE_NAME takes precedence over service.name in the list
    r.svc_set = true;
    r.svc = svc.s;
    r.allowed["service.name"].insert(trim(svc.s));
    r.required.insert("service.name");
  }
  return r;
}

void set_env(const EnvVal &attrs, const EnvVal &svc) {
  if (attrs.set) setenv("OTEL_RESOURCE_ATTRIBUTES", attrs.s.c_str(), 1); else unsetenv("OTEL_RESOURCE_ATTRIBUTES");
  if (svc.set) setenv("OTEL_SERVICE_NAME", svc.s.c_str(), 1); else unsetenv("OTEL_SERVICE_NAME");
}

// every key of `got` that is attributed to the environment must carry a permitted value
bool env_permits(const EnvRef &ref, const std::string &key, const std::string &canon) {
  auto it = ref.allowed.find(trim(key));
  if (it == ref.allowed.end()) return false;
  if (canon.compare(0, 2, "s:") != 0) return false;  // environment values are strings
  if (ref.svc_set && key == "service.name") return trim(canon.substr(2)) == trim(ref.svc);
  return it->second.count(trim(canon.substr(2))) > 0;
}

void run_detect(vf::Ctx &c) {
  const EnvVal &attrs = c.pick_from("attrs", g_attr_inputs);
  const EnvVal &svc = c.pick_from("svc", g_svc_inputs);
  EnvRef ref = env_reference(attrs, svc);
  set_env(attrs, svc);
  c.stage("OTELResourceDetector::Detect");
  Resource r = sdkres::OTELResourceDetector().Detect();
  c.step();
  set_env({false, ""}, {false, ""});
  Model got = model_of(r.GetAttributes());
  std::string ctx = vf::sfmt("OTEL_RESOURCE_ATTRIBUTES=%s OTEL_SERVICE_NAME=%s detected %s", show(attrs).c_str(), show(svc).c_str(), vfq::printable(show(got), 300).c_str());
  std::set<std::string> present;
  for (auto &kv : got) {
    c.check(env_permits(ref, kv.first, kv.second), ref.allowed.count(trim(kv.first)) ? "C18:detect:wrong-value" : "C18:detect:invented-key",
            ctx + ": attribute '" + vfq::printable(kv.first, 30) + "' = '" + vfq::printable(kv.second, 40) + "' is not what the variables say");
    present.insert(trim(kv.first));
  }
  for (auto &k : ref.required) c.check(present.count(k) > 0, "C18:detect:member-lost", ctx + ": key '" + vfq::printable(k, 30) + "' is missing");
  c.check(r.GetSchemaURL().empty(), "C18:detect:schema-url", ctx + " with schema url '" + r.GetSchemaURL() + "'");
  c.state("D|" + show(got));
  c.outcome("D|" + show(got));
  if (!attrs.set || attrs.s.size() < 40) c.sample(ctx);
}

// ---- Resource::Create in a forked child ---------------------------------------------------------
void put(std::string &buf, const std::string &s) {
  uint32_t n = (uint32_t)s.size();
  buf.append(reinterpret_cast<const char *>(&n), 4);
  buf += s;
}
bool get(const std::string &buf, size_t *pos, std::string *out) {
  if (*pos + 4 > buf.size()) return false;
  uint32_t n;
  memcpy(&n, buf.data() + *pos, 4);
  *pos += 4;
  if (*pos + n > buf.size()) return false;
  out->assign(buf, *pos, n);
  *pos += n;
  return true;
}

struct UserAttrs {
  const char *name;
  ResourceAttributes attrs;
};
std::vector<UserAttrs> g_users;
void build_users() {
  g_users.push_back({"{}", {}});
  g_users.push_back({"{a:user}", {{"a", "user-a"}}});
  g_users.push_back({"{service.name:usersvc}", {{"service.name", "usersvc"}}});
  g_users.push_back({"{a:7,service.name:usersvc,telemetry.sdk.language:x}", {{"a", (int64_t)7}, {"service.name", "usersvc"}, {"telemetry.sdk.language", "x"}}});
  g_users.push_back({"{process.executable.name:exe}", {{"process.executable.name", "exe"}}});
  g_users.push_back({"{process.executable.name:42}", {{"process.executable.name", (int64_t)42}}});
}

void run_create(vf::Ctx &c) {
  const std::vector<EnvVal> &alist = g_attr_inputs;  // starts with the hand-written values
  int nattr = (int)alist.size(), cap = c.thorough() ? 150 : 40;  // one fork per execution: keep the tiers within their budgets
  if (nattr > cap) nattr = cap;
  const EnvVal &attrs = alist[c.pick("attrs", nattr)];
  const EnvVal &svc = g_svc_inputs[c.pick("svc", 3)];
  const UserAttrs &user = c.pick_from("user", g_users);
  std::string schema = kSchemas[c.pick("schema", 2)];
  std::string ctx = vf::sfmt("OTEL_RESOURCE_ATTRIBUTES=%s OTEL_SERVICE_NAME=%s Resource::Create(%s, '%s')", show(attrs).c_str(), show(svc).c_str(), user.name, schema.c_str());
  c.stage("Resource::Create(child)");
  int fds[2];
  c.check(pipe(fds) == 0, "C18:harness", "pipe failed");
  fflush(stdout);
  fflush(stderr);
  pid_t pid = fork();
  c.check(pid >= 0, "C18:harness", "fork failed");
  if (pid == 0) {
    // child: fresh function-local static in Resource::Create (the parent never calls Create)
    close(fds[0]);
    set_env(attrs, svc);
    std::string buf;
    try {
      Resource r = Resource::Create(user.attrs, schema);
      Resource again = Resource::Create(user.attrs, schema);
      Model m = model_of(r.GetAttributes());
      put(buf, "OK");
      put(buf, r.GetSchemaURL());
      put(buf, show(m) == show(model_of(again.GetAttributes())) ? "same" : "differs");
      for (auto &kv : m) { put(buf, kv.first); put(buf, kv.second); }
    } catch (std::exception &e) {
      buf.clear();
      put(buf, "EXC");
      put(buf, e.what());
    } catch (...) {
      buf.clear();
      put(buf, "EXC");
      put(buf, "unknown exception");
    }
    size_t off = 0;
    while (off < buf.size()) {
      ssize_t w = write(fds[1], buf.data() + off, buf.size() - off);
      if (w <= 0) break;
      off += (size_t)w;
    }
    close(fds[1]);
    _exit(0);
  }
  close(fds[1]);
  std::string buf;
  char tmp[4096];
  for (;;) {
    ssize_t n = read(fds[0], tmp, sizeof tmp);
    if (n > 0) buf.append(tmp, (size_t)n);
    else if (n == 0 || errno != EINTR) break;
  }
  close(fds[0]);
  int st = 0;
  while (waitpid(pid, &st, 0) < 0 && errno == EINTR) {}
  c.step();
  bool exe_not_string = std::string(user.name).find("executable.name:42") != std::string::npos;
  size_t pos = 0;
  std::string tag, s1;
  if (!(WIFEXITED(st) && WEXITSTATUS(st) == 0) || !get(buf, &pos, &tag)) {
    c.fail(exe_not_string ? "C18:create:crash:process.executable.name-not-a-string" : "C18:create:crash",
           ctx + vf::sfmt(" ended the process (%s %d)", WIFSIGNALED(st) ? "signal" : "exit status", WIFSIGNALED(st) ? WTERMSIG(st) : WEXITSTATUS(st)));
  }
  get(buf, &pos, &s1);
  if (tag == "EXC") c.fail(exe_not_string ? "C18:create:exception:process.executable.name-not-a-string" : "C18:create:exception", ctx + " threw: " + s1);
  std::string got_schema = s1, same;
  get(buf, &pos, &same);
  Model got;
  std::string k, v;
  while (get(buf, &pos, &k) && get(buf, &pos, &v)) got[k] = v;
  ctx += " = " + vfq::printable(show(got), 400) + " schema '" + got_schema + "'";
  c.check(same == "same", "C18:create:not-repeatable", ctx + ": a second Create with the same arguments gave a different resource");
  // reference: defaults (+) environment (+) user, then the service.name fallback
  Model defaults = {{"telemetry.sdk.language", "s:cpp"}, {"telemetry.sdk.name", "s:opentelemetry"}, {"telemetry.sdk.version", std::string("s:") + OPENTELEMETRY_SDK_VERSION}};
  Model um = model_of(user.attrs);
  EnvRef ref = env_reference(attrs, svc);
  std::set<std::string> present;
  bool have_service = false;
  for (auto &kv : got) {
    const std::string &key = kv.first;
    present.insert(trim(key));
    std::string why = ": attribute '" + vfq::printable(key, 30) + "' = '" + vfq::printable(kv.second, 60) + "'";
    if (key == "service.name") have_service = true;
    if (um.count(key)) c.check(kv.second == um[key], "C18:create:user-attribute-not-winning", ctx + why + " but the caller passed '" + um[key] + "'");
    else if (ref.allowed.count(trim(key))) c.check(env_permits(ref, key, kv.second), "C18:create:env-attribute-wrong", ctx + why + " is not what the environment says");
    else if (defaults.count(key)) c.check(kv.second == defaults[key], "C18:create:default-wrong", ctx + why + ", expected " + defaults[key]);
    else if (key == "service.name") {
      // fallback: "unknown_service", optionally followed by ":" and the process executable name
      std::string want = "s:unknown_service";
      bool ok = kv.second == want;
      for (auto &g : got)
        if (g.first == "process.executable.name" && g.second.compare(0, 2, "s:") == 0 && kv.second == want + ":" + g.second.substr(2)) ok = true;
      c.check(ok, "C18:create:service-name-fallback", ctx + why);
    } else c.fail("C18:create:invented-key", ctx + why + " comes from nowhere");
  }
  c.check(have_service, "C18:create:no-service-name", ctx + " has no service.name");
  for (auto &kv : um) c.check(got.count(kv.first) > 0, "C18:create:user-attribute-lost", ctx + ": '" + kv.first + "' is missing");
  for (auto &kv : defaults) c.check(got.count(kv.first) > 0, "C18:create:default-lost", ctx + ": '" + kv.first + "' is missing");
  for (auto &key : ref.required) c.check(present.count(key) > 0, "C18:create:env-attribute-lost", ctx + ": '" + vfq::printable(key, 30) + "' is missing");
  c.check(got_schema == schema, "C18:create:schema-url", ctx + ", expected schema '" + schema + "'");
  c.state("C|" + show(got) + got_schema);
  c.outcome("C|" + show(got) + got_schema);
  if (ctx.size() < 600) c.sample(ctx);
}

void setup(vf::Options &o) {
  o.split_depth = 2;  // wide picks follow: deeper splitting only floods the work queue
  o.deadline_s = o.thorough ? 900 : 150;
  build_env_inputs(o.thorough);
  build_users();
  unsetenv("OTEL_RESOURCE_ATTRIBUTES");
  unsetenv("OTEL_SERVICE_NAME");
  sdkcommon::internal_log::GlobalLogHandler::SetLogHandler(
      nostd::shared_ptr<sdkcommon::internal_log::LogHandler>(new sdkcommon::internal_log::NoopLogHandler()));
}

void run(vf::Ctx &c) {
  switch (c.pick("part", 3)) {
    case 0: run_merge(c); break;
    case 1: run_detect(c); break;
    default: run_create(c); break;
  }
}

}  // namespace

VF_MAIN("c18_resource", "C18", setup, run)
