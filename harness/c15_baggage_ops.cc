// C15 (a): Baggage value semantics and header round trip (Engine B).
// Every history of Set / Delete up to a depth bound over keys and values drawn from the printable
// classes, on the real Baggage in lock-step with an ordered-list model. After every operation:
// receiver unchanged, replace / remove semantics, GetValue of every key of the alphabet, GetAllEntries
// with a callback that stops early, and extract(inject(b)) through the real BaggagePropagator and a map
// carrier rebuilds the same entries in the same order; the header itself is decoded by the independent
// reference decoder. A depth-1 configuration runs every printable byte as a key and as a value.
//
// Shape of the choice tree: the first depth-1 operations are picks; the last operation is a loop
// over the whole alphabet inside the execution (a Baggage is an immutable value, every operation
// returns a new object and the receiver is checked to be unchanged, so the results of the loop
// iterations are independent). Histories that reach the same (entries, capacity) with the same
// remaining depth before a pick are pruned.
#include <algorithm>
#include <cctype>

#include "c15_common.h"

using namespace c15;
namespace bg = opentelemetry::baggage;

namespace {

struct Config {
  const char *name;
  int depth;
  int start;  // 0: empty, 1: two entries, 2: 179 entries
  std::vector<std::string> keys, values;
  int slices = 1;  // the last-level loop is cut into this many executions (a pick), so that a wide alphabet is shared between workers
};
std::vector<Config> g_cfg;

// "d1-bytes": every printable byte 0x20..0x7e as a one-byte key and as a one-byte value (so every byte outside
// the token set goes through the encoder and the decoder, in a key and in a value, with both hex nibbles
// covering 2..7 / 0..F), plus all punctuation in one string. The values' punctuation string in ASCII order
// has ',' before ';' (no separator inside the metadata part, as the quantifier asks); a second one has no ';'.
std::vector<std::string> byte_alphabet(bool values) {
  std::vector<std::string> r;
  std::string punct;
  for (int b = 0x20; b <= 0x7e; ++b) {
    r.push_back(std::string(1, (char)b));
    if (!isalnum(b)) punct.push_back((char)b);
  }
  r.push_back(punct);  // " !\"#$%&'()*+,-./:;<=>?@[\\]^_`{|}~"
  if (values) {
    std::string no_semi = punct;
    no_semi.erase(no_semi.find(';'), 1);
    std::reverse(no_semi.begin(), no_semi.end());
    r.push_back(no_semi);
  }
  return r;
}

// key classes: alnum (x2), space inside, '=', ',', '%' + hex digits, '+', ';', unreserved punctuation,
// a single blank, trailing blank, lone '%'; outside the quantifier: empty key, control byte
const std::vector<std::string> kKeysFull = {
    "a", "b", "a b", "k=e", "k,c", "p%41", "x+y", "s;m", "~._-", " ", "a ", "%", /* invalid: */ "", std::string("n\x01", 2)};
// value classes: alnum, space, '=', ',', '%', '+', unreserved, empty, with metadata, empty value with
// metadata, blanks at both ends, metadata with blanks / quotes / escapes inside, metadata that ends
// in a blank (don't-care); outside the quantifier: DEL, UTF-8
const std::vector<std::string> kValuesFull = {
    "1", "v w", "e=f", "c,d", "%41", "1+1", "~._-", "", "v;m=1", ";m", " v ", "v;p q;r%20=\"x\"", "v;m ",
    /* invalid: */ std::string("n\x7f", 2), "n\xc3\xa9"};

void setup(vf::Options &o) {
  o.split_depth = 2;
  o.deadline_s = o.thorough ? 900 : 100;
  o.table_bits = o.thorough ? 26 : 24;
  auto sub = [](const std::vector<std::string> &v, std::initializer_list<int> idx) {
    std::vector<std::string> r;
    for (int i : idx) r.push_back(v[i]);
    return r;
  };
  const std::vector<std::string> keys9 = sub(kKeysFull, {0, 2, 3, 4, 5, 6, 7, 9, 12}), values9 = sub(kValuesFull, {0, 1, 3, 4, 5, 7, 8, 9, 10});
  if (!o.thorough) {
    g_cfg.push_back({"d3", 3, 0, keys9, values9});
    g_cfg.push_back({"d2-full", 2, 0, kKeysFull, kValuesFull});
    g_cfg.push_back({"d2-from2", 2, 1, kKeysFull, kValuesFull});
    g_cfg.push_back({"d2-from179", 2, 2, sub(kKeysFull, {0, 2, 7, 12}), sub(kValuesFull, {0, 8, 13})});
    g_cfg.push_back({"d1-bytes", 1, 0, byte_alphabet(false), byte_alphabet(true), 32});
  } else {
    g_cfg.push_back({"d1-bytes", 1, 0, byte_alphabet(false), byte_alphabet(true), 32});
    // two entries whose keys / values are bytes the other alphabets do not contain
    g_cfg.push_back({"d2-punct", 2, 0, {"/", ":", "\"", "\\", "!", "@", "{", "`", "<", "&"}, {"/", "?", "\"", "\\", "#", "[", "|", "^", ">;'", "*;("}});
    g_cfg.push_back({"d3-full", 3, 0, kKeysFull, kValuesFull});
    g_cfg.push_back({"d3-from2", 3, 1, keys9, values9});
    g_cfg.push_back({"d4", 4, 0, sub(kKeysFull, {0, 2, 3, 5, 6, 7, 9, 12}), sub(kValuesFull, {0, 1, 4, 5, 7, 8, 9, 10})});
    g_cfg.push_back({"d5", 5, 0, sub(kKeysFull, {0, 6, 7, 9}), sub(kValuesFull, {0, 7, 8, 10})});
    g_cfg.push_back({"d3-from179", 3, 2, sub(kKeysFull, {0, 2, 7, 12}), sub(kValuesFull, {0, 8, 13})});
  }
}

bool valid_key(const std::string &k) { return !k.empty() && printable_ascii(k); }
bool valid_value(const std::string &v) { return printable_ascii(v); }

// metadata = everything from the first ';' of a value; blanks at its end cannot be told from the
// optional white space that may follow a member, so the round trip may drop them (don't-care)
Entry rtrim_meta(const Entry &e) {
  size_t sc = e.second.find(';');
  if (sc == std::string::npos) return e;
  Entry r = e;
  while (r.second.size() > sc + 1 && r.second.back() == ' ') r.second.pop_back();
  return r;
}
bool same_mod_meta_blanks(const List &got, const List &want) {
  if (got.size() != want.size()) return false;
  for (size_t i = 0; i < got.size(); ++i)
    if (!(got[i] == want[i] || got[i] == rtrim_meta(want[i]))) return false;
  return true;
}

// counters of the (unjudged) GetAllEntries behaviour: accumulated locally and flushed once per execution (the core's
// counters live in memory shared by all workers)
uint64_t g_gae[6];
const char *const kGaeName[6] = {"getallentries_stops_after_false", "getallentries_goes_on_after_false", "getallentries_true_after_false",  // (names: at most 39 characters)
                                 "getallentries_false_after_false", "getallentries_true_when_complete",  "getallentries_false_when_complete"};
void flush_counters(vf::Ctx &c) {
  for (int i = 0; i < 6; ++i) { if (g_gae[i]) c.counted(kGaeName[i], g_gae[i]); g_gae[i] = 0; }
}

size_t capacity_of(const Baggage &b) { return b.kv_properties_->max_num_entries_; }

// the header round trip through the real propagator
void round_trip(vf::Ctx &c, const nostd::shared_ptr<Baggage> &cur, const List &model, const std::string &hist) {
  c.stage("Inject");
  bg::propagation::BaggagePropagator prop;
  ctxns::Context empty_ctx;
  ctxns::Context with = bg::SetBaggage(empty_ctx, cur);
  Carrier car;
  prop.Inject(car, with);
  if (!(car.plain.size() == (model.empty() ? 0u : 1u) && (model.empty() || car.plain.count("baggage"))))
    c.fail("C15:inject:carrier-keys", vf::sfmt("after %s: Inject of %s left the carrier with { %s }", hist.c_str(), show(model).c_str(), car.dump().c_str()));
  std::string header = model.empty() ? "" : car.plain["baggage"];
  // the header is written in the encoder's alphabet and decodes (independent decoder) to the model
  Expectation x = expect_for(header);
  List ref;
  bool all_pure = true;
  for (auto &m : x.members) {
    if (m.readings.empty())
      c.fail("C15:inject:undecodable-member", vf::sfmt("after %s: header '%s' contains the member '%s' (%s)", hist.c_str(), vfq::printable(header, 200).c_str(), vfq::printable(m.text, 60).c_str(), m.why_drop));
    ref.push_back(m.readings[0]);
    all_pure = all_pure && !m.odd_kv;
  }
  bool within = header.size() <= kMaxHeaderBytes && model.size() <= kMaxMembers;
  for (auto &m : x.members) within = within && m.text.size() <= kMaxMemberBytes;
  if (!same_mod_meta_blanks(ref, model))
    c.fail("C15:inject:header-does-not-encode-the-entries",
           vf::sfmt("after %s: header '%s' decodes to %s, the baggage holds %s", hist.c_str(), vfq::printable(header, 200).c_str(), show(ref).c_str(), show(model).c_str()));
  if (!all_pure)
    c.fail("C15:inject:unescaped-byte", vf::sfmt("after %s: header '%s' contains a raw byte outside the token set in a key or value", hist.c_str(), vfq::printable(header, 200).c_str()));
  c.stage("Extract");
  ctxns::Context back = prop.Extract(car, empty_ctx);
  car.scribble_all();  // the extracted baggage owns its strings
  if (model.empty()) {
    c.check(back == empty_ctx, "C15:extract:context-replaced-with-nothing-valid", "Extract from a carrier without baggage did not return the caller's context");
    return;
  }
  List got = entries(*bg::GetBaggage(back));
  if (within) {
    if (!same_mod_meta_blanks(got, model))
      c.fail("C15:roundtrip:entries-differ",
             vf::sfmt("after %s: extract(inject(b)) gave %s for %s (header '%s')", hist.c_str(), show(got).c_str(), show(model).c_str(), vfq::printable(header, 200).c_str()));
  } else {
    c.counted("roundtrip_beyond_limits");
    if (got.size() > kMaxMembers) c.fail("C15:extract:more-than-180-members", vf::sfmt("extraction kept %zu members", got.size()));
    if (!explains(x.members, got, KeepPrefix{0}))
      c.fail("C15:extract:entry-not-a-decoding-of-a-member", vf::sfmt("after %s: beyond the limits extraction gave %s", hist.c_str(), show(got).c_str()));
    // more than 180 entries: the first 180 members of the header are still demanded (c15_common.h, keep_prefix)
    if (!explains(x.members, got, KeepPrefix{x.keep_prefix}))
      c.fail("C15:roundtrip:entry-among-first-180-dropped",
             vf::sfmt("after %s: the baggage holds %zu entries, extract(inject(b)) kept %zu and not all of the first 180: %s", hist.c_str(), model.size(), got.size(), show(got, 400).c_str()));
  }
}

std::string op_name(const Config &cfg, int op) {
  const int NK = (int)cfg.keys.size(), NV = (int)cfg.values.size();
  if (op < NK * NV) return "Set('" + vfq::printable(cfg.keys[op / NV], 16) + "','" + vfq::printable(cfg.values[op % NV], 24) + "')";
  return "Delete('" + vfq::printable(cfg.keys[op - NK * NV], 16) + "')";
}

// Applies operation `op` to the real baggage `cur` (model `model`), checks everything that can be
// checked right after it and returns the new baggage; `model` is updated.
nostd::shared_ptr<Baggage> apply(vf::Ctx &c, const Config &cfg, const nostd::shared_ptr<Baggage> &cur, List &model, int op, const std::string &hist_before) {
  const int NK = (int)cfg.keys.size(), NV = (int)cfg.values.size();
  const List before = model;
  const size_t cap_before = capacity_of(*cur);
  auto hist = [&]() { return hist_before + " " + op_name(cfg, op); };
  nostd::shared_ptr<Baggage> next;
  c.step();
  if (op < NK * NV) {
    const std::string &k = cfg.keys[op / NV], &v = cfg.values[op % NV];
    c.stage("Set");
    vfq::HeapStr hk(k), hv(v);
    nostd::string_view kview = hk.view(), vview = hv.view();
    next = cur->Set(kview, vview);
    hk.scribble(); hv.scribble();  // the result must own its strings
    List got = entries(*next);
    if (valid_key(k) && valid_value(v)) {
      // the key is present exactly once with the new value; all other entries keep their values
      // and their relative order. Where the new / updated entry goes is not stated: front, back or
      // (for a present key) in place are accepted.
      List rest, front, back, inplace;
      bool present = false;
      for (auto &e : model) {
        if (e.first == k) { present = true; inplace.emplace_back(k, v); }
        else { rest.push_back(e); inplace.push_back(e); }
      }
      front.emplace_back(k, v); front.insert(front.end(), rest.begin(), rest.end());
      back = rest; back.emplace_back(k, v);
      bool ok = got == front || got == back || (present && got == inplace);
      if (!ok)
        c.fail(present ? "C15:set:existing-key-not-replaced" : "C15:set:new-key-result", vf::sfmt("%s: on %s gave %s", hist().c_str(), show(model).c_str(), show(got).c_str()));
      model = got;
    } else {
      // outside the statement's quantifier (empty key, non-printable byte): the only demands are
      // that nothing invalid is stored and that the result still round-trips (checked below)
      for (auto &e : got)
        if (!(valid_key(e.first) && valid_value(e.second)))
          c.fail("C15:set:invalid-entry-stored", vf::sfmt("%s: on %s gave %s", hist().c_str(), show(model).c_str(), show(got).c_str()));
      c.counted(got == model ? "set_invalid_ignored" : "set_invalid_changed_entries");
      model = got;
    }
  } else {
    const std::string &k = cfg.keys[op - NK * NV];
    c.stage("Delete");
    vfq::HeapStr hk(k);
    next = cur->Delete(hk.view());
    hk.scribble();
    List got = entries(*next), want;
    for (auto &e : model) if (e.first != k) want.push_back(e);
    if (got != want) c.fail("C15:delete:result", vf::sfmt("%s: on %s gave %s", hist().c_str(), show(model).c_str(), show(got).c_str()));
    model = want;
  }
  // the receiver is never modified
  c.stage("receiver");
  if (!(entries(*cur) == before && capacity_of(*cur) == cap_before))
    c.fail("C15:receiver-modified", vf::sfmt("after %s the baggage the operation was called on holds %s, before %s", hist().c_str(), show(entries(*cur)).c_str(), show(before).c_str()));
  // GetValue of every key of the alphabet = value of the (single) entry with that key
  c.stage("GetValue");
  for (auto &k : cfg.keys) {
    std::string v = "<unset>";
    vfq::HeapStr hk(k);
    bool found = next->GetValue(hk.view(), v);
    const std::string *want = nullptr;
    int count = 0;
    for (auto &e : model) if (e.first == k) { if (!want) want = &e.second; ++count; }
    if (count > 1) c.fail("C15:duplicate-key", vf::sfmt("after %s the key '%s' occurs %d times: %s", hist().c_str(), vfq::printable(k, 16).c_str(), count, show(model).c_str()));
    if (found != (want != nullptr)) c.fail("C15:getvalue:presence", vf::sfmt("after %s GetValue('%s') returned %d on %s", hist().c_str(), vfq::printable(k, 16).c_str(), (int)found, show(model).c_str()));
    if (want && v != *want) c.fail("C15:getvalue:value", vf::sfmt("after %s GetValue('%s') gave '%s' on %s", hist().c_str(), vfq::printable(k, 16).c_str(), vfq::printable(v, 30).c_str(), show(model).c_str()));
  }
  // GetAllEntries with a callback that returns false at its call #j (j = 0, 1, never). Documented (baggage.h):
  // "all key-values entries by repeatedly invoking the function reference passed as argument for each entry" -
  // so the calls are the entries in order, up to and including the call that returned false, and all of them
  // when the callback never does. Whether the iteration stops after a false and what GetAllEntries returns are
  // not documented for Baggage: counted, not judged.
  c.stage("GetAllEntries");
  {
    const size_t n = model.size();
    size_t stops[3] = {0, 1, n};
    const int nstops = n == 0 ? 1 : n == 1 ? 2 : 3;  // distinct values of {0, 1, n}; j >= n: the callback never returns false
    for (int si = 0; si < nstops; ++si) {
      const size_t j = stops[si], least = std::min(j + 1, n);
      size_t calls = 0;
      bool mismatch = false;  // judged: the calls up to and including the first one that returned false (no allocation here: this runs after every operation)
      auto same = [](nostd::string_view a, const std::string &b) { return a.size() == b.size() && memcmp(a.data(), b.data(), b.size()) == 0; };
      bool ret = next->GetAllEntries([&](nostd::string_view k, nostd::string_view v) noexcept {
        const size_t i = calls++;
        if (i < least && !(same(k, model[i].first) && same(v, model[i].second))) mismatch = true;
        return i != j;
      });
      if (mismatch || calls < least || (j >= n && calls != n))
        c.fail(j >= n ? "C15:getallentries:not-every-entry" : "C15:getallentries:calls-before-stop",
               vf::sfmt("after %s GetAllEntries with a callback returning false at call #%zu made %zu calls%s; the %zu entries are %s", hist().c_str(), j, calls,
                        mismatch ? ", not with the entries in order" : "", n, show(model).c_str()));
      if (j < n) {
        ++g_gae[calls == j + 1 ? 0 : 1];
        ++g_gae[ret ? 2 : 3];
      } else {
        ++g_gae[ret ? 4 : 5];
      }
    }
  }
  round_trip(c, next, model, hist());
  c.state(vf::sfmt("%zu|", capacity_of(*next)) + canon(entries(*next)));
  return next;
}

void run(vf::Ctx &c) {
  const int ci = c.pick("config", (int)g_cfg.size());
  const Config &cfg = g_cfg[ci];
  for (auto &g : g_gae) g = 0;
  List model;
  nostd::shared_ptr<Baggage> cur(new Baggage());
  std::string hist = cfg.name;
  if (cfg.start == 1) model = {{"b", "0"}, {"x+y", "v;m=1"}};
  if (cfg.start == 2) for (int i = 0; i < 179; ++i) model.emplace_back(vf::sfmt("n%03d", i), "v");
  // start states are built through Set as well
  c.stage("start");
  for (size_t i = model.size(); i-- > 0;) cur = cur->Set(model[i].first, model[i].second);
  if (entries(*cur) != model) {
    // Set is allowed to append instead of prepend; take the real order as the start state
    List got = entries(*cur), sorted_got = got, sorted_model = model;
    std::sort(sorted_got.begin(), sorted_got.end());
    std::sort(sorted_model.begin(), sorted_model.end());
    c.check(sorted_got == sorted_model, "C15:set:start-state", "building the start state through Set gave " + show(got));
    model = got;
  }
  const int NOPS = (int)(cfg.keys.size() * cfg.values.size() + cfg.keys.size());
  for (int d = 0; d + 1 < cfg.depth; ++d) {
    {
      // Complete: a Baggage is an immutable value; Set/Delete/GetValue/ToHeader read only the entry
      // array and its length; the capacity (read by AddEntry) is part of the hash as well.
      vf::H128 h; h.add(0xc15a); h.add((uint64_t)(cfg.depth - d)); h.add((uint64_t)ci);
      h.add_str(canon(entries(*cur))); h.add(capacity_of(*cur));
      flush_counters(c);  // prune_point may end the execution
      c.prune_point(h);
    }
    int op = c.pick("op", NOPS);
    std::string h0 = hist;
    hist += " " + op_name(cfg, op);
    cur = apply(c, cfg, cur, model, op, h0);
  }
  // last level: every operation of the alphabet on the state reached (no prune point here: a prune
  // point must be followed by a pick, otherwise the confirming replay of a violation is pruned itself)
  vf::H128 oh;
  const int slice = cfg.slices > 1 ? c.pick("slice", cfg.slices) : 0;
  for (int op = slice; op < NOPS; op += cfg.slices) {
    List m2 = model;
    nostd::shared_ptr<Baggage> next = apply(c, cfg, cur, m2, op, hist);
    oh.add_str(canon(m2));
  }
  flush_counters(c);
  c.outcome(vf::sfmt("%016llx%016llx", (unsigned long long)oh.a, (unsigned long long)oh.b));
  if (model.size() < 4) c.sample(hist + " => " + show(model) + vf::sfmt(", then each of the %d operations", NOPS));
}

}  // namespace

VF_MAIN("c15_baggage_ops", "C15", setup, run)
