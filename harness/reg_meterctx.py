H("meterctx_c02", "C02", "sched", ["harness/meterctx_harness.cc"], sdk=["common", "version", "resource", "metrics"],
  what="real MeterProvider/MeterContext/MetricCollector with 1..2 real PeriodicExportingMetricReaders: concurrent provider Shutdown callers (latch), ForceFlush through the provider, destruction",
  design_ref="5/C02")
