H("c13_logs", "C13", "seq", ["harness/c13_logs.cc", "harness/c13_sites4_0.cc", "harness/c13_sites4_1.cc", "harness/c13_sites4_2.cc"],
  sdk=["common", "version", "resource", "trace", "logs"],
  what="real LoggerProvider/Logger/MultiLogRecordProcessor/SimpleLogRecordProcessor/ReadWriteLogRecord with processors {simple},{deferred},{simple,deferred},{deferred,simple} "
       "(deferred = harness processor that exports the queued real recordables after the caller's buffers were scribbled / freed): every ordered selection of <=3 (thorough <=4) "
       "argument kinds of EmitLogRecord(args...) x 8 active-span configurations; every AttributeValue alternative and C++ carrier type as body / attribute value; attribute list "
       "shapes; CreateLogRecord + all setter sequences up to depth 3 (4) + EmitLogRecord(record) with the span changing in between; null records; disabled logger; two emits - "
       "compared field by field with the emit-time values at every exporter",
  design_ref="5/C13")
