H("c13_logs", "C13", "seq", ["harness/c13_logs.cc", "harness/c13_sites4_0.cc", "harness/c13_sites4_1.cc", "harness/c13_sites4_2.cc"],
  sdk=["common", "version", "resource", "trace", "logs"],
  what="real LoggerProvider/Logger/MultiLogRecordProcessor/SimpleLogRecordProcessor/ReadWriteLogRecord with processors {simple},{deferred},{simple,deferred},{deferred,simple} "
       "(deferred = harness processor that exports the queued real recordables after the caller's buffers were scribbled / freed): every ordered selection of <=3 (thorough <=4) "
       "argument kinds of EmitLogRecord(args...) x 11 active-span configurations (incl. a null Span / SpanContext pointer under the span key); every AttributeValue alternative and C++ "
       "carrier type as body / attribute value; attribute list shapes; one call writing a field twice (two attribute containers sharing a key, two bodies); CreateLogRecord + all setter "
       "sequences up to depth 3 (4) + EmitLogRecord(record) with the span changing in between; null records; disabled logger; two emits; every one of the 34 convenience methods of "
       "logs::Logger (24 Trace..Fatal wrappers, 4 Log overloads, 6 variadic Trace..Fatal with 6 argument shapes) at every level; the EventLogger - compared field by field with the "
       "emit-time values at every exporter (on the deferred exporter by value and by storage identity), fields never supplied compared with an untouched recordable",
  design_ref="5/C13")

# "reaches every configured processor's exporter exactly once" on the REAL BatchLogRecordProcessor (the sequential harness above
# uses a deferred stand-in so that what is exported is deterministic): the batch harness of C01 under the scheduler, log processor
# only, its exactly-once / nothing-lost / per-producer-order predicates reported as C13:batch:*
H("batch_c13", "C13", "sched", ["harness/batch_harness.cc"], sdk=["common", "version", "resource", "trace", "logs"],
  args={"quick": ["--oracle=C01", "--as=C13", "--kind=1", "--set=light", "--k=2", "--budget=40"],
        "thorough": ["--oracle=C01", "--as=C13", "--kind=1", "--set=light", "--k=2", "--t=0", "--c=0", "--budget=200"]},
  what="real BatchLogRecordProcessor under the scheduler (the C01 batch harness, log processor only): every emitted record reaches the exporter exactly once, "
       "none is lost while the queue has room, per-producer order; reported as C13:batch:*",
  design_ref="5/C13, 12.8")
