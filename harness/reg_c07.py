_C07_SDK = ["common", "version", "resource", "metrics"]
H("c07_hist_agg", "C07", "seq", ["harness/c07_histogram.cc"], sdk=_C07_SDK, cxxflags=["-fno-access-control"],
  args={"quick": ["--seam=agg", "--n=3", "--fulln=2", "--alphabet=full"], "thorough": ["--seam=agg", "--n=5", "--fulln=3", "--alphabet=full"]},
  what="real Long/DoubleHistogramAggregation: 13 boundary lists (incl. a duplicate boundary [1,1] and, for int64, [2^53] and [2^62]) x {int64,double} x "
       "{record_min_max on/off, no config}; every multiset of <= n values of the per-list alphabet (0, denormal, DBL_MIN, 1, 1e300, 2^53, every boundary and its two "
       "neighbours; integers above 2^53 that are not exact doubles, decided on exact integer arithmetic), every assignment of its elements to three parts; "
       "each part's point, the merge of the parts in three association orders and the single histogram of all values against a by-definition reference",
  design_ref="5/C07")
H("c07_hist_meter", "C07", "seq", ["harness/c07_histogram.cc"], sdk=_C07_SDK, cxxflags=["-fno-access-control"],
  args={"quick": ["--seam=meter", "--n=3", "--alphabet=core", "--viewn=2"], "thorough": ["--seam=meter", "--n=4", "--alphabet=core", "--viewn=3"]},
  what="real MeterProvider + View in the forms View(kHistogram, config) with record_min_max on/off, View(kDefault, config), View(kHistogram, nullptr) or no view, "
       "UInt64/Double histogram instruments, 1-2 harness pull readers (delta/cumulative): every multiset of <= n values (<= viewn for the two added View forms: 2 quick, 3 thorough) split in "
       "every way over three collection cycles, every schedule of which reader collects after which cycle; "
       "each collected point against the reference histogram of the values that reader is due",
  design_ref="5/C07")

# ABI v2 adds the two Record overloads without an explicit Context (own copies of the value guard): the meter seam compiled a second
# time with the ABI macro redefined, the overloads rotating with the value index
H("c07_hist_meter_abi2", "C07", "seq", ["harness/c07_histogram.cc"], sdk=_C07_SDK,
  cxxflags=["-fno-access-control", "-UOPENTELEMETRY_ABI_VERSION_NO", "-DOPENTELEMETRY_ABI_VERSION_NO=2"],
  args={"quick": ["--seam=meter", "--n=2", "--alphabet=core", "--viewn=1"], "thorough": ["--seam=meter", "--n=3", "--alphabet=core", "--viewn=2"]},
  what="ABI v2 build of the meter seam: all four Record overloads of the UInt64 / Double histogram instruments (with / without attributes, with / without an explicit Context) "
       "rotate with the value index; same reference",
  design_ref="5/C07")
