CLAIMS["C16"] = dict(engine="seq",
  technique="deviation-bounded exhaustive input enumeration on the real propagators against independent reference decoders (three-valued oracle), exact-size heap blocks under AddressSanitizer",
  text="Inject side: the real B3Propagator, B3PropagatorMultiHeader and JaegerPropagator inject all 256 flag bytes x 4 id pairs, every (position, nibble) one-hot, all-f, "
       "mixed-digit and zero trace id and span id (thorough: the full 483 x 243 product), contexts without a span, local and remote originals; Extract of the written headers with "
       "the same propagator must yield a remote context with the same ids, IsSampled() equal to the original's for every flags byte and no other flag bit; the injected headers "
       "themselves must be a documented form (must-accept under the independent reference decoders, which share none of Extract's leniencies) encoding the same ids and the same "
       "sampled decision; Fields() must report exactly the keys Inject wrote; whatever is written for an invalid context must not be installed. Extract side: 12 b3, 13 X-B3-* "
       "(three of them with a b3 header as well, two with X-B3-Flags: 1, one with X-B3-ParentSpanId) and 11 uber-trace-id seeds (one with %3A-encoded separators) covering the "
       "documented variants (32 / 16 digit trace id, sampling 0 / 1 / d / missing, parent id, single + multi together) and near misses, with every single point mutation over 23 "
       "byte classes in any header of the format (b3, X-B3-TraceId, -SpanId, -Sampled, -Flags, -ParentSpanId / uber-trace-id) (replace / insert at every position, delete, duplicate, truncate at every length, 9 tails; thorough: every pair of mutations on 6 core seeds, second one over 10 "
       "classes), from an empty and a populated caller context. Oracle: documented forms must be accepted with the documented meaning (left-padded 64-bit ids, d = sampled, "
       "missing sampling field = not sampled, single header wins); headers that the reference cannot decode to non-zero ids must be rejected; the rest (upper case, 1-15 / 17-31 "
       "digit ids, undocumented sampling values, extra fields, unusable b3 with usable X-B3-*, %3A-encoded uber-trace-id; the sampled decision when X-B3-Flags: 1 is present) is "
       "don't-care but, if accepted, must carry exactly the reference's ids; an installed context has no trace-flag bit other than sampled (Jaeger: unless the header's flags field "
       "itself carries other bits - debug / firehose showing up in the trace flags is not decided by the statement); rejected => "
       "the returned context is the caller's context object; carrier and caller context are never modified.",
  note=SEQ_NOTE)
