CLAIMS["C13"] = dict(engine="seq",
  technique="explicit-state exploration of emit programs on the real SDK against a field-by-field reference model (bounded argument count / setter depth), "
            "with scribble-then-free ownership passes over caller storage under AddressSanitizer",
  text="Real LoggerProvider, Logger, MultiLogRecordProcessor, MultiRecordable, SimpleLogRecordProcessor and ReadWriteLogRecord with processor sets {simple}, {deferred}, "
       "{simple,deferred}, {deferred,simple}; the deferred processor is a harness processor that queues the real recordables and exports them only after every caller buffer "
       "has been overwritten with a different value of the same shape (pass 1) or overwritten and freed (pass 2, address-range check instead of a dereference), i.e. what a batch "
       "processor exports, without thread or clock. Enumerated: every ordered selection of <= 3 (thorough: <= 4) distinct argument kinds {severity, body, attributes, timestamp, "
       "event id+name, SpanContext, trace id, span id, trace flags} of the variadic EmitLogRecord (compile-time generated call sites; also with an explicit record for <= 2 arguments) "
       "x 11 active-span configurations (none, sampled, unsampled, nested both ways, inner ended, SpanContext-in-context, invalid span, null Span pointer / null SpanContext pointer / "
       "a non-span value under the span key); every AttributeValue alternative (22 shapes incl. empty string, embedded NUL, empty and string arrays) as body and as attribute value; "
       "10 C++ carrier types of the body and 9 of the attributes; attribute list shapes (duplicate keys, empty list, empty key); one call that writes a field twice (two attribute "
       "containers sharing a key in both orders and through different carriers, two bodies); CreateLogRecord + every sequence of <= 3 (thorough: <= 4) of 12 setters + "
       "EmitLogRecord(record[, severity]) with the span starting / ending between creation and emit; null records; a logger disabled through the ScopeConfigurator; two emits in a row; "
       "all 34 convenience methods of logs::Logger - the 24 inline Trace/Debug/Info/Warn/Error/Fatal wrappers (selected by address with their exact signature), the 4 virtual Log "
       "overloads with a non-round severity, the 6 variadic Trace..Fatal(args...) templates with 6 argument shapes each - with distinguishable format, attributes, EventId and int64 event "
       "id, x processor sets x {no span, sampled span} x {scribble, free}, and on the disabled logger; the deprecated EventLogger (EmitEvent(name, args...), EmitEvent(name, record), "
       "null record, disabled delegate) x {domain, no domain} x {name, no name}. Oracle at every exporter: exactly one record per effective emit, in order; severity, body, attributes "
       "(exact key set, last write wins), timestamp, event id/name equal to the emit-time values; a field that was never supplied still holds what an untouched recordable holds; each "
       "identity component = last explicit value, else the span active at creation, else zero; resource and scope equal to the provider's / logger's; nothing exported for null records "
       "and disabled loggers. On the deferred exporter a string / array value is attributed to the listed known finding (the record keeps views of caller storage) only if it is a view of "
       "exactly the storage the caller passed for the last value of that very field (same addresses and lengths, and while readable the content the caller put there afterwards); a view of "
       "any other caller storage is reported as a wrong / overwritten value like on the simple exporter.",
  note=SEQ_NOTE + " Several threads with different active spans are exercised by the separate Engine-A harness conc_c13, not by this one; the real BatchLogRecordProcessor is driven by the third harness batch_c13 (the C01 batch harness under the scheduler, log processor only): its exactly-once / nothing-lost-while-there-is-room / per-producer-order predicates are reported as C13:batch:* - record contents are opaque tagged recordables there. "
       "The observed timestamp, the event.domain / event.name attributes added by the EventLogger and the order in which EventLogger::EmitEvent(args...) applies conflicting arguments are not decided.")
