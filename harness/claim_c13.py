CLAIMS["C13"] = dict(engine="seq",
  technique="explicit-state exploration of emit programs on the real SDK against a field-by-field reference model (bounded argument count / setter depth), "
            "with scribble-then-free ownership passes over caller storage under AddressSanitizer",
  text="Real LoggerProvider, Logger, MultiLogRecordProcessor, MultiRecordable, SimpleLogRecordProcessor and ReadWriteLogRecord with processor sets {simple}, {deferred}, "
       "{simple,deferred}, {deferred,simple}; the deferred processor is a harness processor that queues the real recordables and exports them only after every caller buffer "
       "has been overwritten with a different value of the same shape (pass 1) or overwritten and freed (pass 2, address-range check instead of a dereference), i.e. what a batch "
       "processor exports, without thread or clock. Enumerated: every ordered selection of <= 3 (thorough: <= 4) distinct argument kinds {severity, body, attributes, timestamp, "
       "event id+name, SpanContext, trace id, span id, trace flags} of the variadic EmitLogRecord (compile-time generated call sites; also with an explicit record for <= 2 arguments) "
       "x 8 active-span configurations (none, sampled, unsampled, nested both ways, inner ended, SpanContext-in-context, invalid span); every AttributeValue alternative (22 shapes "
       "incl. empty string, embedded NUL, empty and string arrays) as body and as attribute value; 10 C++ carrier types of the body and 9 of the attributes; attribute list shapes "
       "(duplicate keys, empty list, empty key); CreateLogRecord + every sequence of <= 3 (thorough: <= 4) of 12 setters + EmitLogRecord(record[, severity]) with the span starting / "
       "ending between creation and emit; null records; a logger disabled through the ScopeConfigurator; two emits in a row. Oracle at every exporter: exactly one record per effective "
       "emit, in order; severity, body, attributes (exact key set, last write wins), timestamp, event id/name equal to the emit-time values; each identity component = last explicit "
       "value, else the span active at creation, else zero; resource and scope equal to the provider's / logger's; nothing exported for null records and disabled loggers.",
  note=SEQ_NOTE + " Several threads with different active spans are exercised by the separate Engine-A harness conc_c13, not by this one; the real BatchLogRecordProcessor thread is not used.")
