// C18 (c): every span / log record / metric batch references its provider's resource, and the sdk
// Provider::Set*Provider entry points honour OTEL_SDK_DISABLED exactly (Engine B, configuration enumeration).
// Real TracerProvider / LoggerProvider / MeterProvider built through each construction path (constructor,
// factory, context) with each of several resources, simple processors with harness exporters that use the
// real SpanData / ReadWriteLogRecord recordables, a harness MetricReader; 1-2 scopes x 1-2 items.
#include <opentelemetry/logs/provider.h>
#include <opentelemetry/metrics/provider.h>
#include <opentelemetry/trace/provider.h>

#include <opentelemetry/logs/noop.h>
#include <opentelemetry/metrics/noop.h>
#include <opentelemetry/trace/noop.h>

#include <opentelemetry/sdk/common/global_log_handler.h>
#include <opentelemetry/sdk/logs/exporter.h>
#include <opentelemetry/sdk/logs/logger_context_factory.h>
#include <opentelemetry/sdk/logs/logger_provider.h>
#include <opentelemetry/sdk/logs/logger_provider_factory.h>
#include <opentelemetry/sdk/logs/provider.h>
#include <opentelemetry/sdk/logs/read_write_log_record.h>
#include <opentelemetry/sdk/logs/simple_log_record_processor_factory.h>
#include <opentelemetry/sdk/metrics/export/metric_producer.h>
#include <opentelemetry/sdk/metrics/meter_context_factory.h>
#include <opentelemetry/sdk/metrics/meter_provider.h>
#include <opentelemetry/sdk/metrics/meter_provider_factory.h>
#include <opentelemetry/sdk/metrics/metric_reader.h>
#include <opentelemetry/sdk/metrics/provider.h>
#include <opentelemetry/sdk/metrics/view/view_registry.h>
#include <opentelemetry/sdk/resource/resource.h>
#include <opentelemetry/sdk/trace/exporter.h>
#include <opentelemetry/sdk/trace/provider.h>
#include <opentelemetry/sdk/trace/simple_processor_factory.h>
#include <opentelemetry/sdk/trace/span_data.h>
#include <opentelemetry/sdk/trace/tracer_context_factory.h>
#include <opentelemetry/sdk/trace/tracer_provider.h>
#include <opentelemetry/sdk/trace/tracer_provider_factory.h>

#include <map>

#include "seq/vf_seq.h"

namespace ot        = opentelemetry;
namespace nostd     = opentelemetry::nostd;
namespace sdkres    = opentelemetry::sdk::resource;
namespace sdktrace  = opentelemetry::sdk::trace;
namespace sdklogs   = opentelemetry::sdk::logs;
namespace sdkmet    = opentelemetry::sdk::metrics;
namespace sdkcommon = opentelemetry::sdk::common;
using sdkres::Resource;

namespace {

struct CanonValue {
  std::string operator()(const std::string &v) const { return "s:" + v; }
  std::string operator()(int64_t v) const { return vf::sfmt("i64:%lld", (long long)v); }
  template <class T> std::string operator()(const T &) const { return "other"; }
};
std::string canon(const Resource &r) {
  std::map<std::string, std::string> m;
  for (auto &kv : r.GetAttributes()) m[kv.first] = nostd::visit(CanonValue(), kv.second);
  std::string o = "{";
  for (auto &kv : m) o += kv.first + "=" + kv.second + ";";
  return o + "}@" + r.GetSchemaURL();
}

struct Seen {
  std::vector<const Resource *> resources;
  std::vector<std::string> values;
};

class SpanExp final : public sdktrace::SpanExporter {
  Seen *seen_;
 public:
  explicit SpanExp(Seen *s) : seen_(s) {}
  std::unique_ptr<sdktrace::Recordable> MakeRecordable() noexcept override { return std::unique_ptr<sdktrace::Recordable>(new sdktrace::SpanData()); }
  sdkcommon::ExportResult Export(const nostd::span<std::unique_ptr<sdktrace::Recordable>> &spans) noexcept override {
    for (auto &r : spans) {
      auto *sd = static_cast<sdktrace::SpanData *>(r.get());
      seen_->resources.push_back(&sd->GetResource());
      seen_->values.push_back(canon(sd->GetResource()));
    }
    return sdkcommon::ExportResult::kSuccess;
  }
  bool ForceFlush(std::chrono::microseconds) noexcept override { return true; }
  bool Shutdown(std::chrono::microseconds) noexcept override { return true; }
};

class LogExp final : public sdklogs::LogRecordExporter {
  Seen *seen_;
 public:
  explicit LogExp(Seen *s) : seen_(s) {}
  std::unique_ptr<sdklogs::Recordable> MakeRecordable() noexcept override { return std::unique_ptr<sdklogs::Recordable>(new sdklogs::ReadWriteLogRecord()); }
  sdkcommon::ExportResult Export(const nostd::span<std::unique_ptr<sdklogs::Recordable>> &recs) noexcept override {
    for (auto &r : recs) {
      auto *lr = static_cast<sdklogs::ReadWriteLogRecord *>(r.get());
      seen_->resources.push_back(&lr->GetResource());
      seen_->values.push_back(canon(lr->GetResource()));
    }
    return sdkcommon::ExportResult::kSuccess;
  }
  bool ForceFlush(std::chrono::microseconds) noexcept override { return true; }
  bool Shutdown(std::chrono::microseconds) noexcept override { return true; }
};

class Reader final : public sdkmet::MetricReader {
 public:
  sdkmet::AggregationTemporality GetAggregationTemporality(sdkmet::InstrumentType) const noexcept override { return sdkmet::AggregationTemporality::kCumulative; }
 private:
  bool OnForceFlush(std::chrono::microseconds) noexcept override { return true; }
  bool OnShutDown(std::chrono::microseconds) noexcept override { return true; }
};

Resource make_resource(int which) {
  switch (which) {
    case 0: return Resource::Create({{"service.name", "svc-a"}, {"k", "v"}});
    case 1: return Resource::Create({{"service.name", "svc-b"}, {"n", (int64_t)5}}, "https://example.test/schema/1");
    case 2: return Resource::Create({});
    default: return Resource::GetEmpty();
  }
}

void verify(vf::Ctx &c, const char *signal, const Seen &seen, size_t expected_items, const Resource &provider_resource, const std::string &passed) {
  c.check(canon(provider_resource) == passed, std::string("C18:provider-resource:") + signal + ":value-changed",
          vf::sfmt("%s provider reports resource %s, constructed with %s", signal, canon(provider_resource).c_str(), passed.c_str()));
  c.check(seen.resources.size() == expected_items, std::string("C18:harness:") + signal, vf::sfmt("%zu items exported, expected %zu", seen.resources.size(), expected_items));
  for (size_t i = 0; i < seen.resources.size(); ++i) {
    c.check(seen.values[i] == passed, std::string("C18:exported-resource:") + signal + ":wrong-value",
            vf::sfmt("%s item %zu was exported with resource %s, its provider has %s", signal, i, seen.values[i].c_str(), passed.c_str()));
    c.check(seen.resources[i] == &provider_resource, std::string("C18:exported-resource:") + signal + ":not-the-providers",
            vf::sfmt("%s item %zu references a resource object (%s) that is not its provider's", signal, i, seen.values[i].c_str()));
  }
}

const char *kDisabledValues[] = {nullptr, "", "true", "TRUE", "tRuE", "false", "1", "truex", " true"};

// construction paths
//  0 constructor(processor / views, resource)      1 factory(processor / views, resource)      2 factory(context(processors, resource))
//  3 constructor with the DEFAULTED resource       4 factory overload WITHOUT a resource (both: Resource::Create({}))
//  5 two processors (trace / logs: factory(vector of 2, resource); metrics: two readers)
//  6 one processor at construction, a second one added with AddProcessor / AddMetricReader AFTER the provider handed out a
//    tracer / logger / meter and telemetry was emitted
enum { P_CTOR, P_FACTORY, P_CONTEXT, P_CTOR_DEFAULT, P_FACTORY_DEFAULT, P_TWO, P_ADD_LATER, P_N };
const char *const kPathName[P_N] = {"constructor", "factory", "context", "constructor-default-resource", "factory-default-resource", "two-processors", "processor-added-later"};

void run(vf::Ctx &c) {
  int signal = c.pick("signal", 3);
  int path = c.pick("path", P_N);
  const bool default_resource = path == P_CTOR_DEFAULT || path == P_FACTORY_DEFAULT;
  int which = default_resource ? 2 : c.pick("resource", 4);  // 2 is Resource::Create({}): what the defaulted parameter / the short factory overload builds
  int scopes = 1 + c.pick("scopes", c.thorough() ? 3 : 2);
  int items = 1 + c.pick("items", c.thorough() ? 3 : 2);
  // OTEL_SDK_DISABLED concerns the sdk Provider setters, not the construction path: the new paths run with the variable unset
  const char *dis = kDisabledValues[path <= P_CONTEXT ? c.pick("OTEL_SDK_DISABLED", (int)(sizeof kDisabledValues / sizeof *kDisabledValues)) : 0];
  bool disabled = dis && strcasecmp(dis, "true") == 0;
  if (dis) setenv("OTEL_SDK_DISABLED", dis, 1); else unsetenv("OTEL_SDK_DISABLED");
  struct Unset { ~Unset() { unsetenv("OTEL_SDK_DISABLED"); } } unset_on_exit;
  Resource res = make_resource(which);
  std::string passed = canon(res);
  Seen seen, seen2;  // per processor / reader
  size_t expect1 = 0, expect2 = 0;
  const bool two = path == P_TWO || path == P_ADD_LATER;
  std::string dctx = vf::sfmt("OTEL_SDK_DISABLED=%s", dis ? dis : "<unset>");
  std::string pctx = std::string(" [") + kPathName[path] + "]";
  c.stage(signal == 0 ? "trace" : signal == 1 ? "logs" : "metrics");
  if (signal == 0) {
    auto proc = sdktrace::SimpleSpanProcessorFactory::Create(std::unique_ptr<sdktrace::SpanExporter>(new SpanExp(&seen)));
    auto proc2 = sdktrace::SimpleSpanProcessorFactory::Create(std::unique_ptr<sdktrace::SpanExporter>(new SpanExp(&seen2)));
    std::shared_ptr<sdktrace::TracerProvider> tp;
    if (path == P_CTOR || path == P_ADD_LATER) tp.reset(new sdktrace::TracerProvider(std::move(proc), res));
    else if (path == P_FACTORY) tp = sdktrace::TracerProviderFactory::Create(std::move(proc), res);
    else if (path == P_CTOR_DEFAULT) tp.reset(new sdktrace::TracerProvider(std::move(proc)));
    else if (path == P_FACTORY_DEFAULT) tp = sdktrace::TracerProviderFactory::Create(std::move(proc));
    else {
      std::vector<std::unique_ptr<sdktrace::SpanProcessor>> ps;
      ps.push_back(std::move(proc));
      if (path == P_TWO) { ps.push_back(std::move(proc2)); tp = sdktrace::TracerProviderFactory::Create(std::move(ps), res); }
      else tp = sdktrace::TracerProviderFactory::Create(sdktrace::TracerContextFactory::Create(std::move(ps), res));
    }
    nostd::shared_ptr<ot::trace::Tracer> early;
    if (path == P_ADD_LATER) {
      early = tp->GetTracer("lib-early", "1.0");
      early->StartSpan("before")->End();
      ++expect1;
      tp->AddProcessor(std::move(proc2));
    }
    for (int s = 0; s < scopes; ++s) {
      auto tracer = tp->GetTracer(s == 0 ? "lib-one" : s == 1 ? "lib-two" : "lib-three", "1.0");
      for (int i = 0; i < items; ++i) { tracer->StartSpan("op")->End(); c.step(); }
    }
    expect1 += (size_t)(scopes * items);
    if (two) expect2 += (size_t)(scopes * items);
    if (early) { early->StartSpan("after")->End(); ++expect1; ++expect2; }  // a tracer handed out before AddProcessor reaches the new processor too
    verify(c, "span", seen, expect1, tp->GetResource(), passed);
    if (two) verify(c, "span", seen2, expect2, tp->GetResource(), passed);
    // global registration honours OTEL_SDK_DISABLED
    nostd::shared_ptr<ot::trace::TracerProvider> noop(new ot::trace::NoopTracerProvider());
    ot::trace::Provider::SetTracerProvider(noop);
    nostd::shared_ptr<ot::trace::TracerProvider> api_tp(tp);
    sdktrace::Provider::SetTracerProvider(api_tp);
    bool installed = ot::trace::Provider::GetTracerProvider().get() == api_tp.get();
    ot::trace::Provider::SetTracerProvider(noop);
    c.check(installed == !disabled, installed ? "C18:sdk-disabled:trace:provider-installed-although-disabled" : "C18:sdk-disabled:trace:provider-not-installed",
            dctx + vf::sfmt(": sdk::trace::Provider::SetTracerProvider installed=%d", (int)installed));
  } else if (signal == 1) {
    auto proc = sdklogs::SimpleLogRecordProcessorFactory::Create(std::unique_ptr<sdklogs::LogRecordExporter>(new LogExp(&seen)));
    auto proc2 = sdklogs::SimpleLogRecordProcessorFactory::Create(std::unique_ptr<sdklogs::LogRecordExporter>(new LogExp(&seen2)));
    std::shared_ptr<sdklogs::LoggerProvider> lp;
    if (path == P_CTOR || path == P_ADD_LATER) lp.reset(new sdklogs::LoggerProvider(std::move(proc), res));
    else if (path == P_FACTORY) lp = sdklogs::LoggerProviderFactory::Create(std::move(proc), res);
    else if (path == P_CTOR_DEFAULT) lp.reset(new sdklogs::LoggerProvider(std::move(proc)));
    else if (path == P_FACTORY_DEFAULT) lp = sdklogs::LoggerProviderFactory::Create(std::move(proc));
    else {
      std::vector<std::unique_ptr<sdklogs::LogRecordProcessor>> ps;
      ps.push_back(std::move(proc));
      if (path == P_TWO) { ps.push_back(std::move(proc2)); lp = sdklogs::LoggerProviderFactory::Create(std::move(ps), res); }
      else lp = sdklogs::LoggerProviderFactory::Create(sdklogs::LoggerContextFactory::Create(std::move(ps), res));
    }
    nostd::shared_ptr<ot::logs::Logger> early;
    if (path == P_ADD_LATER) {
      early = lp->GetLogger("logger-early", "lib-early", "1.0");
      early->EmitLogRecord(ot::logs::Severity::kInfo, "before");
      ++expect1;
      lp->AddProcessor(std::move(proc2));
    }
    for (int s = 0; s < scopes; ++s) {
      auto logger = lp->GetLogger(s == 0 ? "logger-one" : s == 1 ? "logger-two" : "logger-three", s == 0 ? "lib-one" : s == 1 ? "lib-two" : "lib-three", "1.0");
      for (int i = 0; i < items; ++i) { logger->EmitLogRecord(ot::logs::Severity::kInfo, "message"); c.step(); }
    }
    expect1 += (size_t)(scopes * items);
    if (two) expect2 += (size_t)(scopes * items);
    if (early) { early->EmitLogRecord(ot::logs::Severity::kInfo, "after"); ++expect1; ++expect2; }
    verify(c, "log", seen, expect1, lp->GetResource(), passed);
    if (two) verify(c, "log", seen2, expect2, lp->GetResource(), passed);
    nostd::shared_ptr<ot::logs::LoggerProvider> noop(new ot::logs::NoopLoggerProvider());
    ot::logs::Provider::SetLoggerProvider(noop);
    nostd::shared_ptr<ot::logs::LoggerProvider> api_lp(lp);
    sdklogs::Provider::SetLoggerProvider(api_lp);
    bool installed = ot::logs::Provider::GetLoggerProvider().get() == api_lp.get();
    ot::logs::Provider::SetLoggerProvider(noop);
    c.check(installed == !disabled, installed ? "C18:sdk-disabled:logs:provider-installed-although-disabled" : "C18:sdk-disabled:logs:provider-not-installed",
            dctx + vf::sfmt(": sdk::logs::Provider::SetLoggerProvider installed=%d", (int)installed));
  } else {
    std::shared_ptr<sdkmet::MeterProvider> mp;
    auto views = std::unique_ptr<sdkmet::ViewRegistry>(new sdkmet::ViewRegistry());
    if (path == P_CTOR || path == P_TWO || path == P_ADD_LATER) mp.reset(new sdkmet::MeterProvider(std::move(views), res));
    else if (path == P_FACTORY) mp = sdkmet::MeterProviderFactory::Create(std::move(views), res);
    else if (path == P_CTOR_DEFAULT) { if (c.flip("default-views-too")) mp.reset(new sdkmet::MeterProvider()); else mp.reset(new sdkmet::MeterProvider(std::move(views))); }
    else if (path == P_FACTORY_DEFAULT) { if (c.flip("default-views-too")) mp = sdkmet::MeterProviderFactory::Create(); else mp = sdkmet::MeterProviderFactory::Create(std::move(views)); }
    else mp = sdkmet::MeterProviderFactory::Create(sdkmet::MeterContextFactory::Create(std::move(views), res));
    std::shared_ptr<Reader> reader(new Reader()), reader2(new Reader());
    mp->AddMetricReader(reader);
    if (path == P_TWO) mp->AddMetricReader(reader2);
    std::vector<nostd::unique_ptr<ot::metrics::Counter<uint64_t>>> counters;
    for (int s = 0; s < scopes; ++s) {
      auto meter = mp->GetMeter(s == 0 ? "lib-one" : s == 1 ? "lib-two" : "lib-three", "1.0");
      counters.push_back(meter->CreateUInt64Counter("requests"));
      counters.back()->Add(3);
    }
    if (path == P_ADD_LATER) mp->AddMetricReader(reader2);  // after meters and instruments exist and recorded
    size_t scope_batches = 0;
    for (int i = 0; i < items; ++i) {  // one collection per "item"
      reader->Collect([&](sdkmet::ResourceMetrics &rm) {
        seen.resources.push_back(rm.resource_);
        seen.values.push_back(rm.resource_ ? canon(*rm.resource_) : std::string("<null>"));
        scope_batches += rm.scope_metric_data_.size();
        return true;
      });
      if (two)
        reader2->Collect([&](sdkmet::ResourceMetrics &rm) {  // how much a late reader sees is not this property's business; which resource it sees is
          seen2.resources.push_back(rm.resource_);
          seen2.values.push_back(rm.resource_ ? canon(*rm.resource_) : std::string("<null>"));
          return true;
        });
      c.step();
    }
    c.check(scope_batches == (size_t)(scopes * items), "C18:harness:metrics", vf::sfmt("%zu scope batches collected, expected %d", scope_batches, scopes * items));
    verify(c, "metric", seen, (size_t)items, mp->GetResource(), passed);
    if (two) verify(c, "metric", seen2, (size_t)items, mp->GetResource(), passed);
    nostd::shared_ptr<ot::metrics::MeterProvider> noop(new ot::metrics::NoopMeterProvider());
    ot::metrics::Provider::SetMeterProvider(noop);
    nostd::shared_ptr<ot::metrics::MeterProvider> api_mp(mp);
    sdkmet::Provider::SetMeterProvider(api_mp);
    bool installed = ot::metrics::Provider::GetMeterProvider().get() == api_mp.get();
    ot::metrics::Provider::SetMeterProvider(noop);
    c.check(installed == !disabled, installed ? "C18:sdk-disabled:metrics:provider-installed-although-disabled" : "C18:sdk-disabled:metrics:provider-not-installed",
            dctx + vf::sfmt(": sdk::metrics::Provider::SetMeterProvider installed=%d", (int)installed));
  }
  std::string st = vf::sfmt("%d|%d|%zu+%zu|%d|", signal, path, seen.resources.size(), seen2.resources.size(), (int)disabled) + passed;
  c.state(st);
  c.outcome(st);
  c.sample(vf::sfmt("signal %d path %s scopes %d items %d %s: %zu+%zu items all reference the provider's resource %s", signal, kPathName[path], scopes, items, dctx.c_str(), seen.resources.size(), seen2.resources.size(), passed.c_str()));
}

void setup(vf::Options &o) {
  o.split_depth = 3;
  o.deadline_s = o.thorough ? 600 : 100;
  unsetenv("OTEL_RESOURCE_ATTRIBUTES");
  unsetenv("OTEL_SERVICE_NAME");
  unsetenv("OTEL_SDK_DISABLED");
  sdkcommon::internal_log::GlobalLogHandler::SetLogHandler(
      nostd::shared_ptr<sdkcommon::internal_log::LogHandler>(new sdkcommon::internal_log::NoopLogHandler()));
}

}  // namespace

VF_MAIN("c18_providers", "C18", setup, run)
