CLAIMS["C09"] = dict(engine="seq",
  technique="deviation-bounded exhaustive input enumeration on the real propagator against an independent encoder / parser (three-valued oracle), exact-size heap blocks under AddressSanitizer",
  text="Inject side: the real HttpTraceContext::Inject is run for all 256 flag bytes x 4 id pairs, every (position, nibble) one-hot, all-f, mixed-digit and zero trace id "
       "and span id (thorough: the full 483 x 243 product), contexts without a span, trace states with 0 / 1 / 32 / 32 maximal (256+256 byte) members, local and remote originals, "
       "empty and pre-filled carriers; the traceparent must equal an independently encoded 55-byte lower-case `00-32hex-16hex-2hex`, tracestate is written iff non-empty, nothing "
       "else is written, invalid contexts write nothing, and Extract of the result returns a remote context with the same ids, flags byte and trace state. Extract side: 14 "
       "traceparent seeds (versions 00 / 01 / fe / cc / 0f / ff, exact and longer forms, zero ids, padded, upper case, empty) with every single point mutation over 22 byte classes "
       "(replace / insert at every position, delete, duplicate, truncate at every length, 8 tails; thorough: every pair of mutations on 5 core seeds, second one over 9 classes) "
       "and 7 tracestate seeds with the same mutations under 3 valid traceparents, from an empty and a populated caller context. Oracle: strict W3C headers must be accepted, "
       "anything not of that shape even after trimming ASCII whitespace and folding hex case must be rejected, the rest is don't-care; accepted => exactly the encoded ids / flags, "
       "remote, caller's other values kept; rejected => the returned context is the caller's context object (same head node); the carrier and the caller's context are never modified; "
       "a tracestate header never changes the traceparent verdict. Absent headers are answered by the carrier with a zero-byte block and (unmutated layer) with a default-constructed "
       "null-data view. Helpers: TraceIdFromHex / SpanIdFromHex / TraceFlagsFromHex on exact-size heap blocks of every length 0..2N+2 (odd, short, over-long), unchanged, with every single "
       "byte replaced by each of 10 hex / non-hex classes, or uniform: never a crash or out-of-bounds access; all-hex input of length <= 2N decodes to the left-padded value; the value for "
       "over-long or non-hex input is don't-care.",
  note=SEQ_NOTE)
