CLAIMS["C18"] = dict(engine="seq",
  technique="exhaustive enumeration of small-domain inputs and deviation-bounded string generators on the real code against independent reference readers (three-valued), "
            "environment answers (errno on entry, variable values) enumerated, UB turned into traps by -fsanitize=signed-integer-overflow",
  text="(a) Resource::Merge on all pairs (thorough: triples, incl. associativity) of attribute maps over {a, b, service.name} x {absent, string, other type} x schema URLs {'', u1, u2}: "
       "union, right operand wins, schema rule, operands unchanged, empty resource neutral. OTELResourceDetector::Detect over 16 seeds + all single point mutations (plus all double mutations of the seeds of <= 6, thorough <= 12 bytes) of "
       "OTEL_RESOURCE_ATTRIBUTES values x 5 OTEL_SERVICE_NAME values against an independent key=value reader. Resource::Create in a child forked inside the execution per environment "
       "assignment (40 quick / 150 thorough list values x {unset, '', name}) x 6 user attribute maps x 2 schema URLs against defaults (+) env (+) user + service.name fallback. "
       "(b) Get{Bool,Uint,Duration,Float,String}EnvironmentVariable and GetSdkDisabled over per-reader generators (all letter cases; 0, 1, 2^32-1, 2^32, 2^64-1, 2^64, 25 digits, signs, "
       "blanks, hex; 29 counts x 7 units incl. 2^63-adjacent, 25-digit and unit-conversion-overflowing values; float overflow/underflow/nan/inf/junk; all single and class-restricted double point "
       "mutations of short seeds, thorough: full double mutations of the shortest seeds) x errno on entry in {0, ERANGE}: documented syntax => true + exact value, libc leniency (leading blank, '+', zero durations, float sign/exponent/hex/inf/nan) => exact "
       "value or default, anything else => default, never a wrapped or partial value. (c) Tracer/Logger/MeterProvider x construction path (constructor, factory, context; constructor and factory overloads without a resource, which must yield Resource::Create({}); "
       "two processors / readers; a second processor / reader added with AddProcessor / AddMetricReader after a tracer / logger was handed out and telemetry emitted) x 4 resources x scopes x items: every exported "
       "span / log record / metric batch, at every exporter / reader, references its provider's resource object; sdk Provider::Set*Provider honours OTEL_SDK_DISABLED over 9 values.",
  note=SEQ_NOTE + " Percent-decoding of OTEL_RESOURCE_ATTRIBUTES values is not part of the statement and not checked; batch processors and periodic readers are not used in part (c).")
