H("c17_conc", "C17", "sched", ["harness/c17_conc.cc"], sdk=["common", "version", "resource", "metrics"],
  what="Engine A: a collection in flight on one thread while another thread removes a callback / destroys the instrument (real ObservableRegistry): no invocation may start after RemoveCallback / the destruction returned; "
       "two readers (cumulative + delta) collecting concurrently on one observable counter / gauge: one invocation per collection, exact values",
  design_ref="5/C17")
