CLAIMS["C19"] = dict(
    engine="seq",
    technique="bounded exhaustive input / configuration enumeration on the real SDK against reference models: deviation-bounded string generator for instrument names and units "
              "(three-valued oracle), all small view sets over a selector alphabet, all short scope-configurator rule lists, all pairs of identity requests",
    text="(a) Every name of lengths 0,1,2,254,255,256,300 with every byte value at the first, second, middle and last position (thorough: two mutated positions) and every unit of lengths "
         "0,1,63,64,300 with every byte value at the first/last position, as NUL-terminated std::string, slice of a longer buffer with a valid and an invalid tail, and exact-size heap "
         "block under ASan, through the real Meter::Create* of the 12 instrument kinds (quick: full byte sweeps for 4 kinds, a representative core set for all 12); one measurement, a pull "
         "MetricReader collects; valid <=> exactly one stream with exactly that name/unit/type and the default aggregation, invalid => no stream; the same through the two synchronous "
         "gauges in a second build of harness and SDK under ABI v2. The code of a build without working std::regex, compiled from the unchanged sources under other class names, is held "
         "to the same reference: the hand-written validator on every sweep input, view selection (predicate.h) on a selector x instrument table. (b) Every set of <= 2 views (thorough: larger alphabet, plus triples over a small "
         "one) over {type} x {name: exact, pattern, '*', no match} x {unit} x {meter selector: wildcard, exact, name only, other version, other name, ...} x {view specs: identity, "
         "rename+description+Sum, LastValue+attribute filter, Histogram+filter, Drop, Histogram with own boundaries / no min-max, rename onto another instrument's name} against seven "
         "instruments (every instrument type of ABI v1) on two meters (one unversioned/schema-less): exported streams == streams shaped by each matching view + default stream of each "
         "unmatched instrument, compared on name, description, unit, point kind, configured boundaries / min-max, attribute keys (quick: the first pair alphabet runs against four of the instruments). (c) Every ScopeConfigurator rule list of "
         "length <= 4 (thorough 5) over {name-equals x, name-equals y, version matcher, attribute matcher} x {enable, disable} x default, for tracer, meter and logger providers with four "
         "scopes: exactly the scopes enabled by the first matching rule deliver their span / metric (every instrument kind against the short rule lists) / log records (three ways of "
         "emitting); under ABI v2 also with scope attributes on tracers and meters. (d) Every ordered pair of identity requests (8 tracer/meter identities, 96 "
         "(thorough 120) logger identities incl. logger name, defaulted library name and attributes; ABI v2 build: 40 tracer/meter identities incl. attributes given as nullptr / empty iterable / k=1 / k=2 / j=1) "
         "under three configurators: same object iff equal in all components.",
    note=SEQ_NOTE)
