CLAIMS["C19"] = dict(
    engine="seq",
    technique="bounded exhaustive input / configuration enumeration on the real SDK against reference models: deviation-bounded string generator for instrument names and units "
              "(three-valued oracle), all small view sets over a selector alphabet, all short scope-configurator rule lists, all pairs of identity requests",
    text="(a) Every name of lengths 0,1,2,254,255,256,300 with every byte value at the first, second, middle and last position (thorough: two mutated positions) and every unit of lengths "
         "0,1,63,64,300 with every byte value at the first/last position, as NUL-terminated std::string, slice of a longer buffer with a valid and an invalid tail, and exact-size heap "
         "block under ASan, through the real Meter::Create* of the 12 instrument kinds (quick: full byte sweeps for 4 kinds, a representative core set for all 12); one measurement, a pull "
         "MetricReader collects; valid <=> exactly one stream with exactly that name/unit/type and the default aggregation, invalid => no stream. The regex validator (used by this "
         "build) is additionally compared with the hand-written variant compiled from the same source. (b) Every set of <= 2 views (thorough: larger alphabet, plus triples over a small "
         "one) over {type} x {name: exact, pattern, '*', no match} x {unit} x {meter selector: wildcard, exact, name only, other version, other name, ...} x {view specs: identity, "
         "rename+description+Sum, LastValue+attribute filter, Histogram+filter, Drop} against four instruments on two meters (one unversioned/schema-less): exported streams == streams "
         "shaped by each matching view + default stream of each unmatched instrument, compared on name, description, unit, point kind, attribute keys. (c) Every ScopeConfigurator rule list of "
         "length <= 4 (thorough 5) over {name-equals x, name-equals y, version matcher, attribute matcher} x {enable, disable} x default, for tracer, meter and logger providers with four "
         "scopes: exactly the scopes enabled by the first matching rule deliver their span / metric / log record. (d) Every ordered pair of identity requests (8 tracer/meter identities, 96 "
         "(thorough 120) logger identities incl. logger name, defaulted library name and attributes) under three configurators: same object iff equal in all components.",
    note=SEQ_NOTE)
