CLAIMS["C10"] = dict(
    engine="seq",
    technique="explicit-state exploration of operation histories on the real Context / RuntimeContext / trace::Scope against reference models "
              "(bounded depth, canonical-state pruning on the real stack object for the runtime part)",
    text="(a) Immutability: every history of depth 3 (quick) / 4 (thorough) over SetValue (keys a, b, empty key; int and span values), SetValues (all 8 "
         "subsets of {a,b,ab}, including the empty map), RuntimeContext::SetValue(key,value,&ctx), copy, assignment, drop and the three Context "
         "constructors on a growing family of contexts; after EVERY operation every context still held is re-queried (GetValue, HasKey, "
         "RuntimeContext::GetValue) over 6 keys (incl. prefixes of one another, the empty key and absent keys, in exact-size heap blocks under ASan) and "
         "compared with its own model map; key buffers are scribbled and maps cleared after each call (the context must own its data). (b) Runtime stack: "
         "every full-alphabet history of depth 6 (quick) / 9 (thorough, crossing the stack's reallocations at pushes 1, 3 and 7) over Attach(empty / A / B, also "
         "repeatedly), Detach through any live token (out of order, already detached, foreign), token destruction, trace::Scope push and pop of any live "
         "scope, against a vector-of-identities model (detach = pop through the most recent frame with the token's identity, else no change); after every "
         "operation RuntimeContext::GetCurrent(), the values visible through it and Tracer::GetCurrentSpan() must equal the model's top frame; Detach's "
         "return value is checked where the statement fixes it; after all tokens died no frame may remain. (c) Two threads run one after the other "
         "while the main thread holds frames: each sees only its own stack. (d) Deep stacks (shaped, not full-alphabet): for every N in {1..16, 31, 33, 65} "
         "(thorough {1..34, 62..65, 126..128}; the storage grows at pushes 1, 3, 7, 15, 31, 63, 127) x {N distinct contexts, every 3rd attach re-attaches an "
         "earlier context, N nested trace::Scope} x {Detach(token) with the token kept alive, destruction} x unwind plan {newest first; the token of attach "
         "1, N/4, N/2 or N-1 out of order and then newest first (stale tokens included); pop newest-first down to depth N/4+1, N/4, N/4-1, 1 or 0, attach "
         "again up to N, unwind}: GetCurrent(), the visible values, GetCurrentSpan() and Detach's return value are compared with the model after EVERY "
         "attach and EVERY detach, and no frame may remain at the end; states are counted on the real Stack (size_, capacity_, frames). After every operation of (b), (d), (e) "
         "RuntimeContext::SetValue(key,value) without a context must derive from the current context (its values and active span) and leave it current. (e) Special frames, depth 5 / 7: "
         "Attach of a context whose active-span key holds an int64 (GetCurrentSpan must be invalid although the context below has a span), Scope made by Tracer::WithActiveSpan, Scope over a "
         "null span pointer, with token / scope destruction in any order, same model and oracle as (b). (f) Custom storage, depth 5 / 7: with a harness RuntimeContextStorage installed "
         "(not a stack: Detach removes one frame only) every RuntimeContext::Attach / Detach, token and Scope destruction is exactly one call on it with the same context / token, results are "
         "handed back unchanged, GetCurrent / GetValue / SetValue / GetCurrentSpan answer from its current context, the default thread-local stack stays empty, and the default storage works "
         "again after it is re-installed. (c) also: a token of the main thread destroyed on another thread changes neither stack.",
    note=SEQ_NOTE + " Tokens with the same context are interchangeable (a Token holds only its const Context), so Detach / ~Token choose an identity, not a "
         "token index (symmetry reduction). Don't-care: the return value of Detach for an empty-context token when no empty frame is attached; HasKey "
         "for a key bound to monostate (not generated); what GetCurrentSpan returns while a Scope over a null span is the top frame; for a custom storage everything except delegation. Interleaved multi-thread use is explored by the interleaving-engine harness registered for the same property (conc_c10); part (c) here is sequential.")
