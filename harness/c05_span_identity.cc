// C05: new spans get correct identity, parentage, flags and trace state (Engine B).
//
// Every program (tree) up to a depth bound over {StartSpan with each parenting mechanism,
// WithActiveSpan push, scope pop, End} x every sampler configuration runs on a real TracerProvider
// with a custom deterministic IdGenerator (and, in one part, the real RandomIdGenerator) in
// lock-step with a model: a stack of active spans plus the precedence rule of the statement
// (explicit valid SpanContext, then explicit Context, then the active span).
#include <opentelemetry/common/key_value_iterable_view.h>
#include <opentelemetry/context/runtime_context.h>
#include <opentelemetry/sdk/resource/resource.h>
#include <opentelemetry/sdk/trace/random_id_generator.h>
#include <opentelemetry/sdk/trace/samplers/always_off.h>
#include <opentelemetry/sdk/trace/samplers/always_on.h>
#include <opentelemetry/sdk/trace/samplers/parent.h>
#include <opentelemetry/sdk/trace/samplers/trace_id_ratio.h>
#include <opentelemetry/sdk/trace/simple_processor.h>
#include <opentelemetry/sdk/trace/tracer_provider.h>
#include <opentelemetry/trace/context.h>
#include <opentelemetry/trace/default_span.h>
#include <opentelemetry/trace/scope.h>
#include <opentelemetry/trace/span.h>
#include <opentelemetry/trace/tracer.h>

#include <set>

#include <sys/wait.h>
#include <unistd.h>

#include "c04_support.h"
#include "vf_clock.h"

using namespace c04;
namespace sdkres = opentelemetry::sdk::resource;
namespace ctxns = opentelemetry::context;
using sdktr::Decision;
#define CK(cond, sig, msg) do { if (!(cond)) c.fail((sig), (msg)); } while (0)

namespace {

// ---- samplers -----------------------------------------------------------------------------------
struct SamplerCall {
  // what the tracer handed to the sampler
  tr::SpanContext parent{false, false};
  tr::TraceId trace_id;
  std::string name;
  tr::SpanKind kind;
  std::string attrs, links;  // rendered in the order delivered
  // what the sampler answered
  Decision decision;
  bool has_ts;
  std::string ts;
  bool has_attrs;
};
struct SamplerLog { std::vector<SamplerCall> calls; };

// rendering of the (few) attribute types the harness passes to StartSpan; anything else shows as '?'
struct RenderV {
  std::string operator()(bool v) const { return v ? "bool:true" : "bool:false"; }
  std::string operator()(int32_t v) const { return vf::sfmt("int32:%d", v); }
  std::string operator()(int64_t v) const { return vf::sfmt("int64:%lld", (long long)v); }
  std::string operator()(const char *v) const { return std::string("string:") + v; }
  std::string operator()(nostd::string_view v) const { return "string:" + std::string(v.data(), v.size()); }
  template <class T> std::string operator()(const T &) const { return "?"; }
};
std::string render_kv(const ot::common::KeyValueIterable &kv) {
  std::string s;
  kv.ForEachKeyValue([&](nostd::string_view k, AttributeValue v) noexcept {
    s += std::string(k.data(), k.size()) + "=" + nostd::visit(RenderV{}, v) + ";";
    return true;
  });
  return s;
}
std::string render_links(const tr::SpanContextKeyValueIterable &links) {
  std::string s;
  links.ForEachKeyValue([&](tr::SpanContext sc, const ot::common::KeyValueIterable &a) noexcept {
    s += show(sc) + "{" + render_kv(a) + "},";
    return true;
  });
  return s;
}

// Observes what the sampler under it decided; the decision itself is the wrapped sampler's.
class RecordingSampler final : public sdktr::Sampler {
  std::unique_ptr<sdktr::Sampler> inner_;
  SamplerLog &log_;

 public:
  RecordingSampler(std::unique_ptr<sdktr::Sampler> inner, SamplerLog &log) : inner_(std::move(inner)), log_(log) {}
  sdktr::SamplingResult ShouldSample(const tr::SpanContext &parent, tr::TraceId trace_id, nostd::string_view name, tr::SpanKind kind,
                                     const ot::common::KeyValueIterable &attrs, const tr::SpanContextKeyValueIterable &links) noexcept override {
    sdktr::SamplingResult r = inner_->ShouldSample(parent, trace_id, name, kind, attrs, links);
    SamplerCall call;
    call.parent = parent;
    call.trace_id = trace_id;
    call.name = std::string(name.data(), name.size());
    call.kind = kind;
    call.attrs = render_kv(attrs);
    call.links = render_links(links);
    call.decision = r.decision;
    call.has_ts = (bool)r.trace_state;
    call.ts = r.trace_state ? r.trace_state->ToHeader() : std::string();
    call.has_attrs = (bool)r.attributes;
    log_.calls.push_back(call);
    return r;
  }
  nostd::string_view GetDescription() const noexcept override { return "recording"; }
};

const char kSamplerTraceState[] = "s1=sampler,s2=x";
// Returns a fixed decision (or asks the explorer for one per call), with/without trace state and attributes.
class HarnessSampler final : public sdktr::Sampler {
  vf::Ctx *script_;  // non-null: every call is a choice point
  Decision decision_;
  bool ts_, attrs_;

 public:
  HarnessSampler(Decision d, bool ts, bool attrs) : script_(nullptr), decision_(d), ts_(ts), attrs_(attrs) {}
  explicit HarnessSampler(vf::Ctx *c) : script_(c), decision_(Decision::DROP), ts_(false), attrs_(false) {}
  sdktr::SamplingResult ShouldSample(const tr::SpanContext &, tr::TraceId, nostd::string_view, tr::SpanKind, const ot::common::KeyValueIterable &,
                                     const tr::SpanContextKeyValueIterable &) noexcept override {
    Decision d = decision_;
    bool ts = ts_, at = attrs_;
    if (script_) {
      d = (Decision)script_->pick("decision", 3);
      ts = script_->pick("sampler-trace-state", 2) == 1;
    }
    std::unique_ptr<const std::map<std::string, AttributeValue>> attrs;
    if (at) attrs.reset(new std::map<std::string, AttributeValue>{{"sampler.attr", int64_t(41)}, {"k1", int64_t(42)}});
    nostd::shared_ptr<tr::TraceState> state;
    if (ts) state = tr::TraceState::FromHeader(kSamplerTraceState);
    return {d, std::move(attrs), state};
  }
  nostd::string_view GetDescription() const noexcept override { return "harness"; }
};

const int kBuiltinSamplers = 7, kFixedSamplers = 12;
std::unique_ptr<sdktr::Sampler> make_sampler(int which, vf::Ctx *c, std::string *name) {
  using S = std::unique_ptr<sdktr::Sampler>;
  switch (which) {
    case 0: *name = "AlwaysOn"; return S(new sdktr::AlwaysOnSampler);
    case 1: *name = "AlwaysOff"; return S(new sdktr::AlwaysOffSampler);
    case 2: *name = "ParentBased(AlwaysOn)"; return S(new sdktr::ParentBasedSampler(std::make_shared<sdktr::AlwaysOnSampler>()));
    case 3: *name = "ParentBased(AlwaysOff)"; return S(new sdktr::ParentBasedSampler(std::make_shared<sdktr::AlwaysOffSampler>()));
    case 4: *name = "TraceIdRatio(0)"; return S(new sdktr::TraceIdRatioBasedSampler(0.0));
    case 5: *name = "TraceIdRatio(0.5)"; return S(new sdktr::TraceIdRatioBasedSampler(0.5));
    case 6: *name = "TraceIdRatio(1)"; return S(new sdktr::TraceIdRatioBasedSampler(1.0));
  }
  which -= kBuiltinSamplers;
  if (which < kFixedSamplers) {
    static const char *dn[3] = {"DROP", "RECORD_ONLY", "RECORD_AND_SAMPLE"};
    int d = which / 4;
    bool ts = which & 1, at = which & 2;
    *name = std::string("Harness(") + dn[d] + (ts ? ",trace-state" : "") + (at ? ",attributes" : "") + ")";
    return S(new HarnessSampler((Decision)d, ts, at));
  }
  *name = "Harness(decision chosen per call)";
  return S(new HarnessSampler(c));
}

// ---- id generator whose trace ids straddle the 0.5 ratio threshold ----------------------------------
tr::TraceId c05_trace_id(uint8_t tag, uint32_t n) {
  uint8_t b[16] = {0};
  b[0] = tag; b[7] = (n & 1) ? 0xf0 : 0x01;  // byte 7 is the top byte of the value the ratio sampler compares
  b[12] = uint8_t(n >> 24); b[13] = uint8_t(n >> 16); b[14] = uint8_t(n >> 8); b[15] = uint8_t(n);
  return tr::TraceId(b);
}
struct IdLog { std::vector<tr::SpanId> span_ids; std::vector<tr::TraceId> trace_ids; };
class TreeIdGenerator final : public sdktr::IdGenerator {
  IdLog &log_;

 public:
  TreeIdGenerator(IdLog &log, bool is_random) : sdktr::IdGenerator(is_random), log_(log) {}
  tr::SpanId GenerateSpanId() noexcept override { log_.span_ids.push_back(make_span_id(0x5a, (uint32_t)log_.span_ids.size() + 1)); return log_.span_ids.back(); }
  tr::TraceId GenerateTraceId() noexcept override { log_.trace_ids.push_back(c05_trace_id(0x7a, (uint32_t)log_.trace_ids.size() + 1)); return log_.trace_ids.back(); }
};

// ---- model ----------------------------------------------------------------------------------------
struct MSpan {
  nostd::shared_ptr<tr::Span> sp;
  tr::SpanContext ctx{false, false};  // the real context, after it passed the oracle
  tr::SpanId parent;                  // zero: root
  Decision decision = Decision::DROP;
  bool ended = false;
  std::string how;
};
// WithActiveSpan scopes; destroyed innermost first, also when a failed check unwinds the execution
struct ScopeStack {
  std::vector<std::unique_ptr<tr::Scope>> scopes;
  std::vector<int> span_of;
  ~ScopeStack() { while (!scopes.empty()) scopes.pop_back(); }
};

const char kRemoteTraceState[] = "r1=remote,r2=y";
const uint8_t kRemoteFlags[5] = {0x00, 0x01, 0x02, 0x03, 0xff};

enum ParentKind {
  P_NONE = 0,         // options.parent untouched: the active span, if any
  P_SC_00, P_SC_01, P_SC_02, P_SC_03, P_SC_FF,  // explicit valid remote SpanContext, flags as named, with trace state
  P_SC_01_NOTS,       // explicit valid remote SpanContext, flags 01, empty trace state
  P_SC_INVALID,       // explicit invalid SpanContext (zero trace id) that carries a span id, the sampled flag and a trace state
  P_CTX_REMOTE,       // explicit Context holding a non-recording span that wraps a remote context (what propagators extract)
  P_CTX_EMPTY,        // explicit Context without a span
  P_CTX_ROOT,         // explicit Context without a span, marked kIsRootSpanKey
  P_CTX_CURRENT_ROOT, // the current runtime Context (holds the active span, if any) marked kIsRootSpanKey
  P_CTX_INVALID_SPAN, // explicit Context holding a span whose context is invalid
  P_CTX_ROOT_FALSE,   // explicit Context without a span whose kIsRootSpanKey is bound to FALSE (marked, then un-marked): not a root request
  P_SC_LOCAL,         // explicit SpanContext of the most recent span of the program (local, not remote); needs a span
  P_CTX_SPAN_BASE     // + i: explicit Context holding the i-th most recent span of the program
};

struct Op { int kind; int arg; };  // kind 0 Start(parent kind arg), 1 Push(span), 2 Pop, 3 End(span)

struct Exec {
  vf::Ctx &c;
  bool random_ids;
  SamplerLog slog;
  IdLog idlog;
  Sink sink;
  std::unique_ptr<sdktr::TracerProvider> provider;
  nostd::shared_ptr<tr::Tracer> tracer;
  std::vector<MSpan> spans;
  ScopeStack stack;
  std::set<std::string> seen_span_ids, seen_trace_ids;  // every id that appeared so far (generated or remote)
  int remote_no = 0;
  std::string hist, sampler_name;
  size_t checked_exports = 0;

  Exec(vf::Ctx &cc, int sampler, bool random, bool gen_is_random) : c(cc), random_ids(random) {
    std::vector<std::unique_ptr<sdktr::SpanProcessor>> procs;
    procs.emplace_back(new sdktr::SimpleSpanProcessor(std::unique_ptr<sdktr::SpanExporter>(new KeepExporter(sink))));
    static const sdkres::Resource res = sdkres::Resource::Create({{"service.name", "c05"}});
    std::unique_ptr<sdktr::Sampler> s(new RecordingSampler(make_sampler(sampler, &c, &sampler_name), slog));
    std::unique_ptr<sdktr::IdGenerator> g;
    if (random) g.reset(new sdktr::RandomIdGenerator);
    else g.reset(new TreeIdGenerator(idlog, gen_is_random));
    provider.reset(new sdktr::TracerProvider(std::move(procs), res, std::move(s), std::move(g)));
    tracer = provider->GetTracer("c05.lib", "1.0");
    hist = sampler_name + ":";
  }

  // span_of holds the index of the program's span made active by each scope, or -1 / -2 for a foreign span with a half-valid
  // context (push_foreign): those are not valid parents, the model's active context is "none"
  tr::SpanContext active_model() const { return (stack.span_of.empty() || stack.span_of.back() < 0) ? tr::SpanContext::GetInvalid() : spans[stack.span_of.back()].ctx; }

  tr::SpanContext remote(uint8_t flags, bool with_ts) {
    ++remote_no;
    tr::SpanContext sc(c05_trace_id(0xaa, remote_no), make_span_id(0xaa, remote_no), tr::TraceFlags(flags), true,
                       with_ts ? tr::TraceState::FromHeader(kRemoteTraceState) : tr::TraceState::GetDefault());
    seen_span_ids.insert(hex(sc.span_id()));
    seen_trace_ids.insert(hex(sc.trace_id()));
    return sc;
  }

  std::vector<Op> enabled() const {
    std::vector<Op> ops;
    int n = (int)spans.size();
    for (int p = P_NONE; p < P_CTX_SPAN_BASE; ++p)
      if (p != P_SC_LOCAL || n > 0) ops.push_back(Op{0, p});
    for (int i = 0; i < 3 && i < n; ++i) ops.push_back(Op{0, P_CTX_SPAN_BASE + i});
    for (int i = 0; i < 3 && i < n; ++i) ops.push_back(Op{1, n - 1 - i});
    if (!stack.scopes.empty()) ops.push_back(Op{2, 0});
    ops.push_back(Op{4, 0});
    ops.push_back(Op{4, 1});
    int e = 0;
    for (int i = n - 1; i >= 0 && e < 2; --i)
      if (!spans[i].ended) { ops.push_back(Op{3, i}); ++e; }
    return ops;
  }

  void start(int pk) {
    c.stage("StartSpan");
    tr::SpanContext active = active_model();
    // permitted parents under the statement's precedence rule (an invalid context = "no parent")
    std::vector<tr::SpanContext> permitted;
    tr::StartSpanOptions opts;
    std::string how;
    auto or_active = [&]() { permitted.push_back(active); };
    if (pk == P_NONE) { how = "active"; or_active(); }
    else if (pk >= P_SC_00 && pk <= P_SC_FF) {
      tr::SpanContext sc = remote(kRemoteFlags[pk - P_SC_00], true);
      opts.parent = sc;
      permitted.push_back(sc);
      how = vf::sfmt("SpanContext(remote,flags=%02x)", kRemoteFlags[pk - P_SC_00]);
    } else if (pk == P_SC_01_NOTS) {
      tr::SpanContext sc = remote(0x01, false);
      opts.parent = sc;
      permitted.push_back(sc);
      how = "SpanContext(remote,flags=01,no-trace-state)";
    } else if (pk == P_SC_INVALID) {
      // invalid in one of the two ways (alternating with the span number): zero trace id + a span id, or a trace id + zero span id
      opts.parent = spans.size() % 2 == 0 ? tr::SpanContext(tr::TraceId(), make_span_id(0xee, 1), tr::TraceFlags(0x01), true, tr::TraceState::FromHeader("inv=1"))
                                          : tr::SpanContext(c05_trace_id(0xee, 2), tr::SpanId(), tr::TraceFlags(0x01), true, tr::TraceState::FromHeader("inv=2"));
      seen_trace_ids.insert(hex(c05_trace_id(0xee, 2)));
      seen_span_ids.insert(hex(make_span_id(0xee, 1)));
      or_active();  // not a valid parent: the next mechanism applies
      how = "SpanContext(invalid)";
    } else if (pk == P_CTX_REMOTE) {
      tr::SpanContext sc = remote(0x01, true);
      ctxns::Context cx;
      opts.parent = cx.SetValue(tr::kSpanKey, nostd::shared_ptr<tr::Span>(new tr::DefaultSpan(sc)));
      permitted.push_back(sc);
      how = "Context(remote span)";
    } else if (pk == P_CTX_EMPTY) {
      opts.parent = ctxns::Context();
      or_active();
      how = "Context(empty)";
    } else if (pk == P_CTX_ROOT) {
      ctxns::Context cx;
      opts.parent = cx.SetValue(tr::kIsRootSpanKey, true);
      permitted.push_back(tr::SpanContext::GetInvalid());
      how = "Context(root)";
    } else if (pk == P_CTX_CURRENT_ROOT) {
      opts.parent = ctxns::RuntimeContext::GetCurrent().SetValue(tr::kIsRootSpanKey, true);
      // the statement gives both "taken from an explicit Context" and "marked as root": when the context holds a
      // valid span either reading is accepted
      permitted.push_back(tr::SpanContext::GetInvalid());
      if (active.IsValid()) permitted.push_back(active);
      how = "Context(current+root)";
    } else if (pk == P_CTX_ROOT_FALSE) {
      ctxns::Context cx;
      opts.parent = spans.size() % 2 == 0 ? cx.SetValue(tr::kIsRootSpanKey, false) : cx.SetValue(tr::kIsRootSpanKey, true).SetValue(tr::kIsRootSpanKey, false);
      or_active();  // "marked as root" means marked true: this context neither holds a span nor asks for a root
      how = "Context(root=false)";
    } else if (pk == P_SC_LOCAL) {
      opts.parent = spans.back().ctx;
      permitted.push_back(spans.back().ctx);
      how = vf::sfmt("SpanContext(of span#%zu)", spans.size() - 1);
    } else if (pk == P_CTX_INVALID_SPAN) {
      ctxns::Context cx;
      // all-zero, or half-valid (zero trace id + a span id / a trace id + zero span id), rotating with the span number
      tr::SpanContext inv = spans.size() % 3 == 0 ? tr::SpanContext::GetInvalid()
                            : spans.size() % 3 == 1 ? tr::SpanContext(tr::TraceId(), make_span_id(0xee, 3), tr::TraceFlags(0x01), true, tr::TraceState::FromHeader("inv=3"))
                                                    : tr::SpanContext(c05_trace_id(0xee, 4), tr::SpanId(), tr::TraceFlags(0x01), false, tr::TraceState::FromHeader("inv=4"));
      seen_trace_ids.insert(hex(c05_trace_id(0xee, 4)));
      seen_span_ids.insert(hex(make_span_id(0xee, 3)));
      opts.parent = cx.SetValue(tr::kSpanKey, nostd::shared_ptr<tr::Span>(new tr::DefaultSpan(inv)));
      or_active();
      how = "Context(invalid span)";
    } else {
      int i = (int)spans.size() - 1 - (pk - P_CTX_SPAN_BASE);
      ctxns::Context cx;
      opts.parent = cx.SetValue(tr::kSpanKey, spans[i].sp);
      permitted.push_back(spans[i].ctx);
      how = vf::sfmt("Context(span#%d)", i);
    }
    size_t calls0 = slog.calls.size(), sids0 = idlog.span_ids.size(), tids0 = idlog.trace_ids.size(), exp0 = sink.exported.size();
    std::string name_s = vf::sfmt("span-%zu", spans.size());
    vfq::HeapStr name(name_s);
    MSpan ms;
    // what else the sampler has to be shown: span kind, start attributes and links rotate with the span number
    // (no additional choice; the number of spans is part of the canonical state)
    std::string want_attrs, want_links;
    long long n = (long long)spans.size();
    switch (spans.size() % 4) {
      case 0: ms.sp = tracer->StartSpan(name.view(), opts); break;
      case 3: {
        // the overload that takes the attributes as a KeyValueIterable object (and forwards the options itself)
        opts.kind = tr::SpanKind::kProducer;
        std::vector<std::pair<nostd::string_view, opentelemetry::common::AttributeValue>> kv = {{"a", int64_t(n)}};
        opentelemetry::common::KeyValueIterableView<std::vector<std::pair<nostd::string_view, opentelemetry::common::AttributeValue>>> view(kv);
        ms.sp = tracer->StartSpan(name.view(), static_cast<const opentelemetry::common::KeyValueIterable &>(view), opts);
        want_attrs = vf::sfmt("a=int64:%lld;", n);
        break;
      }
      case 1:
        opts.kind = tr::SpanKind::kServer;
        ms.sp = tracer->StartSpan(name.view(), {{"a", int64_t(n)}, {"b", "text"}}, opts);
        want_attrs = vf::sfmt("a=int64:%lld;b=string:text;", n);
        break;
      default: {
        opts.kind = tr::SpanKind::kConsumer;
        tr::SpanContext target(c05_trace_id(0xcc, 7), make_span_id(0xcc, (uint32_t)n + 1), tr::TraceFlags(0x01), true, tr::TraceState::FromHeader("lk=1"));
        ms.sp = tracer->StartSpan(name.view(), {{"a", int64_t(n)}}, {{target, {{"l", true}}}}, opts);
        want_attrs = vf::sfmt("a=int64:%lld;", n);
        want_links = show(target) + "{l=bool:true;},";
      }
    }
    name.scribble();
    hist += vf::sfmt(" #%zu=Start(%s)", spans.size(), how.c_str());
    ms.how = how;
    std::string where = "span #" + std::to_string(spans.size()) + " in: " + hist + "\n   ";
    CK(ms.sp.get() != nullptr, "C05:null-span", where + "StartSpan returned null");
    tr::SpanContext got = ms.sp->GetContext();
    // --- the sampler's decision for this span
    CK(slog.calls.size() > calls0, "C05:sampler-not-consulted", where + "the sampler was not asked");
    const SamplerCall &sc = slog.calls.back();
    ms.decision = sc.decision;
    static const char *dn[3] = {"DROP", "RECORD_ONLY", "RECORD_AND_SAMPLE"};
    std::string dec = std::string(dn[(int)sc.decision]) + (sc.has_ts ? " with trace state '" + sc.ts + "'" : " without trace state");
    // --- validity and freshness
    CK(got.IsValid(), sc.decision == Decision::DROP ? "C05:dropped-span-invalid-context" : "C05:invalid-context", where + "context is not valid: " + show(got) + " (sampler: " + dec + ")");
    std::string sid = hex(got.span_id()), tid = hex(got.trace_id());
    CK(!seen_span_ids.count(sid), "C05:span-id-not-fresh", where + "span id " + sid + " was used before");
    if (!random_ids) {
      bool from_gen = false;
      for (size_t i = sids0; i < idlog.span_ids.size(); ++i) from_gen |= idlog.span_ids[i] == got.span_id();
      CK(from_gen, "C05:span-id-not-from-generator", where + "span id " + sid + " did not come from the configured IdGenerator during this call");
    }
    // --- parentage: one of the permitted parents must explain the trace id
    int matched = -1;
    for (size_t i = 0; i < permitted.size() && matched < 0; ++i) {
      if (permitted[i].IsValid()) { if (got.trace_id() == permitted[i].trace_id()) matched = (int)i; }
      else if (!seen_trace_ids.count(tid)) matched = (int)i;
    }
    if (matched < 0) {
      std::string want;
      for (auto &p : permitted) want += (p.IsValid() ? "child of " + show(p) : std::string("new root")) + "; ";
      bool is_active = active.IsValid() && got.trace_id() == active.trace_id();
      c.fail(std::string("C05:wrong-parent:") + (permitted[0].IsValid() ? (is_active ? "active-span-preferred" : "trace-id") : (is_active ? "active-span-instead-of-root" : "root-reuses-trace-id")),
             where + "context " + show(got) + "; expected: " + want + "active span: " + (active.IsValid() ? show(active) : std::string("none")));
    }
    const tr::SpanContext &parent = permitted[matched];
    if (!parent.IsValid() && !random_ids) {
      bool from_gen = false;
      for (size_t i = tids0; i < idlog.trace_ids.size(); ++i) from_gen |= idlog.trace_ids[i] == got.trace_id();
      CK(from_gen, "C05:trace-id-not-from-generator", where + "trace id " + tid + " of a new root did not come from the configured IdGenerator during this call");
    }
    ms.parent = parent.IsValid() ? parent.span_id() : tr::SpanId();
    // --- the question put to the sampler: "the sampler's decision" is its answer for THIS span, i.e. for the parent that was
    // resolved, the trace id the span got, and the name / kind / attributes / links the caller gave
    {
      std::string asked = "the sampler was asked with parent " + (sc.parent.IsValid() ? show(sc.parent) : std::string("none (invalid context)")) + ", trace id " + hex(sc.trace_id) + ", name '" + sc.name +
                          vf::sfmt("', kind %d, attributes [", (int)sc.kind) + sc.attrs + "], links [" + sc.links + "]; ";
      if (parent.IsValid())
        CK(sc.parent.IsValid() && sc.parent.trace_id() == parent.trace_id() && sc.parent.span_id() == parent.span_id() && sc.parent.trace_flags() == parent.trace_flags() &&
               sc.parent.IsRemote() == parent.IsRemote() && ts_header(sc.parent) == ts_header(parent),
           "C05:sampler-input:parent", where + asked + "the span's parent is " + show(parent));
      else
        CK(!sc.parent.IsValid(), "C05:sampler-input:parent:root-shown-a-parent", where + asked + "the span is a new root");
      CK(sc.trace_id == got.trace_id(), "C05:sampler-input:trace-id", where + asked + "the span's trace id is " + tid);
      CK(sc.name == name_s, "C05:sampler-input:name", where + asked + "the span was started as '" + name_s + "'");
      CK(sc.kind == opts.kind, "C05:sampler-input:kind", where + asked + vf::sfmt("the span was started with kind %d", (int)opts.kind));
      CK(sc.attrs == want_attrs, "C05:sampler-input:attributes", where + asked + "the span was started with attributes [" + want_attrs + "]");
      CK(sc.links == want_links, "C05:sampler-input:links", where + asked + "the span was started with links [" + want_links + "]");
    }
    // a span created here was not propagated from anywhere: its own context is not a remote one
    CK(!got.IsRemote(), "C05:new-context-marked-remote", where + "context " + show(got) + " of a locally started span claims to be remote");
    // --- flags
    uint8_t fl = got.trace_flags().flags();
    bool want_sampled = sc.decision == Decision::RECORD_AND_SAMPLE;
    if (((fl & 1) != 0) != want_sampled) {
      // report() returns (instead of ending the execution) when the signature is a listed known finding; the model
      // continues from the real context either way
      c.report(want_sampled ? "C05:sampled-flag:clear-although-sampled" : (parent.IsValid() && parent.IsSampled() ? "C05:sampled-flag:inherited-from-parent" : "C05:sampled-flag:set-although-not-sampled"),
               where + vf::sfmt("flags %02x but the sampler decided ", fl) + dec + "; parent " + (parent.IsValid() ? show(parent) : std::string("none")));
    }
    CK((fl & ~0x01) == 0, "C05:flags-outside-w3c-level-1", where + vf::sfmt("flags %02x contain bits outside W3C trace-context level 1 (only 01 is defined); parent ", fl) + (parent.IsValid() ? show(parent) : std::string("none")));
    // --- trace state: the sampler's if given, else the parent's
    std::string want_ts = sc.has_ts ? sc.ts : (parent.IsValid() ? ts_header(parent) : std::string());
    CK(ts_header(got) == want_ts, sc.has_ts ? "C05:trace-state:sampler-ignored" : (parent.IsValid() ? "C05:trace-state:parent-lost" : "C05:trace-state:root-not-empty"),
       where + "trace state '" + ts_header(got) + "', expected '" + want_ts + "' (sampler: " + dec + "; parent " + (parent.IsValid() ? show(parent) : std::string("none")) + ")");
    // --- recording
    CK(ms.sp->IsRecording() == (sc.decision != Decision::DROP), "C05:recording-vs-decision", where + vf::sfmt("IsRecording()=%d but the sampler decided ", (int)ms.sp->IsRecording()) + dec);
    CK(sink.exported.size() == exp0, "C05:export-at-start", where + "a span was exported by StartSpan");
    seen_span_ids.insert(sid);
    seen_trace_ids.insert(tid);
    ms.ctx = got;
    spans.push_back(ms);
  }

  void push(int i) {
    c.stage("WithActiveSpan");
    stack.scopes.emplace_back(new tr::Scope(tr::Tracer::WithActiveSpan(spans[i].sp)));
    stack.span_of.push_back(i);
    hist += vf::sfmt(" Push(#%d)", i);
    check_active();
  }
  // A span that is active but is not a valid parent: its context has a zero trace id and a non-zero span id (variant 0) or a
  // non-zero trace id and a zero span id (variant 1) - what a careless propagator or wrapper can leave on the stack. "Without
  // a valid parent" a span started under it is a new root with fresh ids, no parent span id and nothing inherited.
  void push_foreign(int variant) {
    c.stage("WithActiveSpan(half-valid)");
    tr::SpanContext sc = variant == 0 ? tr::SpanContext(tr::TraceId(), make_span_id(0xdd, 1), tr::TraceFlags(0x01), false, tr::TraceState::FromHeader("half=1"))
                                      : tr::SpanContext(c05_trace_id(0xdd, 2), tr::SpanId(), tr::TraceFlags(0x01), true, tr::TraceState::FromHeader("half=2"));
    seen_span_ids.insert(hex(sc.span_id()));
    seen_trace_ids.insert(hex(sc.trace_id()));
    nostd::shared_ptr<tr::Span> foreign(new tr::DefaultSpan(sc));
    stack.scopes.emplace_back(new tr::Scope(tr::Tracer::WithActiveSpan(foreign)));
    stack.span_of.push_back(-1 - variant);
    hist += variant == 0 ? " Push(foreign span: zero trace id, span id set)" : " Push(foreign span: trace id set, zero span id)";
    check_active();
  }
  void pop() {
    c.stage("ScopeExit");
    stack.scopes.pop_back();
    stack.span_of.pop_back();
    hist += " Pop";
    check_active();
  }
  void check_active() {
    tr::SpanContext real = tr::Tracer::GetCurrentSpan()->GetContext(), want = active_model();
    CK(real.IsValid() == want.IsValid() && (!want.IsValid() || (real.trace_id() == want.trace_id() && real.span_id() == want.span_id())), "C05:active-span",
       "the active span is " + show(real) + ", the scope stack says " + show(want) + " after: " + hist);
  }
  void end(int i) {
    c.stage("End");
    MSpan &m = spans[i];
    size_t exp0 = sink.exported.size();
    m.sp->End();
    m.ended = true;
    hist += vf::sfmt(" End(#%d)", i);
    std::string where = "span #" + std::to_string(i) + " (" + m.how + ") in: " + hist + "\n   ";
    tr::SpanContext now = m.sp->GetContext();
    CK(now.IsValid() && now == m.ctx && ts_header(now) == ts_header(m.ctx), "C05:context-changed-at-end", where + "GetContext() is " + show(now) + " after End, was " + show(m.ctx));
    size_t added = sink.exported.size() - exp0;
    if (m.decision == Decision::DROP) CK(added == 0, "C05:dropped-span-exported", where + "a span the sampler dropped reached the exporter");
    if (m.decision == Decision::RECORD_AND_SAMPLE) CK(added == 1, "C05:sampled-span-not-exported", where + vf::sfmt("%zu spans exported when a sampled span ended", added));
    CK(added <= 1, "C05:export-count", where + vf::sfmt("%zu spans exported by one End", added));
    if (added == 1) check_export(*sink.exported.back(), m, where);
  }
  void check_export(const sdktr::SpanData &d, const MSpan &m, const std::string &where) {
    CK(d.GetTraceId() == m.ctx.trace_id() && d.GetSpanId() == m.ctx.span_id() && d.GetSpanContext() == m.ctx, "C05:exported-identity",
       where + "exported context " + show(d.GetSpanContext()) + " differs from the span's " + show(m.ctx));
    CK(d.GetParentSpanId() == m.parent, m.parent.IsValid() ? "C05:exported-parent-id" : "C05:exported-parent-id:root-has-parent",
       where + "exported parent span id " + hex(d.GetParentSpanId()) + ", expected " + hex(m.parent));
    CK(d.GetFlags() == m.ctx.trace_flags() && d.GetSpanContext().trace_flags() == m.ctx.trace_flags(), "C05:exported-flags",
       where + vf::sfmt("exported flags %02x / %02x, the span's context has %02x", d.GetFlags().flags(), d.GetSpanContext().trace_flags().flags(), m.ctx.trace_flags().flags()));
    CK(ts_header(d.GetSpanContext()) == ts_header(m.ctx), "C05:exported-trace-state", where + "exported trace state '" + ts_header(d.GetSpanContext()) + "', the span's is '" + ts_header(m.ctx) + "'");
    checked_exports++;
  }

  // fork(): the child starts one span and reports its ids through a pipe, the parent starts one as well. "Fresh" ids also means
  // that the two processes do not continue the same pseudo-random sequence (the generator re-seeds itself in the child).
  void fork_check() {
    c.stage("fork");
    int fd[2];
    CK(pipe(fd) == 0, "C05:fork:harness", "pipe() failed");
    pid_t pid = fork();
    if (pid == 0) {
      // child: nothing but the SDK call; leaves without running destructors or engine code
      close(fd[0]);
      uint8_t buf[24] = {0};
      auto sp = tracer->StartSpan("after-fork-child");
      tr::SpanContext sc = sp->GetContext();
      memcpy(buf, sc.trace_id().Id().data(), 16);
      memcpy(buf + 16, sc.span_id().Id().data(), 8);
      ssize_t w = write(fd[1], buf, sizeof buf);
      _exit(w == (ssize_t)sizeof buf ? 0 : 3);
    }
    close(fd[1]);
    CK(pid > 0, "C05:fork:harness", "fork() failed");
    bool had_parent = active_model().IsValid();
    hist += " fork{child: Start(active)} parent:";
    start(P_NONE);  // the parent process goes on with the same tracer (all ordinary checks apply)
    uint8_t buf[24];
    size_t got_n = 0;
    while (got_n < sizeof buf) {
      ssize_t r = read(fd[0], buf + got_n, sizeof buf - got_n);
      if (r <= 0) break;
      got_n += (size_t)r;
    }
    close(fd[0]);
    int status = 0;
    waitpid(pid, &status, 0);
    CK(got_n == sizeof buf && WIFEXITED(status) && WEXITSTATUS(status) == 0, "C05:fork:child-failed", vf::sfmt("the forked child delivered %zu of 24 bytes, wait status %d", got_n, status));
    tr::TraceId ctid(nostd::span<const uint8_t, 16>(buf, 16));
    tr::SpanId csid(nostd::span<const uint8_t, 8>(buf + 16, 8));
    std::string where = "after fork() in: " + hist + "\n   ";
    const tr::SpanContext &mine = spans.back().ctx;
    CK(ctid.IsValid() && csid.IsValid(), "C05:fork:child-invalid-ids", where + "the child's span has ids " + hex(ctid) + "/" + hex(csid));
    CK(!(csid == mine.span_id()), "C05:fork:child-repeats-span-id", where + "the span started in the child and the span started in the parent both got span id " + hex(csid) + " (the generator was not re-seeded in the child)");
    CK(!seen_span_ids.count(hex(csid)) , "C05:fork:child-repeats-span-id", where + "the child's span id " + hex(csid) + " was used before the fork");
    if (had_parent) CK(ctid == mine.trace_id(), "C05:fork:child-trace-id", where + "the child's span has trace id " + hex(ctid) + ", the active span's is " + hex(mine.trace_id()));
    else CK(!seen_trace_ids.count(hex(ctid)), "C05:fork:child-repeats-trace-id", where + "the new root started in the child got trace id " + hex(ctid) + ", which this process used too (the generator was not re-seeded in the child)");
  }

  // canonical state of the real objects: every span's real context / recording flag, the scope stack, id counters.
  // Ids are renamed by first occurrence so that the real RandomIdGenerator yields replayable states.
  vf::H128 state_hash() {
    vf::H128 h;
    std::map<std::string, int> ren;
    auto id = [&](const std::string &s) { auto it = ren.find(s); if (it == ren.end()) it = ren.emplace(s, (int)ren.size()).first; return it->second; };
    h.add(spans.size());
    for (auto &m : spans) {
      tr::SpanContext x = m.sp->GetContext();
      if (random_ids) { h.add(id(hex(x.trace_id()))); h.add(id(hex(x.span_id()))); h.add(id(hex(m.parent))); }
      else { h.add_bytes(x.trace_id().Id().data(), 16); h.add_bytes(x.span_id().Id().data(), 8); h.add_bytes(m.parent.Id().data(), 8); }
      h.add(x.trace_flags().flags() | (x.IsRemote() ? 0x100 : 0) | (m.sp->IsRecording() ? 0x200 : 0) | (m.ended ? 0x400 : 0) | ((int)m.decision << 12));
      h.add_str(ts_header(x));
    }
    h.add(stack.span_of.size());
    for (int i : stack.span_of) h.add(i);
    tr::SpanContext top = tr::Tracer::GetCurrentSpan()->GetContext();
    h.add(top.IsValid());
    h.add(idlog.span_ids.size()); h.add(idlog.trace_ids.size()); h.add(remote_no);
    h.add(sink.exported.size());
    return h;
  }

  void finish() {
    c.trace("program: %s", hist.c_str());
    c.stage("unwind");
    while (!stack.scopes.empty()) pop();
    for (size_t i = 0; i < spans.size(); ++i)
      if (!spans[i].ended) end((int)i);
    c.stage("release");
    size_t exp0 = sink.exported.size();
    for (auto &m : spans) m.sp = nostd::shared_ptr<tr::Span>();
    provider->ForceFlush();
    CK(sink.exported.size() == exp0, "C05:export-after-release", "releasing ended spans exported more spans; program: " + hist);
    // every exported span is one of the program's recording spans, at most once
    std::set<std::string> ids;
    for (auto &d : sink.exported) {
      std::string sid = hex(d->GetSpanId());
      CK(ids.insert(sid).second, "C05:exported-twice", "span " + sid + " was exported twice; program: " + hist);
      bool found = false;
      for (auto &m : spans) found |= m.ctx.span_id() == d->GetSpanId() && m.decision != Decision::DROP;
      CK(found, "C05:unknown-span-exported", "exported span " + sid + " is not a recording span of the program: " + hist);
    }
    c.stage("shutdown");
    tracer = nostd::shared_ptr<tr::Tracer>();
    provider->Shutdown();
    provider.reset();
  }

  std::string outcome() {
    // shape of the result: per span (parent index or root/remote, flags, decision, trace-state kind)
    std::string o;
    for (auto &m : spans) {
      int pi = -1;
      for (size_t j = 0; j < spans.size(); ++j) if (spans[j].ctx.span_id() == m.parent) pi = (int)j;
      std::string tsx = ts_header(m.ctx);
      o += vf::sfmt("[%s%d f%02x d%d %c]", m.parent.IsValid() ? (pi >= 0 ? "p" : "remote") : "root", pi, m.ctx.trace_flags().flags(), (int)m.decision,
                    tsx.empty() ? '-' : tsx[0]);
    }
    return o;
  }
};

void setup(vf::Options &o) {
  o.split_depth = 3;
  o.deadline_s = o.thorough ? 1500 : 150;
  o.table_bits = 24;
  unsetenv("OTEL_RESOURCE_ATTRIBUTES");
  unsetenv("OTEL_SERVICE_NAME");
}

void run(vf::Ctx &c) {
  vf::clock_reset();
  vf::clock_set_autostep_ns(1000);
  // part 0: custom deterministic IdGenerator, every sampler; part 1: the real RandomIdGenerator; part 2: the real generator across fork()
  int part = c.pick("part", 3);
  int nsamplers = kBuiltinSamplers + kFixedSamplers + (c.thorough() ? 1 : 0);
  int sampler = part == 0 ? c.pick("sampler", nsamplers) : c.pick("sampler", 2) * 2;  // random ids: AlwaysOn, ParentBased(AlwaysOn)
  if (part == 2) {
    // 1..2 spans before the fork (so the thread's generator exists when the process forks - otherwise the two processes seed
    // themselves independently and whether that happens would depend on what the worker process ran earlier), the last one
    // active or not: the spans after the fork are new roots or children of the active span
    int before = 1 + c.pick("spans-before-fork", 2);
    bool active = c.pick("active-span", 2) == 1;
    Exec x(c, sampler, true, false);
    for (int i = 0; i < before; ++i) { x.start(P_NONE); c.step(); c.state(x.state_hash()); }
    if (active) { x.push(before - 1); c.step(); }
    x.fork_check();
    c.step();
    c.state(x.state_hash());
    x.finish();
    c.outcome("fork:" + x.sampler_name + x.outcome());
    c.sample(x.hist + " => " + x.outcome());
    return;
  }
  // the generator claims random trace ids (kIsRandom is set before the level-1 mask) except where thorough also tries "not random"
  bool gen_is_random = part == 0 && (c.thorough() && (sampler == 0 || sampler == 2) ? c.pick("generator-claims-random", 2) == 1 : true);
  int depth = c.thorough() ? 5 : 4;
  // thorough: depth 6 for ParentBased(AlwaysOn) and Harness(RECORD_ONLY, trace state), depth 4 where every StartSpan also picks the decision
  if (c.thorough() && part == 0 && (sampler == 2 || sampler == kBuiltinSamplers + 5)) depth = 6;
  if (sampler == kBuiltinSamplers + kFixedSamplers) depth = 4;
  Exec x(c, sampler, part >= 1, gen_is_random);
  for (int d = 0; d < depth; ++d) {
    {
      // Sound: the samplers are stateless and StartSpan/End/scopes depend on nothing but what the hash covers
      // (every span's real context and flags, the scope stack, the id counters); past exports were checked when they happened.
      vf::H128 h = x.state_hash();
      h.add(0xc05); h.add(depth - d); h.add(part); h.add(sampler); h.add(gen_is_random);
      c.prune_point(h);
    }
    std::vector<Op> ops = x.enabled();
    const Op &op = ops[c.pick("op", (int)ops.size())];
    switch (op.kind) {
      case 0: x.start(op.arg); break;
      case 1: x.push(op.arg); break;
      case 2: x.pop(); break;
      case 4: x.push_foreign(op.arg); break;
      default: x.end(op.arg);
    }
    c.step();
    c.state(x.state_hash());
  }
  x.finish();
  c.outcome(x.sampler_name + x.outcome());
  static unsigned tick = 0;
  if ((tick++ & 255) == 0) c.sample(x.hist + " => " + x.outcome());
}

}  // namespace

VF_MAIN("c05_span_identity", "C05", setup, run)
