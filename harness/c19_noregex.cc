// C19: compiles the code a build WITHOUT working std::regex (OPENTELEMETRY_HAVE_WORKING_REGEX == 0) uses,
// from the unchanged sources, under other class names, so that the harness can hold it to the same reference
// as the regex variant that this build links into the SDK:
//  * the hand-written InstrumentMetaDataValidator (sdk/src/metrics/instrument_metadata_validator.cc),
//  * view selection: view/predicate.h (PatternPredicate's #else branch) together with predicate_factory.h,
//    instrument_selector.h, meter_selector.h and view_registry.h, which are header-only and instantiate it.
// Every class whose definition depends on the macro (or uses one that does) is renamed, so that the two
// variants are different types for the linker (no ODR merge with the SDK objects).
#include <algorithm>
#include <cctype>
#include <string>

#include <opentelemetry/common/macros.h>
#include <opentelemetry/nostd/string_view.h>
#include <opentelemetry/sdk/instrumentationscope/instrumentation_scope.h>
#include <opentelemetry/sdk/metrics/instruments.h>
#include <opentelemetry/sdk/metrics/view/view.h>
#include <opentelemetry/version.h>

#undef OPENTELEMETRY_HAVE_WORKING_REGEX
#define OPENTELEMETRY_HAVE_WORKING_REGEX 0
#define InstrumentMetaDataValidator InstrumentMetaDataValidatorNoRegex
#include "src/metrics/instrument_metadata_validator.cc"  // resolved through -I<repo>/sdk
#undef InstrumentMetaDataValidator

#define Predicate PredicateNoRegex
#define PatternPredicate PatternPredicateNoRegex
#define ExactPredicate ExactPredicateNoRegex
#define MatchEverythingPattern MatchEverythingPatternNoRegex
#define MatchNothingPattern MatchNothingPatternNoRegex
#define PredicateFactory PredicateFactoryNoRegex
#define InstrumentSelector InstrumentSelectorNoRegex
#define MeterSelector MeterSelectorNoRegex
#define RegisteredView RegisteredViewNoRegex
#define ViewRegistry ViewRegistryNoRegex
#include <opentelemetry/sdk/metrics/view/view_registry.h>
#undef Predicate
#undef PatternPredicate
#undef ExactPredicate
#undef MatchEverythingPattern
#undef MatchNothingPattern
#undef PredicateFactory
#undef InstrumentSelector
#undef MeterSelector
#undef RegisteredView
#undef ViewRegistry

namespace c19 {
namespace sm = opentelemetry::sdk::metrics;
bool noregex_name(opentelemetry::nostd::string_view v) {
  static const sm::InstrumentMetaDataValidatorNoRegex val;
  return val.ValidateName(v);
}
bool noregex_unit(opentelemetry::nostd::string_view v) {
  static const sm::InstrumentMetaDataValidatorNoRegex val;
  return val.ValidateUnit(v);
}
// One view {Counter, name selector, unit selector, any meter} registered on a fresh registry: is it handed out
// for the instrument (type, name, unit) of meter ("m","1","")?
bool noregex_view_applies(int instrument_type, const std::string &name_sel, const std::string &unit_sel, const std::string &name, const std::string &unit) {
  sm::ViewRegistryNoRegex reg;
  reg.AddView(std::unique_ptr<sm::InstrumentSelectorNoRegex>(new sm::InstrumentSelectorNoRegex(sm::InstrumentType::kCounter, name_sel, unit_sel)),
              std::unique_ptr<sm::MeterSelectorNoRegex>(new sm::MeterSelectorNoRegex("", "", "")), std::unique_ptr<sm::View>(new sm::View("picked")));
  sm::InstrumentDescriptor d = {name, "d", unit, (sm::InstrumentType)instrument_type, sm::InstrumentValueType::kLong};
  auto scope = opentelemetry::sdk::instrumentationscope::InstrumentationScope::Create("m", "1", "");
  bool applied = false;
  reg.FindViews(d, *scope, [&](const sm::View &v) { applied |= v.GetName() == "picked"; return true; });
  return applied;
}
}  // namespace c19
