// C19: compiles the hand-written (OPENTELEMETRY_HAVE_WORKING_REGEX == 0) variant of
// InstrumentMetaDataValidator from the unchanged source file under another class name, so that the
// harness can compare it with the regex variant that this build links into the SDK.
#include <algorithm>
#include <cctype>
#include <string>

#include <opentelemetry/common/macros.h>
#include <opentelemetry/nostd/string_view.h>
#include <opentelemetry/version.h>

#undef OPENTELEMETRY_HAVE_WORKING_REGEX
#define OPENTELEMETRY_HAVE_WORKING_REGEX 0
#define InstrumentMetaDataValidator InstrumentMetaDataValidatorNoRegex
#include "src/metrics/instrument_metadata_validator.cc"  // resolved through -I<repo>/sdk
#undef InstrumentMetaDataValidator

namespace c19 {
bool noregex_name(opentelemetry::nostd::string_view v) {
  static const opentelemetry::sdk::metrics::InstrumentMetaDataValidatorNoRegex val;
  return val.ValidateName(v);
}
bool noregex_unit(opentelemetry::nostd::string_view v) {
  static const opentelemetry::sdk::metrics::InstrumentMetaDataValidatorNoRegex val;
  return val.ValidateUnit(v);
}
}  // namespace c19
