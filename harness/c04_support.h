// Shared pieces of the C04 / C05 harnesses (Engine B): caller-storage arena (scribble / free),
// attribute value alphabet, exporters and processors that keep the real SpanData they receive,
// canonical rendering of a SpanData.
#pragma once
#include <algorithm>
#include <chrono>
#include <map>
#include <memory>
#include <string>
#include <vector>

#include <opentelemetry/common/key_value_iterable.h>
#include <opentelemetry/sdk/common/attribute_utils.h>
#include <opentelemetry/sdk/trace/exporter.h>
#include <opentelemetry/sdk/trace/id_generator.h>
#include <opentelemetry/sdk/trace/processor.h>
#include <opentelemetry/sdk/trace/span_data.h>
#include <opentelemetry/trace/span_context.h>
#include <opentelemetry/trace/span_context_kv_iterable.h>
#include <opentelemetry/trace/trace_state.h>

#include "seq/vf_seq.h"

namespace c04 {
namespace ot = opentelemetry;
namespace nostd = ot::nostd;
namespace tr = ot::trace;
namespace sdktr = ot::sdk::trace;
using ot::common::AttributeValue;
using Owned = ot::sdk::common::OwnedAttributeValue;
using AttrMap = std::map<std::string, Owned>;
using KVList = std::vector<std::pair<std::string, int>>;  // key, index into values()

// ---- value alphabet ---------------------------------------------------------------------------
struct ValSpec {
  std::string name;  // short stable name (part of signatures)
  Owned v;           // what the SDK has to hold after the call
  bool cstr;         // strings: hand over as `const char *` instead of string_view
};

inline const std::vector<ValSpec> &values() {
  static const std::vector<ValSpec> t = [] {
    std::vector<ValSpec> v;
    auto add = [&](const char *n, Owned o, bool cs = false) { v.push_back(ValSpec{n, std::move(o), cs}); };
    // one representative per AttributeValue alternative
    add("bool", Owned(true));                                                          // 0
    add("int32", Owned(int32_t(-7)));                                                  // 1
    add("int64", Owned(int64_t(1) << 40));                                             // 2
    add("uint32", Owned(uint32_t(4000000000u)));                                       // 3
    add("double", Owned(2.5));                                                         // 4
    add("cstring", Owned(std::string("c-string")), true);                              // 5
    add("string", Owned(std::string("hello")));                                        // 6
    add("bool[]", Owned(std::vector<bool>{true, false, true}));                        // 7
    add("int32[]", Owned(std::vector<int32_t>{1, -2, 3}));                             // 8
    add("int64[]", Owned(std::vector<int64_t>{int64_t(1) << 40, -5}));                 // 9
    add("uint32[]", Owned(std::vector<uint32_t>{1u, 4000000000u}));                    // 10
    add("double[]", Owned(std::vector<double>{0.5, -1.25}));                           // 11
    add("string[]", Owned(std::vector<std::string>{"a", "bb"}));                       // 12
    add("uint64", Owned(uint64_t(1) << 63));                                           // 13
    add("uint64[]", Owned(std::vector<uint64_t>{uint64_t(1) << 63, 2}));               // 14
    add("bytes", Owned(std::vector<uint8_t>{0, 255, 7}));                              // 15
    // shapes named by the property
    add("string:empty", Owned(std::string()));                                         // 16
    add("cstring:empty", Owned(std::string()), true);                                  // 17
    add("string:nul", Owned(std::string("a\0b", 3)));                                  // 18
    add("int32[]:empty", Owned(std::vector<int32_t>{}));                               // 19
    add("string[]:empty", Owned(std::vector<std::string>{}));                          // 20
    add("bool[]:empty", Owned(std::vector<bool>{}));                                   // 21
    {
      std::vector<int64_t> big;
      for (int i = 0; i < 1000; ++i) big.push_back(int64_t(i) * 1000003 - 500);
      add("int64[]:1000", Owned(big));                                                 // 22
      std::vector<std::string> sb;
      for (int i = 0; i < 1000; ++i) sb.push_back(vf::sfmt("s%d", i * 7));
      add("string[]:1000", Owned(sb));                                                 // 23
    }
    add("string[]:odd", Owned(std::vector<std::string>{"", std::string("x\0y", 3), "z"}));  // 24
    add("int64:zero", Owned(int64_t(0)));                                              // 25
    return v;
  }();
  return t;
}
// reduced alphabet used where the whole operation alphabet is crossed at every position
inline const std::vector<int> &reduced_values() {
  static const std::vector<int> r = {1, 6, 16, 7, 24, 4};
  return r;
}

struct ShowV {
  std::string operator()(bool v) const { return v ? "bool:true" : "bool:false"; }
  std::string operator()(int32_t v) const { return vf::sfmt("int32:%d", v); }
  std::string operator()(uint32_t v) const { return vf::sfmt("uint32:%u", v); }
  std::string operator()(int64_t v) const { return vf::sfmt("int64:%lld", (long long)v); }
  std::string operator()(uint64_t v) const { return vf::sfmt("uint64:%llu", (unsigned long long)v); }
  std::string operator()(double v) const { return vf::sfmt("double:%.17g", v); }
  std::string operator()(const std::string &v) const { return "string:'" + vfq::printable(v, 40) + "'"; }
  static std::string list(const char *t, size_t n, const std::string &body) { return vf::sfmt("%s[%zu]{", t, n) + body + "}"; }
  template <class T> std::string num(const char *t, const std::vector<T> &v) const {
    std::string b;
    vf::H128 h;
    for (size_t i = 0; i < v.size(); ++i) {
      if (i < 6) b += (i ? "," : "") + vf::sfmt("%.17g", (double)v[i]);
      h.add((uint64_t)(int64_t)v[i]);
    }
    if (v.size() > 6) b += vf::sfmt(",..#%016llx", (unsigned long long)h.a);
    return list(t, v.size(), b);
  }
  std::string operator()(const std::vector<bool> &v) const { return num("bool", std::vector<int>(v.begin(), v.end())); }
  std::string operator()(const std::vector<int32_t> &v) const { return num("int32", v); }
  std::string operator()(const std::vector<uint32_t> &v) const { return num("uint32", v); }
  std::string operator()(const std::vector<int64_t> &v) const { return num("int64", v); }
  std::string operator()(const std::vector<uint64_t> &v) const { return num("uint64", v); }
  std::string operator()(const std::vector<uint8_t> &v) const { return num("uint8", v); }
  std::string operator()(const std::vector<double> &v) const {
    std::string b;
    for (size_t i = 0; i < v.size() && i < 6; ++i) b += (i ? "," : "") + vf::sfmt("%.17g", v[i]);
    return list("double", v.size(), b);
  }
  std::string operator()(const std::vector<std::string> &v) const {
    std::string b;
    vf::H128 h;
    for (size_t i = 0; i < v.size(); ++i) {
      if (i < 4) b += (i ? ",'" : "'") + vfq::printable(v[i], 16) + "'";
      h.add_str(v[i]);
    }
    if (v.size() > 4) b += vf::sfmt(",..#%016llx", (unsigned long long)h.a);
    return list("string", v.size(), b);
  }
};
inline std::string show(const Owned &o) { return nostd::visit(ShowV{}, o); }
inline bool same(const Owned &a, const Owned &b) { return a.index() == b.index() && a == b; }

// ---- caller storage ---------------------------------------------------------------------------
struct HeapKVI;
struct HeapLinks;
using PairVec = std::vector<std::pair<nostd::string_view, AttributeValue>>;
using LinkVec = std::vector<std::pair<tr::SpanContext, PairVec>>;

// Everything the harness hands to one API call lives in exact-size heap blocks owned by an Arena.
// done() is called as soon as the call returns: every block is overwritten with a different valid
// value of the same size (pass "scribble") and, in pass "free", released as well.
class Arena {
  enum K : uint8_t { CHARS, CSTR, BOOLS, PODS, VIEWS, ATTRVAL, KVI, LINKS, PAIRVEC, LINKVEC, SPANCTX };
  struct Blk { void *p; size_t n; K k; };
  std::vector<Blk> blks_;
  void *raw(size_t bytes, size_t n, K k) {
    void *p = malloc(bytes ? bytes : 1);
    blks_.push_back(Blk{p, n, k});
    return p;
  }
  void release();

 public:
  Arena() {}
  Arena(const Arena &) = delete;
  ~Arena() { release(); }
  nostd::string_view str(const std::string &s) {
    char *p = static_cast<char *>(raw(s.size(), s.size(), CHARS));
    memcpy(p, s.data(), s.size());
    return nostd::string_view(p, s.size());
  }
  const char *cstr(const std::string &s) {
    char *p = static_cast<char *>(raw(s.size() + 1, s.size(), CSTR));
    memcpy(p, s.c_str(), s.size() + 1);
    return p;
  }
  template <class T, class V> nostd::span<const T> arr(const V &v, bool is_bool = false) {
    T *p = static_cast<T *>(raw(v.size() * sizeof(T), v.size() * sizeof(T), is_bool ? BOOLS : PODS));
    size_t i = 0;
    for (auto &&e : v) p[i++] = e;
    return nostd::span<const T>(p, v.size());
  }
  nostd::span<const nostd::string_view> strarr(const std::vector<std::string> &v) {
    auto *p = static_cast<nostd::string_view *>(raw(v.size() * sizeof(nostd::string_view), v.size(), VIEWS));
    for (size_t i = 0; i < v.size(); ++i) new (&p[i]) nostd::string_view(str(v[i]));
    return nostd::span<const nostd::string_view>(p, v.size());
  }
  AttributeValue build(const ValSpec &s) {
    switch (s.v.index()) {
      case 0: return AttributeValue(nostd::get<bool>(s.v));
      case 1: return AttributeValue(nostd::get<int32_t>(s.v));
      case 2: return AttributeValue(nostd::get<uint32_t>(s.v));
      case 3: return AttributeValue(nostd::get<int64_t>(s.v));
      case 4: return AttributeValue(nostd::get<double>(s.v));
      case 5: return s.cstr ? AttributeValue(cstr(nostd::get<std::string>(s.v))) : AttributeValue(str(nostd::get<std::string>(s.v)));
      case 6: return AttributeValue(arr<bool>(nostd::get<std::vector<bool>>(s.v), true));
      case 7: return AttributeValue(arr<int32_t>(nostd::get<std::vector<int32_t>>(s.v)));
      case 8: return AttributeValue(arr<uint32_t>(nostd::get<std::vector<uint32_t>>(s.v)));
      case 9: return AttributeValue(arr<int64_t>(nostd::get<std::vector<int64_t>>(s.v)));
      case 10: return AttributeValue(arr<double>(nostd::get<std::vector<double>>(s.v)));
      case 11: return AttributeValue(strarr(nostd::get<std::vector<std::string>>(s.v)));
      case 12: return AttributeValue(nostd::get<uint64_t>(s.v));
      case 13: return AttributeValue(arr<uint64_t>(nostd::get<std::vector<uint64_t>>(s.v)));
      default: return AttributeValue(arr<uint8_t>(nostd::get<std::vector<uint8_t>>(s.v)));
    }
  }
  // the AttributeValue object itself is caller storage too (it is passed by reference)
  const AttributeValue &val(const ValSpec &s) {
    AttributeValue *p = new AttributeValue(build(s));
    blks_.push_back(Blk{p, 0, ATTRVAL});
    return *p;
  }
  const AttributeValue &val(int vi) { return val(values()[vi]); }
  // a SpanContext that is handed over by reference (Span::AddLink) is caller storage as well
  const tr::SpanContext &ctx(const tr::SpanContext &sc) {
    tr::SpanContext *p = new tr::SpanContext(sc);
    blks_.push_back(Blk{p, 0, SPANCTX});
    return *p;
  }
  HeapKVI &kvi(const KVList &l);
  PairVec &pairs(const KVList &l);
  HeapLinks &links(const std::vector<std::pair<tr::SpanContext, KVList>> &l);
  LinkVec &linkvec(const std::vector<std::pair<tr::SpanContext, KVList>> &l);
  void done(bool do_free);
};

// KeyValueIterable over arena storage; duplicate keys are delivered in list order
struct HeapKVI final : ot::common::KeyValueIterable {
  std::vector<std::pair<nostd::string_view, const AttributeValue *>> items;
  bool ForEachKeyValue(nostd::function_ref<bool(nostd::string_view, AttributeValue)> cb) const noexcept override {
    for (auto &it : items)
      if (!cb(it.first, *it.second)) return false;
    return true;
  }
  size_t size() const noexcept override { return items.size(); }
};
struct HeapLinks final : tr::SpanContextKeyValueIterable {
  std::vector<std::pair<tr::SpanContext, const HeapKVI *>> items;
  bool ForEachKeyValue(nostd::function_ref<bool(tr::SpanContext, const ot::common::KeyValueIterable &)> cb) const noexcept override {
    for (auto &it : items)
      if (!cb(it.first, *it.second)) return false;
    return true;
  }
  size_t size() const noexcept override { return items.size(); }
};

inline const AttributeValue &garbage_value() {
  static const AttributeValue g(int32_t(0x5c5c5c5c));
  return g;
}
inline HeapKVI &Arena::kvi(const KVList &l) {
  HeapKVI *k = new HeapKVI;
  for (auto &e : l) k->items.emplace_back(str(e.first), &val(e.second));
  blks_.push_back(Blk{k, 0, KVI});
  return *k;
}
inline PairVec &Arena::pairs(const KVList &l) {
  PairVec *v = new PairVec;
  for (auto &e : l) v->emplace_back(str(e.first), build(values()[e.second]));
  v->shrink_to_fit();
  blks_.push_back(Blk{v, 0, PAIRVEC});
  return *v;
}
inline HeapLinks &Arena::links(const std::vector<std::pair<tr::SpanContext, KVList>> &l) {
  HeapLinks *h = new HeapLinks;
  for (auto &e : l) h->items.emplace_back(e.first, &kvi(e.second));
  blks_.push_back(Blk{h, 0, LINKS});
  return *h;
}
inline LinkVec &Arena::linkvec(const std::vector<std::pair<tr::SpanContext, KVList>> &l) {
  LinkVec *h = new LinkVec;
  for (auto &e : l) {
    PairVec pv;
    for (auto &kv : e.second) pv.emplace_back(str(kv.first), build(values()[kv.second]));
    h->emplace_back(e.first, std::move(pv));
  }
  blks_.push_back(Blk{h, 0, LINKVEC});
  return *h;
}
inline void Arena::done(bool do_free) {
  static const char kScr[] = "SCRIBBLED-KEY";
  for (auto &b : blks_) {
    switch (b.k) {
      case CHARS: memset(b.p, '#', b.n); break;
      case CSTR: memset(b.p, '#', b.n); break;  // the terminating NUL stays
      case BOOLS: { bool *p = static_cast<bool *>(b.p); for (size_t i = 0; i < b.n; ++i) p[i] = !p[i]; break; }
      case PODS: { unsigned char *p = static_cast<unsigned char *>(b.p); for (size_t i = 0; i < b.n; ++i) p[i] ^= 0x5a; break; }
      case VIEWS: { auto *p = static_cast<nostd::string_view *>(b.p); for (size_t i = 0; i < b.n; ++i) p[i] = nostd::string_view(kScr); break; }
      case ATTRVAL: { auto *p = static_cast<AttributeValue *>(b.p); *p = p->index() == 1 ? AttributeValue(int64_t(0x5c5c5c5c5cll)) : garbage_value(); break; }
      case KVI: { auto *p = static_cast<HeapKVI *>(b.p); p->items.assign(1, {nostd::string_view(kScr), &garbage_value()}); break; }
      case LINKS: { auto *p = static_cast<HeapLinks *>(b.p); p->items.clear(); break; }
      case PAIRVEC: { auto *p = static_cast<PairVec *>(b.p); for (auto &e : *p) e = {nostd::string_view(kScr), garbage_value()}; break; }
      case LINKVEC: { auto *p = static_cast<LinkVec *>(b.p); for (auto &l : *p) for (auto &e : l.second) e = {nostd::string_view(kScr), garbage_value()}; break; }
      case SPANCTX: {
        static const uint8_t kT[16] = {0x5c, 0x5c, 0x5c, 0x5c, 0x5c, 0x5c, 0x5c, 0x5c, 0x5c, 0x5c, 0x5c, 0x5c, 0x5c, 0x5c, 0x5c, 0x5c};
        *static_cast<tr::SpanContext *>(b.p) = tr::SpanContext(tr::TraceId(kT), tr::SpanId(nostd::span<const uint8_t, 8>(kT, 8)), tr::TraceFlags(0x5c), true, tr::TraceState::FromHeader("scribbled=1"));
        break;
      }
    }
  }
  if (do_free) release();
}
inline void Arena::release() {
  for (auto &b : blks_) {
    switch (b.k) {
      case ATTRVAL: delete static_cast<AttributeValue *>(b.p); break;
      case KVI: delete static_cast<HeapKVI *>(b.p); break;
      case LINKS: delete static_cast<HeapLinks *>(b.p); break;
      case PAIRVEC: delete static_cast<PairVec *>(b.p); break;
      case LINKVEC: delete static_cast<LinkVec *>(b.p); break;
      case SPANCTX: delete static_cast<tr::SpanContext *>(b.p); break;
      default: free(b.p);
    }
  }
  blks_.clear();
}

// ---- exporter / processors that keep what they get -----------------------------------------------
struct Sink {
  std::vector<std::unique_ptr<sdktr::SpanData>> exported;  // in export order
  std::vector<sdktr::SpanData *> made;                     // every recordable handed out
  int export_calls = 0, on_end = 0, on_start = 0, on_start_foreign = 0, null_recordables = 0, empty_batches = 0, shutdowns = 0;
  bool deferred = false;
  bool late = false;  // attached to the provider while the span under test was already running
};

class KeepExporter final : public sdktr::SpanExporter {
  Sink &s_;

 public:
  explicit KeepExporter(Sink &s) : s_(s) {}
  std::unique_ptr<sdktr::Recordable> MakeRecordable() noexcept override {
    auto *p = new sdktr::SpanData;
    s_.made.push_back(p);
    return std::unique_ptr<sdktr::Recordable>(p);
  }
  ot::sdk::common::ExportResult Export(const nostd::span<std::unique_ptr<sdktr::Recordable>> &batch) noexcept override {
    s_.export_calls++;
    if (batch.empty()) s_.empty_batches++;
    for (auto &r : batch) {
      if (!r) { s_.null_recordables++; continue; }
      s_.exported.emplace_back(static_cast<sdktr::SpanData *>(r.release()));
    }
    return ot::sdk::common::ExportResult::kSuccess;
  }
  bool ForceFlush(std::chrono::microseconds) noexcept override { return true; }
  bool Shutdown(std::chrono::microseconds) noexcept override { s_.shutdowns++; return true; }
};

// Deterministic stand-in for a batching processor: ended recordables are queued and handed to the
// exporter only by ForceFlush / Shutdown, i.e. long after the caller's buffers are gone.
class DeferredProcessor final : public sdktr::SpanProcessor {
  Sink &s_;
  std::unique_ptr<sdktr::SpanExporter> exp_;
  std::vector<std::unique_ptr<sdktr::Recordable>> q_;

 public:
  DeferredProcessor(Sink &s, std::unique_ptr<sdktr::SpanExporter> e) : s_(s), exp_(std::move(e)) { s_.deferred = true; }
  std::unique_ptr<sdktr::Recordable> MakeRecordable() noexcept override { return exp_->MakeRecordable(); }
  void OnStart(sdktr::Recordable &r, const tr::SpanContext &) noexcept override {
    s_.on_start++;
    // the start notification must come with the recordable this processor made for the span
    bool mine = false;
    for (sdktr::SpanData *d : s_.made) mine |= static_cast<sdktr::Recordable *>(d) == &r;
    if (!mine) s_.on_start_foreign++;
  }
  void OnEnd(std::unique_ptr<sdktr::Recordable> &&span) noexcept override {
    s_.on_end++;
    q_.push_back(std::move(span));
  }
  bool ForceFlush(std::chrono::microseconds) noexcept override {
    if (!q_.empty()) {
      exp_->Export(nostd::span<std::unique_ptr<sdktr::Recordable>>(q_.data(), q_.size()));
      q_.clear();
    }
    return true;
  }
  bool Shutdown(std::chrono::microseconds t) noexcept override {
    ForceFlush(t);
    return exp_->Shutdown(t);
  }
  size_t queued() const { return q_.size(); }
};

// ---- rendering ------------------------------------------------------------------------------------
inline std::string hex(const uint8_t *p, size_t n) {
  static const char d[] = "0123456789abcdef";
  std::string s;
  for (size_t i = 0; i < n; ++i) { s += d[p[i] >> 4]; s += d[p[i] & 15]; }
  return s;
}
inline std::string hex(const tr::TraceId &t) { return hex(t.Id().data(), 16); }
inline std::string hex(const tr::SpanId &t) { return hex(t.Id().data(), 8); }
inline std::string ts_header(const tr::SpanContext &sc) { return sc.trace_state() ? sc.trace_state()->ToHeader() : std::string("<null>"); }
inline std::string show(const tr::SpanContext &sc) {
  return hex(sc.trace_id()) + "/" + hex(sc.span_id()) + vf::sfmt("/%02x/%s/", sc.trace_flags().flags(), sc.IsRemote() ? "remote" : "local") + ts_header(sc);
}
template <class M> std::string show_attrs(const M &m) {
  std::map<std::string, std::string> sorted;
  for (auto &kv : m) sorted[kv.first] = show(kv.second);
  std::string s = "{";
  for (auto &kv : sorted) s += "'" + vfq::printable(kv.first, 24) + "'=" + kv.second + ";";
  return s + "}";
}
// complete rendering of a SpanData (the real object); `with_times` off for time-independent outcomes
inline std::string canon(const sdktr::SpanData &d, bool with_times = true) {
  std::string s = "name='" + vfq::printable(std::string(d.GetName().data(), d.GetName().size()), 40) + vf::sfmt("' kind=%d", (int)d.GetSpanKind());
  if (with_times) s += vf::sfmt(" start=%lld dur=%lld", (long long)d.GetStartTime().time_since_epoch().count(), (long long)d.GetDuration().count());
  s += vf::sfmt(" status=%d:'", (int)d.GetStatus()) + vfq::printable(std::string(d.GetDescription().data(), d.GetDescription().size()), 24) + "'";
  s += " ctx=" + show(d.GetSpanContext()) + " parent=" + hex(d.GetParentSpanId()) + vf::sfmt(" flags=%02x", d.GetFlags().flags());
  s += " attrs=" + show_attrs(d.GetAttributes()) + " events=[";
  for (auto &e : d.GetEvents()) {
    s += "'" + vfq::printable(e.GetName(), 24) + "'";
    if (with_times) s += vf::sfmt("@%lld", (long long)e.GetTimestamp().time_since_epoch().count());
    s += show_attrs(e.GetAttributes()) + ",";
  }
  s += "] links=[";
  for (auto &l : d.GetLinks()) s += show(l.GetSpanContext()) + show_attrs(l.GetAttributes()) + ",";
  return s + "]";
}

// fast digest of the complete content of a SpanData (used for states, copy comparison, outcomes);
// attributes are fed in key order so that the digest does not depend on hash-table history
struct FeedV {
  vf::H128 &h;
  void operator()(bool v) const { h.add(v); }
  void operator()(int32_t v) const { h.add((uint64_t)(int64_t)v); }
  void operator()(uint32_t v) const { h.add(v); }
  void operator()(int64_t v) const { h.add((uint64_t)v); }
  void operator()(uint64_t v) const { h.add(v); }
  void operator()(double v) const { uint64_t u; memcpy(&u, &v, 8); h.add(u); }
  void operator()(const std::string &v) const { h.add_str(v); }
  void operator()(const std::vector<bool> &v) const { h.add(v.size()); for (bool b : v) h.add(b); }
  void operator()(const std::vector<std::string> &v) const { h.add(v.size()); for (auto &e : v) h.add_str(e); }
  void operator()(const std::vector<double> &v) const { h.add_bytes(v.data(), v.size() * 8); }
  template <class T> void operator()(const std::vector<T> &v) const { h.add_bytes(v.data(), v.size() * sizeof(T)); }
};
template <class M> void feed_attrs(vf::H128 &h, const M &m) {
  std::vector<const typename M::value_type *> v;
  v.reserve(m.size());
  for (auto &kv : m) v.push_back(&kv);
  std::sort(v.begin(), v.end(), [](const typename M::value_type *a, const typename M::value_type *b) { return a->first < b->first; });
  h.add(v.size());
  for (auto *kv : v) { h.add_str(kv->first); h.add(kv->second.index()); nostd::visit(FeedV{h}, kv->second); }
}
inline void feed_ctx(vf::H128 &h, const tr::SpanContext &sc) {
  h.add_bytes(sc.trace_id().Id().data(), 16);
  h.add_bytes(sc.span_id().Id().data(), 8);
  h.add(sc.trace_flags().flags() | (sc.IsRemote() ? 0x100 : 0));
  h.add_str(ts_header(sc));
}
inline vf::H128 digest(const sdktr::SpanData &d, bool with_times = true) {
  vf::H128 h;
  h.add_bytes(d.GetName().data(), d.GetName().size());
  h.add((uint64_t)d.GetSpanKind());
  if (with_times) { h.add((uint64_t)d.GetStartTime().time_since_epoch().count()); h.add((uint64_t)d.GetDuration().count()); }
  h.add((uint64_t)d.GetStatus());
  h.add_bytes(d.GetDescription().data(), d.GetDescription().size());
  feed_ctx(h, d.GetSpanContext());
  h.add_bytes(d.GetParentSpanId().Id().data(), 8);
  h.add(d.GetFlags().flags());
  feed_attrs(h, d.GetAttributes());
  h.add(d.GetEvents().size());
  for (auto &e : d.GetEvents()) {
    h.add_str(e.GetName());
    if (with_times) h.add((uint64_t)e.GetTimestamp().time_since_epoch().count());
    feed_attrs(h, e.GetAttributes());
  }
  h.add(d.GetLinks().size());
  for (auto &l : d.GetLinks()) { feed_ctx(h, l.GetSpanContext()); feed_attrs(h, l.GetAttributes()); }
  return h;
}
inline bool operator==(const vf::H128 &a, const vf::H128 &b) { return a.a == b.a && a.b == b.b; }

inline tr::TraceId make_trace_id(uint8_t tag, uint32_t n) {
  uint8_t b[16] = {0};
  b[0] = tag; b[12] = uint8_t(n >> 24); b[13] = uint8_t(n >> 16); b[14] = uint8_t(n >> 8); b[15] = uint8_t(n);
  return tr::TraceId(b);
}
inline tr::SpanId make_span_id(uint8_t tag, uint32_t n) {
  uint8_t b[8] = {0};
  b[0] = tag; b[4] = uint8_t(n >> 24); b[5] = uint8_t(n >> 16); b[6] = uint8_t(n >> 8); b[7] = uint8_t(n);
  return tr::SpanId(b);
}

// Deterministic custom id generator: ids are (tag, running number); every id handed out is logged.
class CounterIdGenerator final : public sdktr::IdGenerator {
 public:
  struct Log { std::vector<tr::SpanId> span_ids; std::vector<tr::TraceId> trace_ids; };
  CounterIdGenerator(Log &log, bool is_random) : sdktr::IdGenerator(is_random), log_(log) {}
  tr::SpanId GenerateSpanId() noexcept override {
    log_.span_ids.push_back(make_span_id(0x5a, (uint32_t)log_.span_ids.size() + 1));
    return log_.span_ids.back();
  }
  tr::TraceId GenerateTraceId() noexcept override {
    log_.trace_ids.push_back(make_trace_id(0x7a, (uint32_t)log_.trace_ids.size() + 1));
    return log_.trace_ids.back();
  }

 private:
  Log &log_;
};

inline int64_t sys_now_ns() { return std::chrono::duration_cast<std::chrono::nanoseconds>(std::chrono::system_clock::now().time_since_epoch()).count(); }
inline int64_t steady_now_ns() { return std::chrono::duration_cast<std::chrono::nanoseconds>(std::chrono::steady_clock::now().time_since_epoch()).count(); }

}  // namespace c04
