// C07: histogram points are exact summaries of the recorded values; merging intervals is lossless
// (Engine B).  Two seams, selected with --seam=:
//   agg   : Long/DoubleHistogramAggregation directly - every multiset of values over a per-boundary-list
//           alphabet, every assignment of its elements to three parts; every part's point, the merge of
//           the parts in three association orders and the single histogram of all values are compared
//           with a reference histogram computed by definition.
//   meter : MeterProvider + View (explicit boundaries, record_min_max) + 1-2 pull readers (delta /
//           cumulative); the multiset is split over three collection cycles, every reader schedule;
//           every collected point is compared with the reference histogram of the values the reader
//           is due (delta: since its previous collection, cumulative: since start).
#include <cfloat>
#include <cmath>
#include <limits>
#include <map>
#include <set>

#include <opentelemetry/context/context.h>
#include <opentelemetry/metrics/meter.h>
#include <opentelemetry/metrics/sync_instruments.h>
#include <opentelemetry/sdk/common/global_log_handler.h>
#include <opentelemetry/sdk/metrics/aggregation/aggregation_config.h>
#include <opentelemetry/sdk/metrics/aggregation/histogram_aggregation.h>
#include <opentelemetry/sdk/metrics/data/metric_data.h>
#include <opentelemetry/sdk/metrics/data/point_data.h>
#include <opentelemetry/sdk/metrics/export/metric_producer.h>
#include <opentelemetry/sdk/metrics/meter_provider.h>
#include <opentelemetry/sdk/metrics/metric_reader.h>
#include <opentelemetry/sdk/metrics/view/instrument_selector.h>
#include <opentelemetry/sdk/metrics/view/meter_selector.h>
#include <opentelemetry/sdk/metrics/view/view.h>

#include "seq/vf_seq.h"
#include "vf_clock.h"

namespace nostd = opentelemetry::nostd;
namespace sm = opentelemetry::sdk::metrics;
using sm::HistogramPointData;

// signature and message are only built when the condition fails (string building dominates otherwise)
#define CHECK(ctx, cond, sig, msg) do { if (!(cond)) (ctx).fail((sig), (msg)); } while (0)

namespace {

// ---------------------------------------------------------------------------------------------
// configurations: boundary lists and value alphabets
// ---------------------------------------------------------------------------------------------
struct BCfg {
  std::string name;
  bool is_default = false;       // the SDK's default 15 boundaries
  bool int_only = false;         // list exists for integers that are not exact doubles: integer instrument only
  std::vector<double> b;         // boundaries
  std::vector<double> dfull, dcore, dmid;   // double value alphabets
  std::vector<int64_t> ifull, icore, imid;  // integer value alphabets
};
std::vector<BCfg> g_cfgs;
std::string g_seam = "agg";
int g_nmax = 3, g_fulln = 2, g_viewn = 2;
std::string g_alphabet = "full";

const double kDenorm = std::numeric_limits<double>::denorm_min();
const double kDblMin = std::numeric_limits<double>::min();  // smallest positive normal
double below(double b) { return std::nextafter(b, -INFINITY); }
double above(double b) { return std::nextafter(b, INFINITY); }

template <class T> void sort_unique(std::vector<T> &v) {
  std::sort(v.begin(), v.end());
  v.erase(std::unique(v.begin(), v.end()), v.end());
}
void add_around(std::vector<double> &out, double b) {
  out.push_back(b);
  if (b > 0) out.push_back(below(b));
  out.push_back(above(b));
}
const double kTwo53 = 9007199254740992.0, kTwo63 = 9223372036854775808.0;
void add_around_int(std::vector<int64_t> &out, double b) {
  if (b >= kTwo63) return;  // every int64 lies below such a boundary
  double f = std::floor(b), c = std::ceil(b);
  if (f == c) {
    int64_t i = (int64_t)b;
    out.push_back(i);
    if (i > 0) out.push_back(i - 1);
    out.push_back(i + 1);
    // from 2^53 on i+1 is not a double any more: add the next integer that is one, too
    if (b >= kTwo53 && above(b) < kTwo63) out.push_back((int64_t)above(b));
  } else {
    out.push_back((int64_t)f);
    out.push_back((int64_t)c);
  }
}

void build_cfgs() {
  const double p52 = 4503599627370496.0;  // 2^52
  std::vector<std::pair<std::string, std::vector<double>>> lists = {
      {"[]", {}},
      {"[0]", {0}},
      {"[1]", {1}},
      {"[0,1]", {0, 1}},
      {"[0.5,1.5]", {0.5, 1.5}},
      {"[0,5,10]", {0, 5, 10}},
      {"default15", {0.0, 5.0, 10.0, 25.0, 50.0, 75.0, 100.0, 250.0, 500.0, 750.0, 1000.0, 2500.0, 5000.0, 7500.0, 10000.0}},
      {"[2^52]", {p52}},
      {"[1e300]", {1e300}},
      {"[DBL_MIN]", {kDblMin}},
      {"[1,1]", {1, 1}},                          // duplicate boundary: the bucket between the two is empty by definition
      {"[2^53]", {kTwo53}},                       // int64 only: 2^53+1 is the first integer that is not a double
      {"[2^62]", {4611686018427387904.0}},        // int64 only: doubles are 1024 apart here
  };
  for (auto &l : lists) {
    BCfg c;
    c.name = l.first;
    c.b = l.second;
    c.is_default = (l.first == "default15");
    c.int_only = (l.first == "[2^53]" || l.first == "[2^62]");
    // full alphabets: the common values plus everything around every boundary
    c.dfull = {0.0, kDenorm, kDblMin, 1.0, 1e300};
    c.ifull = {0, 1, (int64_t)1 << 53};
    for (double b : c.b) { add_around(c.dfull, b); add_around_int(c.ifull, b); }
    // core alphabets (<= 8 values): the extremes plus the neighbourhood of the first and the last boundary
    c.dcore = {0.0, kDenorm, 1e300};
    c.icore = {0, 1, (int64_t)1 << 53};
    if (c.b.empty()) { c.dcore.push_back(kDblMin); c.dcore.push_back(1.0); }
    else {
      add_around(c.dcore, c.b.front());
      add_around_int(c.icore, c.b.front());
      if (c.b.size() > 1) { c.dcore.push_back(c.b.back()); c.dcore.push_back(above(c.b.back())); add_around_int(c.icore, c.b.back()); }
    }
    // middle alphabets (<= 14 values): core plus the remaining common values and boundaries 2, 3 and the last but one
    c.dmid = c.dcore; c.imid = c.icore;
    c.dmid.push_back(kDblMin); c.dmid.push_back(1.0);
    for (size_t i = 1; i < c.b.size() && i < 3; ++i) { c.dmid.push_back(c.b[i]); c.dmid.push_back(above(c.b[i])); add_around_int(c.imid, c.b[i]); }
    if (c.b.size() > 4) { c.dmid.push_back(c.b[c.b.size() - 2]); add_around_int(c.imid, c.b[c.b.size() - 2]); }
    for (auto *v : {&c.dfull, &c.dcore, &c.dmid}) sort_unique(*v);
    for (auto *v : {&c.ifull, &c.icore, &c.imid}) sort_unique(*v);
    g_cfgs.push_back(c);
  }
}

// ---------------------------------------------------------------------------------------------
// reference histogram, by definition
// ---------------------------------------------------------------------------------------------
struct Val {  // one recorded value: a double for floating instruments, an integer for integer instruments
  double d = 0;
  int64_t i = 0;
};
struct Ref {
  std::vector<uint64_t> counts;
  uint64_t count = 0;
  double dsum = 0, dmin = 0, dmax = 0, dabs = 0;
  int64_t isum = 0, imin = 0, imax = 0;
  bool sum_exact = true;  // every sub-multiset has an exactly representable sum
};

// exact representability of the sum of a set of non-negative doubles (see notes): m * 2^e decomposition
bool decompose(double v, unsigned __int128 *m, int *e) {
  if (v == 0) { *m = 0; *e = 0; return true; }
  int ex;
  double fr = std::frexp(v, &ex);           // v = fr * 2^ex, fr in [0.5,1)
  double mant = std::ldexp(fr, 53);         // integer < 2^53
  *m = (unsigned __int128)(uint64_t)mant;
  *e = ex - 53;
  while (*m && !(*m & 1)) { *m >>= 1; ++*e; }
  return true;
}
bool subset_sum_representable(const std::vector<double> &vs, unsigned mask) {
  int emin = INT32_MAX, emax = INT32_MIN;
  std::vector<std::pair<unsigned __int128, int>> parts;
  for (size_t k = 0; k < vs.size(); ++k)
    if ((mask >> k) & 1) {
      unsigned __int128 m; int e;
      decompose(vs[k], &m, &e);
      if (m == 0) continue;
      parts.emplace_back(m, e);
      emin = std::min(emin, e);
      int top = e; unsigned __int128 t = m; while (t >>= 1) ++top;
      emax = std::max(emax, top);
    }
  if (parts.size() <= 1) return true;
  if (emax - emin > 110) return false;  // more than 110 bits apart: cannot fit 53 significant bits
  unsigned __int128 s = 0;
  for (auto &p : parts) s += p.first << (p.second - emin);
  while (s && !(s & 1)) s >>= 1;
  return s < ((unsigned __int128)1 << 53);
}
bool exactly_summable(const std::vector<double> &vs) {
  if (vs.size() > 12) return false;
  for (unsigned mask = 1; mask < (1u << vs.size()); ++mask)
    if (!subset_sum_representable(vs, mask)) return false;
  return true;
}

// boundary < value, decided exactly (no conversion of the integer to double): for an integer v,
// b < v  <=>  floor(b) < v, and floor(b) is an int64 whenever -2^63 <= b < 2^63
bool boundary_below_int(double b, int64_t v) {
  if (!(b < kTwo63)) return false;   // b >= 2^63 (or NaN): above every int64
  if (b < -kTwo63) return true;
  return (int64_t)std::floor(b) < v;
}

// `rounded`: decide integer values the way a double comparison would (value converted to double first);
// only used to recognise one particular defect, never as the expected result
Ref reference(const std::vector<double> &b, const std::vector<Val> &vals, bool is_long, bool rounded = false) {
  Ref r;
  r.counts.assign(b.size() + 1, 0);
  std::vector<double> ds;
  bool first = true;
  for (auto &v : vals) {
    size_t bucket = 0;  // number of boundaries strictly below the value
    for (double x : b) {
      bool lt = is_long ? (rounded ? (x < (double)v.i) : boundary_below_int(x, v.i)) : (x < v.d);
      if (lt) ++bucket;
    }
    r.counts[bucket]++;
    r.count++;
    if (is_long) {
      r.isum += v.i;
      if (first || v.i < r.imin) r.imin = v.i;
      if (first || v.i > r.imax) r.imax = v.i;
    } else {
      ds.push_back(v.d);
      r.dabs += v.d;
      if (first || v.d < r.dmin) r.dmin = v.d;
      if (first || v.d > r.dmax) r.dmax = v.d;
    }
    first = false;
  }
  if (!is_long) {
    r.sum_exact = exactly_summable(ds);
    // when exactly summable any order gives the exact sum; otherwise this is only the centre of a tolerance interval
    std::sort(ds.begin(), ds.end());
    for (double d : ds) r.dsum += d;
  }
  return r;
}

std::string show_d(double d) { return vf::sfmt("%.17g", d); }
std::string show_vals(const std::vector<Val> &vals, bool is_long) {
  std::string s = "{";
  for (size_t i = 0; i < vals.size(); ++i) s += (i ? "," : "") + (is_long ? vf::sfmt("%lld", (long long)vals[i].i) : show_d(vals[i].d));
  return s + "}";
}
std::string show_counts(const std::vector<uint64_t> &c) {
  std::string s = "[";
  for (size_t i = 0; i < c.size(); ++i) s += vf::sfmt("%s%llu", i ? "," : "", (unsigned long long)c[i]);
  return s + "]";
}
std::string canon_point(const HistogramPointData &p) {
  std::string s = show_counts(p.counts_) + vf::sfmt("n%llu", (unsigned long long)p.count_);
  if (nostd::holds_alternative<double>(p.sum_)) s += "s" + show_d(nostd::get<double>(p.sum_));
  else s += vf::sfmt("s%lld", (long long)nostd::get<int64_t>(p.sum_));
  if (p.record_min_max_ && p.count_) {
    if (nostd::holds_alternative<double>(p.min_)) s += "m" + show_d(nostd::get<double>(p.min_));
    else s += vf::sfmt("m%lld", (long long)nostd::get<int64_t>(p.min_));
    if (nostd::holds_alternative<double>(p.max_)) s += "M" + show_d(nostd::get<double>(p.max_));
    else s += vf::sfmt("M%lld", (long long)nostd::get<int64_t>(p.max_));
  }
  return s;
}

// Compare a real point with the reference.  `seam` names the place (agg, merge, single, meter-delta, ...).
// `ctxt` is a callable returning the description of the situation (only evaluated on failure).
#define where (ctxt() + " values=" + show_vals(vals, is_long))
template <class CtxtFn>
void check_point(vf::Ctx &c, const char *seam_, const HistogramPointData &p, const std::vector<double> &b, const std::vector<Val> &vals, bool is_long,
                 bool minmax_enabled, CtxtFn ctxt) {
  Ref r = reference(b, vals, is_long);
#define seam std::string(seam_)
  CHECK(c, p.boundaries_ == b, "C07:" + seam + ":boundaries", "the point's boundaries differ from the configured list; " + where);
  CHECK(c, p.counts_.size() == b.size() + 1, "C07:" + seam + ":bucket-number", vf::sfmt("%zu buckets for %zu boundaries; ", p.counts_.size(), b.size()) + where);
  uint64_t total = 0;
  for (auto x : p.counts_) total += x;
  CHECK(c, p.count_ == r.count, "C07:" + seam + ":count", vf::sfmt("count=%llu, %llu values were recorded; ", (unsigned long long)p.count_, (unsigned long long)r.count) + where);
  CHECK(c, total == p.count_, "C07:" + seam + ":bucket-counts-do-not-add-up", "bucket counts " + show_counts(p.counts_) + vf::sfmt(" add up to %llu, count=%llu; ", (unsigned long long)total, (unsigned long long)p.count_) + where);
  if (p.counts_ != r.counts) {
    // distinguishing feature of one particular defect: an integer value that is not exactly representable as
    // a double (|v| > 2^53) was bucketed as if it were the double it rounds to
    bool inexact = false;
    if (is_long) for (auto &v : vals) inexact |= ((double)v.i >= kTwo63 || (int64_t)(double)v.i != v.i);
    if (inexact && p.counts_ == reference(b, vals, true, true).counts) {
      c.report("C07:bucket-counts:int64-value-compared-after-rounding-to-double",
               "bucket counts " + show_counts(p.counts_) + ", expected " + show_counts(r.counts) + " (bucket i holds boundary[i-1] < v <= boundary[i], decided on the exact integers): an int64 value "
               "above 2^53 is converted to double for the comparison and lands in the bucket of the double it rounds to; seam " + seam + "; " + where);
    } else {
      CHECK(c, false, "C07:" + seam + ":bucket-counts", "bucket counts " + show_counts(p.counts_) + ", expected " + show_counts(r.counts) + " (bucket i holds boundary[i-1] < v <= boundary[i]); " + where);
    }
  }
  if (is_long) {
    CHECK(c, nostd::holds_alternative<int64_t>(p.sum_), "C07:" + seam + ":sum-type", "integer instrument reports a non-integer sum; " + where);
    CHECK(c, nostd::get<int64_t>(p.sum_) == r.isum, "C07:" + seam + ":sum", vf::sfmt("sum=%lld, expected %lld; ", (long long)nostd::get<int64_t>(p.sum_), (long long)r.isum) + where);
  } else {
    CHECK(c, nostd::holds_alternative<double>(p.sum_), "C07:" + seam + ":sum-type", "floating instrument reports a non-double sum; " + where);
    double s = nostd::get<double>(p.sum_);
    if (r.sum_exact) CHECK(c, s == r.dsum, "C07:" + seam + ":sum", "sum=" + show_d(s) + ", expected exactly " + show_d(r.dsum) + "; " + where);
    else {
      double tol = r.dabs * (double)(vals.size() + 1) * DBL_EPSILON;
      CHECK(c, std::fabs(s - r.dsum) <= tol, "C07:" + seam + ":sum-inexact", "sum=" + show_d(s) + ", expected " + show_d(r.dsum) + " within rounding; " + where);
    }
  }
  if (minmax_enabled) CHECK(c, p.record_min_max_, "C07:" + seam + ":minmax-flag", "record_min_max is enabled but the point says it carries no min/max; " + where);
  if (p.record_min_max_ && r.count > 0) {
    // a point that claims to carry min/max must carry the right ones
    if (is_long) {
      CHECK(c, nostd::holds_alternative<int64_t>(p.min_) && nostd::holds_alternative<int64_t>(p.max_), "C07:" + seam + ":minmax-type", "integer instrument reports non-integer min/max; " + where);
      int64_t mn = nostd::get<int64_t>(p.min_), mx = nostd::get<int64_t>(p.max_);
      CHECK(c, mn == r.imin, "C07:" + seam + ":min", vf::sfmt("min=%lld, smallest recorded value is %lld; ", (long long)mn, (long long)r.imin) + where);
      CHECK(c, mx == r.imax, "C07:" + seam + ":max", vf::sfmt("max=%lld, largest recorded value is %lld; ", (long long)mx, (long long)r.imax) + where);
    } else {
      CHECK(c, nostd::holds_alternative<double>(p.min_) && nostd::holds_alternative<double>(p.max_), "C07:" + seam + ":minmax-type", "floating instrument reports non-double min/max; " + where);
      double mn = nostd::get<double>(p.min_), mx = nostd::get<double>(p.max_);
      CHECK(c, mn == r.dmin, "C07:" + seam + ":min", "min=" + show_d(mn) + ", smallest recorded value is " + show_d(r.dmin) + "; " + where);
      if (mx != r.dmax) {
        // distinguishing feature of one particular defect: every value lies below the smallest positive
        // normal double and that very number is reported (the initial value of max_ is not below the domain)
        if (mx == kDblMin && r.dmax < kDblMin) {
          c.report("C07:max:all-values-below-smallest-normal", "max=" + show_d(mx) + " (numeric_limits<double>::min()) although the largest recorded value is " + show_d(r.dmax) + "; seam " + seam + "; " + where);
        } else {
          CHECK(c, false, "C07:" + seam + ":max", "max=" + show_d(mx) + ", largest recorded value is " + show_d(r.dmax) + "; " + where);
        }
      }
    }
  }
}
#undef where
#undef seam

bool same_point(const HistogramPointData &a, const HistogramPointData &b) {
  if (a.boundaries_ != b.boundaries_ || a.counts_ != b.counts_ || a.count_ != b.count_ || a.record_min_max_ != b.record_min_max_) return false;
  if (!(a.sum_ == b.sum_)) return false;
  if (a.record_min_max_ && a.count_ && (!(a.min_ == b.min_) || !(a.max_ == b.max_))) return false;
  return true;
}

// evidence samples: the core keeps the first two per worker; do not build more strings than that
bool want_sample() { static int n = 0; return n < 2 ? (++n, true) : false; }

// ---------------------------------------------------------------------------------------------
// choices shared by both seams
// ---------------------------------------------------------------------------------------------
enum ViewForm { kViewHistogramConfig, kViewDefaultConfig, kNoView, kViewHistogramNull };
struct Setup {
  const BCfg *cfg;
  bool is_long;
  bool explicit_config;  // false: aggregation_config == nullptr / no view (default boundaries)
  bool minmax;
  ViewForm view = kViewHistogramConfig;  // meter seam: how the configuration reaches the storage
  bool skip = false;      // the multiset cannot be completed: its exact sum does not fit the point's int64 sum
  std::vector<Val> vals;  // sorted multiset
  std::string desc;
};

Setup pick_setup(vf::Ctx &c, bool meter) {
  Setup s;
  s.cfg = &g_cfgs[c.pick("boundaries", (int)g_cfgs.size())];
  s.is_long = s.cfg->int_only ? true : c.pick("type", 2) == 1;
  // configuration variant.  0 / 1: explicit configuration with record_min_max on / off (meter seam:
  // View(kHistogram, config)).  Meter seam only: 2 = View(kDefault, config), which reaches the aggregation through
  // the default: branch of DefaultAggregation::CreateAggregation(type, descriptor, config).  Default boundaries are
  // additionally reached without any configuration (agg seam: config == nullptr; meter seam: no view at all and
  // View(kHistogram, nullptr)).
  int nexp = meter ? 3 : 2;
  int nvar = nexp + (s.cfg->is_default ? (meter ? 2 : 1) : 0);
  int var = c.pick("variant", nvar);
  s.explicit_config = var < nexp;
  s.minmax = s.explicit_config ? (var != 1) : true;
  if (meter) s.view = var <= 1 ? kViewHistogramConfig : var == 2 ? kViewDefaultConfig : var == 3 ? kNoView : kViewHistogramNull;
  // multiset size first, then the value alphabet (see notes): lists with a big full alphabet (default15: 50
  // values) use it only up to size g_fulln and the middle alphabet above; the two added View forms change the
  // aggregation factory only and run with multisets of <= g_viewn values
  int nmax = g_nmax;
  if (meter && (s.view == kViewDefaultConfig || s.view == kViewHistogramNull)) nmax = std::min(nmax, g_viewn);
  int n = c.pick("size", nmax + 1);
  const std::vector<double> *da;
  const std::vector<int64_t> *ia;
  std::string alpha = g_alphabet;
  if (alpha == "full" && s.cfg->dfull.size() > 24 && n > g_fulln) alpha = "mid";
  if (alpha == "full") { da = &s.cfg->dfull; ia = &s.cfg->ifull; }
  else if (alpha == "mid") { da = &s.cfg->dmid; ia = &s.cfg->imid; }
  else { da = &s.cfg->dcore; ia = &s.cfg->icore; }
  int A = s.is_long ? (int)ia->size() : (int)da->size();
  // multiset as a non-decreasing index sequence; integer multisets whose exact sum exceeds INT64_MAX are not
  // formed (no point could carry their sum): only the alphabet prefix that still fits is offered
  int lo = 0;
  int64_t isum = 0;
  for (int k = 0; k < n; ++k) {
    int hi = A;
    if (s.is_long) while (hi > lo && (*ia)[hi - 1] > INT64_MAX - isum) --hi;
    if (hi == lo) { s.skip = true; break; }
    int idx = lo + c.pick("value", hi - lo);
    Val v;
    if (s.is_long) { v.i = (*ia)[idx]; v.d = (double)v.i; isum += v.i; } else v.d = (*da)[idx];
    s.vals.push_back(v);
    lo = idx;
  }
  static const char *kViewName[] = {"", " View(kDefault,config)", " (no view)", " View(kHistogram,nullptr)"};
  s.desc = s.cfg->name + (s.is_long ? " int64" : " double") + (meter ? kViewName[s.view] : s.explicit_config ? "" : " (no config)") + (s.minmax ? "" : " no-minmax");
  return s;
}

// ---------------------------------------------------------------------------------------------
// seam 1: the aggregations directly
// ---------------------------------------------------------------------------------------------
std::unique_ptr<sm::Aggregation> make_agg(const Setup &s, const sm::HistogramAggregationConfig *cfg) {
  if (s.is_long) return std::unique_ptr<sm::Aggregation>(new sm::LongHistogramAggregation(cfg));
  return std::unique_ptr<sm::Aggregation>(new sm::DoubleHistogramAggregation(cfg));
}
void feed(sm::Aggregation &a, const Setup &s, const Val &v) {
  if (s.is_long) a.Aggregate(v.i); else a.Aggregate(v.d);
}
HistogramPointData point_of(const sm::Aggregation &a) { return nostd::get<HistogramPointData>(a.ToPoint()); }

void run_agg(vf::Ctx &c) {
  Setup s = pick_setup(c, false);
  if (s.skip) { c.counted("skipped_sum_above_int64_max"); return; }
  const int K = 3;
  std::vector<int> part(s.vals.size());
  for (size_t i = 0; i < s.vals.size(); ++i) part[i] = c.pick("part", K);
  sm::HistogramAggregationConfig hc;
  hc.boundaries_ = s.cfg->b;
  hc.record_min_max_ = s.minmax;
  const sm::HistogramAggregationConfig *cfgp = s.explicit_config ? &hc : nullptr;

  c.stage("Aggregate");
  std::unique_ptr<sm::Aggregation> A[K];
  std::vector<Val> pv[K];
  for (int p = 0; p < K; ++p) A[p] = make_agg(s, cfgp);
  std::unique_ptr<sm::Aggregation> single = make_agg(s, cfgp);
  for (size_t i = 0; i < s.vals.size(); ++i) {
    feed(*A[part[i]], s, s.vals[i]);
    pv[part[i]].push_back(s.vals[i]);
    c.step();
  }
  // the single histogram sees the values in part order, i.e. in the order the intervals would deliver them
  for (int p = 0; p < K; ++p) for (auto &v : pv[p]) feed(*single, s, v);
  HistogramPointData before[K];
  for (int p = 0; p < K; ++p) {
    before[p] = point_of(*A[p]);
    check_point(c, "agg", before[p], s.cfg->b, pv[p], s.is_long, s.minmax, [&] { return s.desc + vf::sfmt(" part %d", p); });
  }
  HistogramPointData sp = point_of(*single);
  check_point(c, "agg", sp, s.cfg->b, s.vals, s.is_long, s.minmax, [&] { return s.desc + " single histogram"; });

  c.stage("Merge");
  // three association orders, the way TemporalMetricStorage folds interval tables
  auto m01 = A[0]->Merge(*A[1]);
  auto left = m01->Merge(*A[2]);
  auto m12 = A[1]->Merge(*A[2]);
  auto right = A[0]->Merge(*m12);
  auto m21 = A[2]->Merge(*A[1]);
  auto rev = m21->Merge(*A[0]);
  c.step(6);
  const char *names[3] = {"(p0+p1)+p2", "p0+(p1+p2)", "(p2+p1)+p0"};
  sm::Aggregation *merged[3] = {left.get(), right.get(), rev.get()};
  auto parts_fn = [&] { return vf::sfmt(" parts=%s|%s|%s", show_vals(pv[0], s.is_long).c_str(), show_vals(pv[1], s.is_long).c_str(), show_vals(pv[2], s.is_long).c_str()); };
#define parts parts_fn()
  Ref rall = reference(s.cfg->b, s.vals, s.is_long);
  for (int k = 0; k < 3; ++k) {
    HistogramPointData mp = point_of(*merged[k]);
    check_point(c, "merge", mp, s.cfg->b, s.vals, s.is_long, s.minmax, [&] { return s.desc + " merge " + names[k] + parts; });
    if (s.is_long || rall.sum_exact)
      CHECK(c, same_point(mp, sp), "C07:merge:differs-from-single-histogram",
              "merge " + std::string(names[k]) + " gives " + canon_point(mp) + " but one histogram of all values gives " + canon_point(sp) + "; " + s.desc + parts);
  }
  {
    std::vector<Val> v01 = pv[0];
    v01.insert(v01.end(), pv[1].begin(), pv[1].end());
    check_point(c, "merge", point_of(*m01), s.cfg->b, v01, s.is_long, s.minmax, [&] { return s.desc + " merge p0+p1" + parts; });
  }
  // Merge must not modify its operands
  for (int p = 0; p < K; ++p)
    CHECK(c, same_point(point_of(*A[p]), before[p]), "C07:merge:operand-modified", vf::sfmt("part %d changed by Merge; ", p) + s.desc + parts);
  // Diff is exercised for memory safety only (its result is not part of the statement)
  c.stage("Diff");
  auto diff = A[0]->Diff(*left);
  (void)point_of(*diff);

  std::string canon = s.desc + "|" + canon_point(point_of(*left));
  c.state(canon + vf::sfmt("|%s|%s", canon_point(before[0]).c_str(), canon_point(before[1]).c_str()));
  c.outcome(canon);
  if (want_sample()) c.sample(s.desc + parts + " => " + canon_point(point_of(*left)));
#undef parts
}

// ---------------------------------------------------------------------------------------------
// seam 2: MeterProvider + View + pull readers
// ---------------------------------------------------------------------------------------------
class PullReader : public sm::MetricReader {
 public:
  explicit PullReader(sm::AggregationTemporality t) : t_(t) {}
  sm::AggregationTemporality GetAggregationTemporality(sm::InstrumentType) const noexcept override { return t_; }

 private:
  bool OnForceFlush(std::chrono::microseconds) noexcept override { return true; }
  bool OnShutDown(std::chrono::microseconds) noexcept override { return true; }
  sm::AggregationTemporality t_;
};

struct Collected {
  std::vector<std::pair<std::string, HistogramPointData>> points;  // canonical attributes, point
  bool other_point_type = false;
  size_t metrics = 0;
};
std::string canon_attrs(const sm::PointAttributes &a) {
  std::string s;
  for (auto &kv : a) {
    s += kv.first + "=";
    if (nostd::holds_alternative<std::string>(kv.second)) s += nostd::get<std::string>(kv.second);
    else s += vf::sfmt("#%zu", kv.second.index());
    s += ";";
  }
  return s;
}
Collected collect(sm::MetricReader &r) {
  Collected out;
  r.Collect([&](sm::ResourceMetrics &rm) {
    for (const sm::ScopeMetrics &smd : rm.scope_metric_data_)
      for (const sm::MetricData &md : smd.metric_data_) {
        out.metrics++;
        for (const sm::PointDataAttributes &dp : md.point_data_attr_) {
          if (nostd::holds_alternative<HistogramPointData>(dp.point_data)) out.points.emplace_back(canon_attrs(dp.attributes), nostd::get<HistogramPointData>(dp.point_data));
          else out.other_point_type = true;
        }
      }
    return true;
  });
  return out;
}

void run_meter(vf::Ctx &c) {
  Setup s = pick_setup(c, true);
  if (s.skip) { c.counted("skipped_sum_above_int64_max"); return; }
  const int K = 3;
  // readers: temporality per reader
  static const std::vector<std::vector<int>> kReaders = {{0}, {1}, {0, 1}, {1, 1}, {0, 0}, {1, 0}};  // 0 = delta, 1 = cumulative
  // thorough: the two remaining reader pairs for multisets of <= 3 values, recording with an attribute set for <= 2 values
  int nrc = (c.thorough() && s.vals.size() <= 3) ? 6 : 4;
  const std::vector<int> &rt = kReaders[c.pick("readers", nrc)];
  int with_attrs = (c.thorough() && s.vals.size() <= 2) ? c.pick("attrs", 2) : 0;
  std::vector<int> cyc(s.vals.size());
  for (size_t i = 0; i < s.vals.size(); ++i) cyc[i] = c.pick("cycle", K);
  // which readers collect at the end of a cycle: all of them after the last one; before that every non-empty subset
  std::vector<int> who(K, (1 << rt.size()) - 1);
  if (rt.size() == 2)
    for (int k = 0; k + 1 < K; ++k) who[k] = 1 + c.pick("who", 3);  // 1 = reader 0, 2 = reader 1, 3 = both (0 then 1)

  c.stage("setup");
  sm::MeterProvider mp;
  std::vector<std::shared_ptr<PullReader>> readers;
  for (int t : rt) {
    readers.emplace_back(new PullReader(t ? sm::AggregationTemporality::kCumulative : sm::AggregationTemporality::kDelta));
    mp.AddMetricReader(readers.back());
  }
  if (s.view != kNoView) {
    std::shared_ptr<sm::HistogramAggregationConfig> hc;
    if (s.explicit_config) {
      hc.reset(new sm::HistogramAggregationConfig());
      hc->boundaries_ = s.cfg->b;
      hc->record_min_max_ = s.minmax;
    }
    std::unique_ptr<sm::View> view(new sm::View("hv", "view", "u", s.view == kViewDefaultConfig ? sm::AggregationType::kDefault : sm::AggregationType::kHistogram, hc));
    std::unique_ptr<sm::InstrumentSelector> is(new sm::InstrumentSelector(sm::InstrumentType::kHistogram, "h", "u"));
    std::unique_ptr<sm::MeterSelector> ms(new sm::MeterSelector("m", "1", "s"));
    mp.AddView(std::move(is), std::move(ms), std::move(view));
  }
  auto meter = mp.GetMeter("m", "1", "s");
  nostd::unique_ptr<opentelemetry::metrics::Histogram<double>> hd;
  nostd::unique_ptr<opentelemetry::metrics::Histogram<uint64_t>> hi;
  if (s.is_long) hi = meter->CreateUInt64Histogram("h", "d", "u"); else hd = meter->CreateDoubleHistogram("h", "d", "u");
  std::map<std::string, std::string> attrs = {{"k", "v"}};
  const std::string want_attrs = with_attrs ? "k=v;" : "";

  std::vector<Val> all;                                 // everything recorded so far, in order
  std::vector<size_t> last(rt.size(), 0);               // per reader: number of values already reported (delta)
  std::string hist = s.desc, finals;
  for (int k = 0; k < K; ++k) {
    c.stage("Record");
    for (size_t i = 0; i < s.vals.size(); ++i) {
      if (cyc[i] != k) continue;
      opentelemetry::context::Context ctx{};
#if OPENTELEMETRY_ABI_VERSION_NO >= 2
      // ABI v2 has four Record overloads per class (with / without attributes x with / without an explicit Context),
      // each with its own copy of the value guard: the ones without a Context take every other value
      const bool no_ctx = (all.size() % 2) == 1;
      if (no_ctx) {
        if (s.is_long) { if (with_attrs) hi->Record((uint64_t)s.vals[i].i, attrs); else hi->Record((uint64_t)s.vals[i].i); }
        else { if (with_attrs) hd->Record(s.vals[i].d, attrs); else hd->Record(s.vals[i].d); }
      } else
#endif
      if (s.is_long) { if (with_attrs) hi->Record((uint64_t)s.vals[i].i, attrs, ctx); else hi->Record((uint64_t)s.vals[i].i, ctx); }
      else { if (with_attrs) hd->Record(s.vals[i].d, attrs, ctx); else hd->Record(s.vals[i].d, ctx); }
      all.push_back(s.vals[i]);
      hist += " R(" + (s.is_long ? vf::sfmt("%lld", (long long)s.vals[i].i) : show_d(s.vals[i].d)) + ")";
      c.step();
    }
    for (size_t r = 0; r < rt.size(); ++r) {
      if (!((who[k] >> r) & 1)) continue;
      c.stage("Collect");
      bool cumulative = rt[r] == 1;
      Collected got = collect(*readers[r]);
      c.step();
      hist += vf::sfmt(" C%zu%s", r, cumulative ? "c" : "d");
      std::vector<Val> due(all.begin() + (cumulative ? 0 : last[r]), all.end());
      last[r] = all.size();
      const char *seam_ = cumulative ? "meter-cumulative" : "meter-delta";
#define seam std::string(seam_)
      const std::string &ctxt = hist;
      CHECK(c, !got.other_point_type, "C07:" + seam + ":point-type", "a histogram instrument produced a non-histogram point; " + ctxt);
      CHECK(c, got.points.size() <= 1, "C07:" + seam + ":extra-point", vf::sfmt("%zu points for one attribute set; ", got.points.size()) + ctxt);
      if (due.empty()) {
        // nothing to report: no point, or an all-zero point
        if (!got.points.empty()) {
          const HistogramPointData &p = got.points[0].second;
          uint64_t t = 0; for (auto x : p.counts_) t += x;
          CHECK(c, p.count_ == 0 && t == 0, "C07:" + seam + ":point-without-values", "a point with count " + canon_point(p) + " is reported although the reader is due no value; " + ctxt);
        }
      } else {
        CHECK(c, got.points.size() == 1, "C07:" + seam + ":missing-point", vf::sfmt("no point although %zu values are due; ", due.size()) + ctxt);
        CHECK(c, got.points[0].first == want_attrs, "C07:" + seam + ":attributes", "point attributes '" + got.points[0].first + "', expected '" + want_attrs + "'; " + ctxt);
        check_point(c, seam_, got.points[0].second, s.cfg->b, due, s.is_long, s.minmax, [&] { return hist; });
      }
      std::string pc = got.points.empty() ? "-" : canon_point(got.points[0].second);
      c.state(s.desc + vf::sfmt("|%d|%zu|", k, r) + pc);
      if (k == K - 1) finals += pc + "/";
#undef seam
    }
  }
  c.outcome(s.desc + "|" + finals);
  if (want_sample()) c.sample(hist + " => " + finals);
}

void setup(vf::Options &o) {
  o.split_depth = 3;
  o.deadline_s = o.thorough ? 1200 : 150;
  o.table_bits = o.thorough ? 25 : 24;
  build_cfgs();
  g_seam = o.get("seam", "agg");
  g_nmax = atoi(o.get("n", o.thorough ? "5" : "3").c_str());
  g_fulln = atoi(o.get("fulln", o.thorough ? "3" : "2").c_str());
  g_viewn = atoi(o.get("viewn", o.thorough ? "3" : "2").c_str());
  g_alphabet = o.get("alphabet", g_seam == "meter" ? "core" : "full");
}

void run(vf::Ctx &c) {
  vf::clock_reset();
  vf::clock_set_autostep_ns(1000);
  static bool quiet = (opentelemetry::sdk::common::internal_log::GlobalLogHandler::SetLogLevel(opentelemetry::sdk::common::internal_log::LogLevel::None), true);
  (void)quiet;
  if (g_seam == "meter") run_meter(c); else run_agg(c);
}

}  // namespace

VF_MAIN("c07_histogram", "C07", setup, run)
