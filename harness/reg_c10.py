H("c10_context", "C10", "seq", ["harness/c10_context.cc"], sdk=[], cxxflags=["-fno-access-control"],
  args={"quick": [], "thorough": []},
  what="real Context / RuntimeContext / trace::Scope: (a) every history of SetValue / SetValues / static wrappers / copy / assign / drop on a growing family of contexts, "
       "all held contexts re-queried over all keys against their own model maps after every operation; (b) every history of Attach / Detach (any token, any order, "
       "already detached, foreign) / token destruction / Scope push and pop (any order) against a vector-of-identities model, GetCurrent and GetCurrentSpan compared "
       "after every operation, deep enough to cross the first stack reallocations; (c) sequential two-thread isolation; (d) deep stacks by shaped enumeration: "
       "attach N frames (N up to 65 quick / 128 thorough; distinct contexts, re-attached contexts, trace::Scope) and unwind newest-first, with one token out of "
       "order, or pop to a depth / re-grow / unwind, model compared after every single attach and detach; (e) special frames (Scope over a null span, Tracer::WithActiveSpan, "
       "a non-span value under the active-span key) over a reduced alphabet; (f) a custom RuntimeContextStorage (deliberately not a stack) installed with SetRuntimeContextStorage: "
       "RuntimeContext / Token / Scope / GetCurrentSpan act through it and only through it; RuntimeContext::SetValue(key,value) on the current context after every operation",
  design_ref="5/C10")
