H("c10_context", "C10", "seq", ["harness/c10_context.cc"], sdk=[], cxxflags=["-fno-access-control"],
  args={"quick": [], "thorough": []},
  what="real Context / RuntimeContext / trace::Scope: (a) every history of SetValue / SetValues / static wrappers / copy / assign / drop on a growing family of contexts, "
       "all held contexts re-queried over all keys against their own model maps after every operation; (b) every history of Attach / Detach (any token, any order, "
       "already detached, foreign) / token destruction / Scope push and pop (any order) against a vector-of-identities model, GetCurrent and GetCurrentSpan compared "
       "after every operation, deep enough to cross the stack reallocations; (c) sequential two-thread isolation",
  design_ref="5/C10")
