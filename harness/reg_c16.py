H("c16_b3_jaeger", "C16", "seq", ["harness/c16_b3_jaeger.cc"], sdk=[],
  args={"quick": [], "thorough": []},
  what="real B3Propagator, B3PropagatorMultiHeader and JaegerPropagator (header-only, API): Inject followed by Extract over all 256 flag bytes x 4 id pairs and "
       "every (position, nibble) one-hot / all-f / mixed / zero trace and span id, local and remote originals, two caller contexts (ids, remote flag and sampled decision "
       "must survive, no other flag bit may appear; the injected headers must be a documented form with the same ids and sampled decision under the reference decoders; "
       "Fields() = the keys Inject wrote); Extract over every <= 1 (thorough: <= 2) point mutation (23 byte classes, insert / delete / duplicate / truncate at every length / "
       "tails, in any header of the format incl. X-B3-Flags and X-B3-ParentSpanId) of 12 b3, 13 X-B3-* (incl. single+multi, X-B3-Flags: 1, parent id) and 11 uber-trace-id "
       "(incl. %3A-encoded) seeds, in exact-size heap blocks under ASan, against independent reference decoders with a three-valued oracle (ids, sampled decision, no flag "
       "bit the header does not carry); a rejected input must return the caller's context itself",
  design_ref="5/C16")
