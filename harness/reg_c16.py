H("c16_b3_jaeger", "C16", "seq", ["harness/c16_b3_jaeger.cc"], sdk=[],
  args={"quick": [], "thorough": []},
  what="real B3Propagator, B3PropagatorMultiHeader and JaegerPropagator (header-only, API): Inject followed by Extract over all 256 flag bytes x 4 id pairs and "
       "every (position, nibble) one-hot / all-f / mixed / zero trace and span id, local and remote originals, two caller contexts (ids, remote flag and sampled decision "
       "must survive); Extract over every <= 1 (thorough: <= 2) point mutation (23 byte classes, insert / delete / duplicate / truncate at every length / tails, in any header "
       "of the format) of 12 b3, 10 X-B3-* (incl. single+multi) and 10 uber-trace-id seeds, in exact-size heap blocks under ASan, against independent reference decoders "
       "with a three-valued oracle; a rejected input must return the caller's context itself",
  design_ref="5/C16")
