CLAIMS["C06"] = dict(
    engine="seq",
    technique="explicit-state exploration of operation histories on the real MeterProvider / Meter / SyncMetricStorage / TemporalMetricStorage against a per-reader, "
              "per-stream reference model (bounded depth, canonical-state pruning on the storages' private maps, deterministic virtual clock)",
    text="Sequential part of C06. For a UInt64 counter, a double counter (values multiples of 0.25, sums exact) and an Int64 up-down counter, with 0, 1 or 2 views on the "
         "instrument and 1..3 pull readers of mixed temporality, every history of Create(same name) (second handle) / Add(handle, value, attrs in {}, {a=1}, {a=2}) / "
         "Collect(reader) is executed on the real SDK (the last operation of a history is a Collect). Quick = depth 5 (4 free operations + final Collect), attrs {} and {a=1}, over 6 reader "
         "configurations (D, C, DD, DC, DDC, DCC); thorough = depth 5 with all three attribute sets over 8 configurations (one per multiset of temporalities + CDD), and with a reduced alphabet "
         "depth 5 over all 14 ordered reader configurations, depth 6 over the 8 and depth 7 over the 5 configurations with at most two readers "
         "(attrs {}, {a=1}; one value, up-down +1/-1). After every Collect: a delta point equals exactly what was added since that reader's previous collection (absent only when "
         "that is 0), a cumulative point equals the running total, every stream with due measurements is present, every handle counts, cumulative start = SDK start, delta start = "
         "end of that reader's previous interval (first: SDK start), end = time of the collection (bracketed by harness clock readings). Record/collect races are covered by the "
         "Engine-A harness, not by this check.",
    note=SEQ_NOTE)
