CLAIMS["C06"] = dict(
    engine="seq",
    technique="explicit-state exploration of operation histories on the real MeterProvider / Meter / SyncMetricStorage / TemporalMetricStorage against a per-reader, "
              "per-stream reference model (bounded depth, canonical-state pruning on the storages' private maps, deterministic virtual clock)",
    text="Sequential part of C06. For a UInt64 counter, a double counter, an Int64 up-down counter and a double up-down counter (doubles are multiples of 0.25, sums exact), "
         "with 0, 1 or 2 views on the "
         "instrument and 1..3 pull readers of mixed temporality, every history of Create(same name) (second handle) / Add(handle, value, attrs in {}, {a=1}, {a=2}) / "
         "Collect(reader) is executed on the real SDK (the last operation of a history is a Collect). All four Add overloads of each instrument class are used (even steps "
         "Add(v) / Add(v, attrs), odd steps Add(v, context) / Add(v, attrs, context)). The readers' temporality selector depends on the instrument type it is asked about "
         "(configured temporality for the instrument's type, the opposite for any other type). Quick = depth 5 (4 free operations + final Collect), attrs {} and {a=1}, over 6 reader "
         "configurations (D, C, DD, DC, DDC, DCC); thorough = depth 5 with all three attribute sets over 8 configurations (one per multiset of temporalities + CDD), and with a reduced alphabet "
         "depth 5 over all 14 ordered reader configurations, depth 6 over the 8 and depth 7 over the 5 configurations with at most two readers "
         "(attrs {}, {a=1}; one value, up-down +1/-1). After every Collect: a delta point equals exactly what was added since that reader's previous collection (absent only when "
         "that is 0), a cumulative point equals the running total, every stream with due measurements is present, every handle counts, cumulative start = SDK start, delta start = "
         "end of that reader's previous interval (first: SDK start), end = time of the collection (bracketed by harness clock readings). Extension parts with a reduced alphabet (one value, attrs {} and {a=1}; quick depth 4-5 on a "
         "UInt64 counter and a double up-down counter, thorough depth 6), one feature each: a MetricFilter on the first reader (accept-partial / drop / accept per stream; the "
         "other readers and the points the filter lets through must be exact); AddMetricReader(delta|cumulative) once in the middle of a history (the readers that were there "
         "before must be unaffected; the late reader must receive exactly what was recorded since some moment between SDK start and its registration at which the SDK was active, "
         "and conserve everything from then on); a second meter with an instrument of the same name (streams keyed by scope and name); Destroy(handle) with up to three "
         "Create (the stream outlives its handles); every Add overload of every instrument class on an instrument created from a meter whose MeterProvider is gone (must return). "
         "Record/collect races are covered by the Engine-A harness c06_conc (recorder threads against collector threads, preemption bound 2 quick / 3 thorough, one "
         "configuration at least for each of the four SyncMetricStorage::Record* bodies: uint64 / double counter, with / without attributes), not by this check.",
    note=SEQ_NOTE)
