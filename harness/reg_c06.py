H("c06_conservation", "C06", "seq", ["harness/c06_conservation.cc"], sdk=["common", "version", "resource", "metrics"],
  cxxflags=["-fno-access-control"],
  args={"quick": [], "thorough": []},
  what="real MeterProvider/Meter/SyncMetricStorage/TemporalMetricStorage with 1..3 pull readers of mixed temporality, 0..2 views and up to 2 handles of one "
       "counter / double counter / up-down counter / double up-down counter: every history of Create(same name) / Add(handle,value,attrs; all four overloads) / Collect(reader) up to the depth bound, each "
       "collection compared with a per-reader, per-stream reference model (pending delta, running total, interval bounds); extension parts: MetricFilter on a reader, reader registered late, "
       "second meter, handles destroyed, instruments of a meter that outlived its provider",
  design_ref="5/C06")
