for _p in ("C02", "C03"):
    H("procs_" + _p.lower(), _p, "sched", ["harness/procs_harness.cc"], sdk=BATCH_SDK,
      args={"quick": ["--oracle=" + _p], "thorough": ["--oracle=" + _p, "--budget=400"]},
      what="simple span/log processors called from several threads; provider-level ForceFlush/Shutdown through the real TracerProvider/LoggerProvider with {batch}, {simple,batch}, {batch,batch}; oracle " + _p,
      design_ref="5/" + _p)
