// C14: TraceState stays a valid, duplicate-free W3C list under every update (Engine B).
// Part 0: every history of Set/Delete/Get/round-trip up to a depth bound, from several start states, on the
//         real TraceState in lock-step with an ordered-list reference model.
// Part 1: a deviation-bounded header generator for FromHeader.
// Part 2: one Set of every string of a wide set (every byte value at several positions, boundary lengths,
//         vendor@tenant forms) on start states, followed by fixed observers (Get, round trip, Delete), plus
//         Delete/Get of the key on the start state.
// Part 3: the public validators IsValidKey / IsValidValue on that wide set against the W3C reference (three-valued).
//
// The same file builds two harnesses: `c14_tracestate` drives opentelemetry::trace::TraceState as this build
// configures it (OPENTELEMETRY_HAVE_WORKING_REGEX == 1: the std::regex validators); with -DC14_NOREGEX
// (`c14_noregex`, linked with harness/c14_noregex.cc) it drives the same header compiled with
// OPENTELEMETRY_HAVE_WORKING_REGEX forced to 0 (the hand-written validators) and compares the two variants.
#include <opentelemetry/trace/trace_state.h>

#include <algorithm>
#include <unordered_set>

#include "seq/vf_seq.h"

using opentelemetry::trace::TraceState;
namespace nostd = opentelemetry::nostd;

#ifdef C14_NOREGEX
// ---- keep this declaration identical to the one in c14_noregex.cc ------------------------------
namespace c14nr {
class State {
 public:
  using Ptr = nostd::shared_ptr<State>;
  static Ptr FromHeader(nostd::string_view header) noexcept;
  std::string ToHeader() const noexcept;
  bool Get(nostd::string_view key, std::string &value) const noexcept;
  Ptr Set(const nostd::string_view &key, const nostd::string_view &value) noexcept;
  Ptr Delete(const nostd::string_view &key) noexcept;
  bool Empty() const noexcept;
  bool GetAllEntries(nostd::function_ref<bool(nostd::string_view, nostd::string_view)> callback) const noexcept;
  static bool IsValidKey(nostd::string_view key);
  static bool IsValidValue(nostd::string_view value);
  ~State();

 private:
  explicit State(void *impl);
  State(const State &) = delete;
  State &operator=(const State &) = delete;
  void *impl_;  // nostd::shared_ptr<TraceStateNoRegex> *
};
}  // namespace c14nr
// -------------------------------------------------------------------------------------------------
using TS = c14nr::State;
#  define C14_VARIANT "noregex"
#  define C14_HARNESS "c14_noregex"
#else
using TS = TraceState;
#  define C14_VARIANT "regex"
#  define C14_HARNESS "c14_tracestate"
#endif
using Ptr = nostd::shared_ptr<TS>;

namespace {

using List = std::vector<std::pair<std::string, std::string>>;

// ---- independent W3C validity predicates (not calling IsValidKey/IsValidValue) ----------------
bool lc(char c) { return c >= 'a' && c <= 'z'; }
bool dg(char c) { return c >= '0' && c <= '9'; }
bool kc(char c) { return lc(c) || dg(c) || c == '_' || c == '-' || c == '*' || c == '/'; }
// level: 1 = the ABNF of W3C Trace Context level 1 (simple keys and system ids start with a letter),
//        2 = its prose "identifiers MUST begin with a lowercase letter or a digit" (a digit may lead)
bool simple_key(const std::string &k, int level, size_t maxlen) {
  if (k.empty() || k.size() > maxlen) return false;
  if (!(lc(k[0]) || (level == 2 && dg(k[0])))) return false;
  for (char c : k) if (!kc(c)) return false;
  return true;
}
bool valid_key(const std::string &k, int level) {
  size_t at = k.find('@');
  if (at == std::string::npos) return simple_key(k, level, 256);
  std::string tenant = k.substr(0, at), system = k.substr(at + 1);
  if (tenant.empty() || tenant.size() > 241 || !(lc(tenant[0]) || dg(tenant[0]))) return false;
  for (char c : tenant) if (!kc(c)) return false;
  return simple_key(system, level, 14);
}
bool valid_value(const std::string &v) {
  if (v.empty() || v.size() > 256) return false;
  for (unsigned char c : v) if (c < 0x20 || c > 0x7e || c == ',' || c == '=') return false;
  return v.back() != ' ';
}
enum Tri { MUST_ACCEPT, MUST_REJECT, DONT_CARE };
Tri classify_key(const std::string &k) { return valid_key(k, 1) ? MUST_ACCEPT : valid_key(k, 2) ? DONT_CARE : MUST_REJECT; }
Tri classify_value(const std::string &v) { return valid_value(v) ? MUST_ACCEPT : MUST_REJECT; }

// ---- what distinguishes a string: the tail of a validator signature ------------------------------
std::string byte_class(unsigned char ch) {
  if (ch == 0) return "nul";
  if (ch < 0x20) return "control";
  if (ch == ' ') return "blank";
  if (ch == ',') return "comma";
  if (ch == '=') return "equals";
  if (ch == '@') return "at";
  if (ch == 0x7f) return "del";
  if (ch >= 0x80) return "non-ascii";
  if (ch >= 'A' && ch <= 'Z') return "upper-case";
  if (lc((char)ch)) return "lower-case";
  if (dg((char)ch)) return "digit";
  if (ch == '_') return "underscore";
  if (ch == '-') return "dash";
  if (ch == '*') return "asterisk";
  if (ch == '/') return "slash";
  if (ch == '~') return "tilde";
  return "punctuation";
}
// why the reference rejects a key (first applicable)
std::string key_defect(const std::string &k) {
  if (k.empty()) return "empty";
  if (k.size() > 256) return "longer-than-256";
  size_t ats = 0;
  for (unsigned char ch : k) {
    if (ch == '@') ats++;
    else if (!kc((char)ch)) return "char:" + byte_class(ch);
  }
  if (k[0] == '@') return "empty-tenant-id";
  if (!(lc(k[0]) || dg(k[0]))) return "first-char:" + byte_class((unsigned char)k[0]);
  if (ats > 1) return "more-than-one-at";
  if (ats == 1) {
    size_t at = k.find('@');
    std::string system = k.substr(at + 1);
    if (system.empty()) return "empty-system-id";
    if (at > 241) return "tenant-longer-than-241";
    if (system.size() > 14) return "system-longer-than-14";
    if (!(lc(system[0]) || dg(system[0]))) return "system-id-first-char";  // one of _ - * / (anything else is "char:")
  }
  return "other";
}
// what kind of valid key was refused
std::string key_kind(const std::string &k) {
  size_t at = k.find('@');
  std::string pre = at == std::string::npos ? "" : "multi-tenant:";
  if (at != std::string::npos && (at == 241 || k.size() - at - 1 == 14)) return pre + "at-length-limit";
  if (at == std::string::npos && k.size() == 256) return "length-256";
  for (unsigned char ch : k) if (ch != '@' && !lc((char)ch) && !dg((char)ch)) return pre + "with-" + byte_class(ch);
  if (dg(k[0])) return pre + "digit-first";
  for (unsigned char ch : k) if (dg((char)ch)) return pre + "with-digit";
  return pre + "plain";
}
std::string value_defect(const std::string &v) {
  if (v.empty()) return "empty";
  if (v.size() > 256) return "longer-than-256";
  for (unsigned char ch : v) if (ch < 0x20 || ch > 0x7e || ch == ',' || ch == '=') return "char:" + byte_class(ch);
  if (v.back() == ' ') return "trailing-blank";
  return "other";
}
std::string value_kind(const std::string &v) {
  if (v.size() == 256) return "length-256";
  if (v[0] == ' ') return "leading-blank";
  for (unsigned char ch : v) if (ch == ' ') return "inner-blank";
  for (unsigned char ch : v) if (!lc((char)ch) && !dg((char)ch) && !(ch >= 'A' && ch <= 'Z')) return "with-" + byte_class(ch);
  return "plain";
}
std::string validator_sig(bool is_key, const std::string &s, bool accepted) {
  std::string sig = std::string("C14:" C14_VARIANT ":") + (is_key ? "key" : "value") + (accepted ? "-accepted:" : "-rejected:");
  if (accepted) sig += is_key ? key_defect(s) : value_defect(s);
  else sig += is_key ? key_kind(s) : value_kind(s);
  return sig;
}
std::string validator_msg(bool is_key, const std::string &s, bool accepted) {
  return vf::sfmt("the %s validator of the " C14_VARIANT " variant %s the %s %s '%s' (%zu bytes)", is_key ? "key" : "value", accepted ? "accepts" : "rejects",
                  accepted ? "invalid" : "valid", is_key ? "key" : "value", vfq::printable(s, 40).c_str(), s.size());
}

// Ends an execution (not a failure) at a validator deviation that is a listed known finding: what the class does
// with a string its validator misjudges is not modelled any further.
struct KnownDeviation {};

// The reference verdict for a key / value that is about to be given to (or was found in) the TraceState.
// The regex build (the configuration this repository is built in) is judged through the behaviour of the class
// alone, as before. In the no-regex build every string is first shown to the variant's own validator: a deviation
// is reported under the validator's signature (the root cause) rather than under whatever it leads to.
Tri judge(vf::Ctx &c, bool is_key, const std::string &s) {
  Tri t = is_key ? classify_key(s) : classify_value(s);
#ifdef C14_NOREGEX
  if (t != DONT_CARE) {
    vfq::HeapStr hs(s);
    bool acc = is_key ? TS::IsValidKey(hs.view()) : TS::IsValidValue(hs.view());
    if (acc != (t == MUST_ACCEPT)) {
      if (c.report(validator_sig(is_key, s, acc), validator_msg(is_key, s, acc))) {
        c.counted("ended_at_known_validator_deviation");
        throw KnownDeviation{};
      }
    }
  }
#endif
  (void)c;
  return t;
}
Tri judge_key(vf::Ctx &c, const std::string &k) { return judge(c, true, k); }
Tri judge_value(vf::Ctx &c, const std::string &v) { return judge(c, false, v); }

List entries(const TS &ts) {
  List l;
  ts.GetAllEntries([&](nostd::string_view k, nostd::string_view v) noexcept {
    l.emplace_back(std::string(k.data(), k.size()), std::string(v.data(), v.size()));
    return true;
  });
  return l;
}
std::string header_of(const List &l) {
  std::string h;
  for (size_t i = 0; i < l.size(); ++i) h += (i ? "," : "") + l[i].first + "=" + l[i].second;
  return h;
}
std::string show(const List &l) { return "{" + vfq::printable(header_of(l), 120) + "}"; }

std::vector<std::string> g_keys, g_values;
int g_depth = 3;
int g_only_part = -1;  // --part=N: development aid, runs one part only

void check_valid(vf::Ctx &c, const List &l, const char *after, bool dup_check = true) {
  c.check(l.size() <= 32, "C14:more-than-32-members", vf::sfmt("%zu members after %s", l.size(), after));
  for (size_t i = 0; i < l.size(); ++i) {
    c.check(judge_key(c, l[i].first) != MUST_REJECT, "C14:invalid-key-stored", vf::sfmt("after %s the state holds the invalid key '%s'", after, vfq::printable(l[i].first).c_str()));
    c.check(judge_value(c, l[i].second) != MUST_REJECT, "C14:invalid-value-stored", vf::sfmt("after %s the state holds the invalid value '%s'", after, vfq::printable(l[i].second).c_str()));
    for (size_t j = 0; dup_check && j < i; ++j)
      if (l[j].first == l[i].first) {
        c.check(false, "C14:duplicate-key", vf::sfmt("after %s the key '%s' occurs twice: %s", after, vfq::printable(l[i].first).c_str(), show(l).c_str()));
      }
  }
}

void setup(vf::Options &o) {
  o.split_depth = 2;
  o.deadline_s = o.thorough ? 900 : 100;
  o.table_bits = 22;
  std::string k256 = "k" + std::string(255, 'x'), k257 = "k" + std::string(256, 'x');
  // "k0" and "ab" are proper prefixes / extensions of other keys in play ("k00".."k09", "a"): lookups must
  // compare whole keys (an independently seeded change made GetValue match on a prefix)
  g_keys = {"a", "b", "ab", "k0", "t1@sys", k256, "k05", /* invalid: */ "A", "", k257, "@x", "a b"};
  std::string v256(256, 'v'), v257(257, 'v');
  g_values = {"1", "2", v256, "x y", /* invalid: */ "x ", "a,b", "a=b", "", v257, std::string("a\0b", 3)};
  if (!o.thorough) { g_keys = {"a", "ab", "k0", "t1@sys", "k05", k256, "A", "", k257}; g_values = {"1", "2", v256, "x ", "a,b", ""}; }
  g_depth = atoi(o.get("depth", o.thorough ? "4" : "3").c_str());
  if (g_depth < 1 || g_depth > 6) g_depth = 3;
  g_only_part = atoi(o.get("part", "-1").c_str());
}

List start_state(int which) {
  List l;
  int n = which == 0 ? 0 : which == 1 ? 1 : which == 2 ? 31 : 32;
  for (int i = 0; i < n; ++i) l.emplace_back(vf::sfmt("k%02d", i), vf::sfmt("v%d", i));
  return l;
}

// ---- one TraceState under test in lock-step with the ordered-list model --------------------------
struct Sess {
  vf::Ctx &c;
  Ptr cur;
  List model;
  std::string hist;
  bool left_model = false;  // a listed known finding made the real state leave the model: stop this history

  Sess(vf::Ctx &ctx, const List &start) : c(ctx), model(start) {
    c.stage("FromHeader(start)");
    std::string h0 = header_of(model);
    vfq::HeapStr hs(h0);
    cur = TS::FromHeader(hs.view());
    c.check(entries(*cur) == model, "C14:parse-start", "start state not parsed as written: " + show(entries(*cur)) + " vs " + show(model));
    hist = vf::sfmt("start%zu", model.size());
  }

  // every operation ends with: the receiver is never modified, Empty() agrees
  void after(const Ptr &prev, const List &before) {
    c.check(entries(*prev) == before, "C14:receiver-modified", "the TraceState an operation was called on changed: " + show(entries(*prev)) + " was " + show(before));
    c.check(cur->Empty() == model.empty(), "C14:empty", "Empty() disagrees with the entries");
  }

  void set(const std::string &k, const std::string &v) {
    List before = model;
    Ptr prev = cur;
    c.step();
    hist += " Set(" + vfq::printable(k, 12) + "," + vfq::printable(v, 12) + ")";
    c.stage("Set");
    vfq::HeapStr hk(k), hv(v);
    Ptr next = cur->Set(hk.view(), hv.view());
    hk.scribble(); hv.scribble();  // the result must own its strings
    List got = entries(*next);
    Tri tk = judge_key(c, k), tv = judge_value(c, v);
    if (tk == MUST_REJECT || tv == MUST_REJECT) {
      c.check(got.empty(), "C14:set-invalid-not-default", "Set with an invalid key or value did not yield the empty default state: " + show(got));
      model.clear();
    } else if (tk == DONT_CARE && got.empty()) {
      model.clear();  // implementation treats the digit-first key as invalid: permitted
    } else {
      bool present = false;
      for (auto &e : model) present |= (e.first == k);
      List want;
      if (!present && model.size() >= 32) want = model;  // refused with an unchanged copy
      else {
        want.emplace_back(k, v);
        for (auto &e : model) if (e.first != k) want.push_back(e);
      }
      check_valid(c, got, "Set");
      if (got != want) {
        const char *sig = present ? (model.size() >= 32 ? "C14:set-existing-key-at-limit" : "C14:set-existing-key") : "C14:set-result";
        if (c.report(sig, vf::sfmt("Set('%s','%s') on %s gave %s, expected %s", vfq::printable(k, 20).c_str(), vfq::printable(v, 20).c_str(), show(model).c_str(),
                                   show(got).c_str(), show(want).c_str()))) {
          left_model = true;  // known finding: the real state has left the model, end this history
          return;
        }
      }
      model = want;
    }
    cur = next;
    after(prev, before);
  }

  void del(const std::string &k) {
    List before = model;
    Ptr prev = cur;
    c.step();
    hist += " Delete(" + vfq::printable(k, 12) + ")";
    c.stage("Delete");
    vfq::HeapStr hk(k);
    Ptr next = cur->Delete(hk.view());
    hk.scribble();
    List got = entries(*next);
    Tri tk = judge_key(c, k);
    if (tk == MUST_REJECT || (tk == DONT_CARE && got.empty() && !model.empty())) {
      c.check(got.empty(), "C14:delete-invalid-not-default", "Delete with an invalid key did not yield the empty default state: " + show(got));
      model.clear();
    } else {
      List want;
      for (auto &e : model) if (e.first != k) want.push_back(e);
      check_valid(c, got, "Delete");
      c.check(got == want, "C14:delete-result", vf::sfmt("Delete('%s') on %s gave %s", vfq::printable(k, 20).c_str(), show(model).c_str(), show(got).c_str()));
      model = want;
    }
    cur = next;
    after(prev, before);
  }

  void get(const std::vector<std::string> &keys) {
    List before = model;
    Ptr prev = cur;
    c.step();
    c.stage("Get");
    hist += " Get*";
    for (auto &k : keys) {
      std::string v = "unset";
      vfq::HeapStr hk(k);
      bool ok = cur->Get(hk.view(), v);
      const std::string *want = nullptr;
      for (auto &e : model) if (e.first == k) { want = &e.second; break; }
      c.check(ok == (want != nullptr), "C14:get-presence", vf::sfmt("Get('%s') on %s returned %d", vfq::printable(k, 20).c_str(), show(model).c_str(), (int)ok));
      if (want) c.check(v == *want, "C14:get-value", vf::sfmt("Get('%s') returned '%s', latest value is '%s'", vfq::printable(k, 20).c_str(), vfq::printable(v, 20).c_str(), vfq::printable(*want, 20).c_str()));
    }
    after(prev, before);
  }

  void roundtrip() {
    List before = model;
    Ptr prev = cur;
    c.step();
    c.stage("roundtrip");
    hist += " RoundTrip";
    std::string h = cur->ToHeader();
    c.check(h == header_of(model), "C14:to-header", "ToHeader gave '" + vfq::printable(h, 100) + "' for " + show(model));
    vfq::HeapStr hh(h);
    Ptr back = TS::FromHeader(hh.view());
    hh.scribble();
    c.check(entries(*back) == model, "C14:roundtrip", "FromHeader(ToHeader(x)) gave " + show(entries(*back)) + " for " + show(model));
    cur = back;
    after(prev, before);
  }
};

void run_histories(vf::Ctx &c) {
  int which = c.pick("start", 4);
  Sess s(c, start_state(which));
  for (int d = 0; d < g_depth; ++d) {
    {
      vf::H128 h; h.add(0xc14); h.add((uint64_t)d); h.add_str(header_of(entries(*s.cur)));
      c.prune_point(h);  // complete: a TraceState is an immutable value, its future depends on its entries only
    }
    int op = c.pick("op", 4);
    if (op == 0) {
      std::string k = c.pick_from("key", g_keys), v = c.pick_from("value", g_values);
      s.set(k, v);
      if (s.left_model) return;
    } else if (op == 1) {
      s.del(c.pick_from("key", g_keys));
    } else if (op == 2) {
      s.get(g_keys);  // Get on every key of the alphabet
    } else {
      s.roundtrip();
    }
    c.state(vf::sfmt("%d|", d) + header_of(entries(*s.cur)));
  }
  c.outcome(header_of(s.model));
  c.sample(s.hist + " => " + show(s.model));
}

// ---- header side: deviation-bounded generator ---------------------------------------------------
struct HeaderInputs {
  std::vector<std::string> all;  // seeds and first-level mutations of EVERY seed first, second-level mutations after them
  size_t first_level = 0;        // all[0 .. first_level) = seeds and their single mutations
  size_t over_32 = 0, ows = 0;   // inputs with more than 32 non-empty members / with blanks around a member
};
constexpr size_t kChunk = 4096;  // one pick holds at most 60000 alternatives: the list is walked as (chunk, index)

const HeaderInputs &header_inputs(bool thorough) {
  static HeaderInputs hi;
  if (!hi.all.empty()) return hi;
  std::vector<std::string> seeds = {"", "a=1", "a=1,b=2", "ab=1,a=2", "t1@sys=v", "a=1,,b=2", "a=1, b=2", " a=1 ,b=2 ", "a=x y,b=2",
                                    /* every key character besides letters and digits; a value that starts with '~': */ "a_-*/z=~x"};
  { List l = start_state(3); seeds.push_back(header_of(l)); l.emplace_back("k32", "v"); seeds.push_back(header_of(l)); }
  // one representative per byte class; '_' '-' '*' '/' are the key-only characters, '.' '+' ':' '`' '{' their ASCII
  // neighbours (what a widened range would let in), '~' / DEL / 0x1f the ends of the value range
  const std::string classes = std::string("a1A=,@ \t\x80;_-*/.+:`{~\x7f\x1f", 22) + std::string(1, '\0');
  std::unordered_set<std::string> seen;
  auto add = [&](const std::string &s) { if (seen.insert(s).second) hi.all.push_back(s); };
  std::vector<std::string> second_from;  // first-level mutants that get a second mutation (thorough)
  std::vector<std::pair<std::string, std::string>> second_from_tail;  // (untouched prefix, mutated last 8 bytes) of the long seeds
  for (auto &s : seeds) {
    add(s);
    if (s.size() > 60) {  // long seeds: mutate around the ends and one member boundary only
      for (auto &m : vfq::mutations(s.substr(0, 12), classes)) add(m + s.substr(12));
      for (auto &m : vfq::mutations(s.substr(s.size() - 8), classes)) { add(s.substr(0, s.size() - 8) + m); second_from_tail.emplace_back(s.substr(0, s.size() - 8), m); }
    } else {
      for (auto &m : vfq::mutations(s, classes)) { add(m); second_from.push_back(m); }
    }
  }
  hi.first_level = hi.all.size();
  if (thorough) {
    for (auto &m : second_from)
      for (auto &m2 : vfq::mutations(m, "a=, ")) add(m2);
    // the 32- and 33-member headers: two mutations within the last member and the separator before it
    for (auto &pm : second_from_tail)
      for (auto &m2 : vfq::mutations(pm.second, "a=, ")) add(pm.first + m2);
  }
  for (auto &s : hi.all) {
    size_t members = 0, pos = 0;
    bool blank = false;
    while (pos <= s.size()) {
      size_t e = s.find(',', pos);
      if (e == std::string::npos) e = s.size();
      std::string m = s.substr(pos, e - pos);
      pos = e + 1;
      if (m.find_first_not_of(" \t") == std::string::npos) continue;
      members++;
      blank |= (m[0] == ' ' || m.back() == ' ');
    }
    hi.over_32 += members > 32;
    hi.ows += blank;
  }
  return hi;
}

void run_headers(vf::Ctx &c) {
  const HeaderInputs &hi = header_inputs(c.thorough());
  const std::vector<std::string> &inputs = hi.all;
  // nothing is cut off: every input is reachable through (chunk, index)
  size_t nchunks = (inputs.size() + kChunk - 1) / kChunk;
  size_t chunk = (size_t)c.pick("header-chunk", (int)nchunks);
  size_t in_chunk = std::min(kChunk, inputs.size() - chunk * kChunk);
  size_t idx = chunk * kChunk + (size_t)c.pick("header", (int)in_chunk);
  const std::string &in = inputs[idx];
  if (idx == 0) {  // the size of the generated list, for comparison with header_inputs_executed
    c.counted("header_inputs_generated", inputs.size());
    c.counted("header_inputs_generated_first_level", hi.first_level);
    c.counted("header_inputs_generated_over_32_members", hi.over_32);
    c.counted("header_inputs_generated_with_ows", hi.ows);
  }
  c.counted("header_inputs_executed");
  if (idx < hi.first_level) c.counted("header_inputs_executed_first_level");
  c.stage("FromHeader");
  vfq::HeapStr hs(in);
  Ptr ts = TS::FromHeader(hs.view());
  hs.scribble();
  c.step();
  List got = entries(*ts);
  // Reference: split on ',', trim blanks around members (OWS), skip empty members, each member is
  // key '=' value; any invalid member, or more than 32 members, yields the empty state.
  List want;
  bool bad = false;
  size_t members = 0;
  size_t pos = 0;
  bool dontcare = false;
  size_t empties = 0;
  while (pos <= in.size()) {
    size_t e = in.find(',', pos);
    if (e == std::string::npos) e = in.size();
    std::string m = in.substr(pos, e - pos);
    pos = e + 1;
    size_t a = m.find_first_not_of(" \t"), b = m.find_last_not_of(" \t");
    if (a == std::string::npos) { empties++; continue; }  // empty member
    if (m.find('\t') != std::string::npos) dontcare = true;  // whether a tab is optional whitespace is not stated
    m = m.substr(a, b - a + 1);
    members++;
    size_t eq = m.find('=');
    if (eq == std::string::npos) { bad = true; continue; }
    std::string k = m.substr(0, eq), v = m.substr(eq + 1);
    // blanks between key, '=' and value are not part of the grammar; implementations differ
    if ((!k.empty() && (k.back() == ' ' || k.back() == '\t')) || (!v.empty() && (v[0] == ' ' || v[0] == '\t'))) dontcare = true;
    if (members > 32) continue;  // the header is over-long whatever this member holds (and the parser never validates it)
    Tri tk = judge_key(c, k), tv = judge_value(c, v);
    if (tk == MUST_REJECT || tv == MUST_REJECT) { bad = true; continue; }
    if (tk == DONT_CARE) dontcare = true;
    for (auto &x : want) if (x.first == k) dontcare = true;  // duplicate keys in a header: not covered by the statement
    want.emplace_back(k, v);
  }
  if (members > 32) { bad = true; c.counted("header_inputs_executed_over_32_members"); }
  // Empty list members are list members in the W3C grammar: whether they count towards the limit of 32
  // is left open by the statement.
  if (members <= 32 && members + empties > 32) dontcare = true;
  // The statement promises duplicate-freedom for Set; what a header that repeats a key parses to is not stated.
  check_valid(c, got, "FromHeader", false);
  if (!dontcare) {
    if (bad) c.check(got.empty(), "C14:partial-parse", "header '" + vfq::printable(in, 100) + "' has an invalid member (or too many) but parsed to " + show(got));
    else c.check(got == want, "C14:parse-result", "header '" + vfq::printable(in, 100) + "' parsed to " + show(got) + ", expected " + show(want));
  } else {
    c.counted("header_inputs_dont_care");
  }
  c.state("h|" + header_of(got));
  c.outcome(header_of(got));
  if (in.size() < 40) c.sample("FromHeader('" + vfq::printable(in) + "') => " + show(got));
}

// ---- the wide string sets of parts 2 and 3 ------------------------------------------------------
std::string rep(size_t n, char first, char rest) {
  std::string s(n, rest);
  if (n) s[0] = first;
  return s;
}
struct Uniq {
  std::vector<std::string> v;
  std::unordered_set<std::string> seen;
  void add(const std::string &s) { if (seen.insert(s).second) v.push_back(s); }
};

// Both sets list the hand-picked forms and the boundary lengths first (g_*_forms entries), the byte sweeps after them.
size_t g_key_forms = 0, g_value_forms = 0;

const std::vector<std::string> &wide_keys() {
  static Uniq u;
  if (!u.v.empty()) return u.v;
  // forms: every key character besides letters/digits and its ASCII neighbours, vendor@tenant shapes
  for (const char *s : {"a", "z", "az09", "a_-*/z", "a_", "a-", "a*", "a/", "a.b", "a+b", "a:b", "a{", "a`", "a,", "a~", "_a", "-a", "*a", "/a", "0", "9", "1a",
                        "a@b", "1a@b", "a@1", "t1@sys", "a@b_-*/", "a_-*/@b", "a@", "@", "@a", "a@b@c", "a@@b", "a@b@", "@a@b", "a@B", "A@b", "a@-b", "a@_", "a@*b",
                        "a@/b", "a b", " a", "a ", "a@ b", "a=b"})
    u.add(s);
  u.add("");
  // boundary lengths of simple keys
  for (size_t n : {255, 256, 257}) { u.add(rep(n, 'k', 'x')); u.add(rep(n, 'k', '_')); u.add(rep(n, 'z', '9')); u.add(rep(n, '0', '/')); }
  u.add(rep(255, 'k', 'x') + "*");
  u.add(rep(255, 'k', 'x') + "A");
  u.add(rep(256, 'k', 'x') + "@");
  // tenant (limit 241) x system (limit 14)
  for (size_t t : {1, 2, 240, 241, 242})
    for (size_t s : {0, 1, 13, 14, 15}) { u.add(rep(t, 't', 'x') + "@" + rep(s, 's', 'y')); u.add(rep(t, '1', '-') + "@" + rep(s, 's', '/')); }
  u.add(rep(255, 't', 'x') + "@");                      // 256 bytes, empty system id
  u.add(rep(254, 't', 'x') + "@s");                     // 256 bytes, tenant too long
  u.add("t@" + rep(254, 's', 'y'));                     // 256 bytes, system id too long
  u.add(rep(241, 't', 'x') + "@" + rep(15, 's', 'y'));  // 257 bytes
  u.add(rep(242, 't', 'x') + "@" + rep(14, 's', 'y'));  // 257 bytes
  u.add(rep(241, 't', 'x') + "@" + rep(14, '5', 'y'));  // digit-first system id at both limits
  u.add(rep(241, 't', 'x') + "@" + rep(14, '-', 'y'));
  g_key_forms = u.v.size();
  // every byte value alone, at each position of a simple key, at each position of a multi-tenant key
  for (int b = 0; b < 256; ++b) {
    u.add(std::string(1, (char)b));
    for (size_t p = 0; p < 3; ++p) { std::string s = "abc"; s[p] = (char)b; u.add(s); }
    for (size_t p = 0; p < 5; ++p) { std::string s = "t1@sy"; s[p] = (char)b; u.add(s); }
  }
  return u.v;
}

const std::vector<std::string> &wide_values() {
  static Uniq u;
  if (!u.v.empty()) return u.v;
  for (const char *s : {"1", "~", "!", "!~", " x", "x y", "x ", " ", "  ", "x  ", " x ", "  x", "\x7f", "\x1f", "x\x7f", "a,b", "a=b", ",", "=", "\t", "x\t", "a;b", "a@b"}) u.add(s);
  u.add("");
  u.add(std::string("a\0b", 3));
  for (size_t n : {255, 256, 257}) {
    u.add(std::string(n, 'v'));
    u.add(std::string(n, '~'));
    u.add(std::string(n, '!'));
    u.add(std::string(n - 1, 'v') + " ");  // ends in a blank
    u.add(" " + std::string(n - 1, 'v'));  // starts with a blank
    u.add(std::string(n - 1, ' ') + "v");  // all blank but the last
    u.add(std::string(n, ' '));
    u.add(std::string(n - 1, 'v') + ",");
    u.add(std::string(n - 1, 'v') + "\x7f");
  }
  g_value_forms = u.v.size();
  // every byte value alone and at each position of a three-byte value
  for (int b = 0; b < 256; ++b) {
    u.add(std::string(1, (char)b));
    for (size_t p = 0; p < 3; ++p) { std::string s = "xyz"; s[p] = (char)b; u.add(s); }
  }
  return u.v;
}

// ---- part 3: the public validators themselves -----------------------------------------------------
void run_validators(vf::Ctx &c) {
  bool is_key = c.pick("validator", 2) == 0;
  const std::vector<std::string> &set = is_key ? wide_keys() : wide_values();
  int si = c.pick(is_key ? "key" : "value", (int)set.size());
  const std::string &s = set[si];
  if (si == 0) {  // the sizes of the wide sets, once
    c.counted(is_key ? "wide_keys" : "wide_values", set.size());
    c.counted(is_key ? "wide_key_forms_and_lengths" : "wide_value_forms_and_lengths", is_key ? g_key_forms : g_value_forms);
  }
  c.stage(is_key ? "IsValidKey" : "IsValidValue");
  c.step();
  vfq::HeapStr hs(s);  // exact-size block, no terminator: a validator that reads a C string is an ASan report
  bool acc = is_key ? TS::IsValidKey(hs.view()) : TS::IsValidValue(hs.view());
  Tri t = is_key ? classify_key(s) : classify_value(s);
  c.counted(t == MUST_ACCEPT ? "validator_must_accept" : t == MUST_REJECT ? "validator_must_reject" : "validator_dont_care");
  if (t != DONT_CARE && acc != (t == MUST_ACCEPT)) {
    if (!c.report(validator_sig(is_key, s, acc), validator_msg(is_key, s, acc))) return;
    c.counted("validator_known_deviation");
  }
  // the same string inside a longer buffer: the verdict must not depend on what follows the view
  {
    std::string longer = s + (acc ? "\x01," : "a");
    vfq::HeapStr hl(longer);
    nostd::string_view slice(hl.view().data(), s.size());
    bool acc2 = is_key ? TS::IsValidKey(slice) : TS::IsValidValue(slice);
    c.check(acc2 == acc, std::string("C14:" C14_VARIANT ":") + (is_key ? "key" : "value") + "-verdict-depends-on-bytes-after-the-view",
            vf::sfmt("'%s' as an exact block: %d, as a slice of '%s': %d", vfq::printable(s, 40).c_str(), (int)acc, vfq::printable(longer, 44).c_str(), (int)acc2));
  }
#ifdef C14_NOREGEX
  {
    // both variants on the same string. A disagreement outside the don't-care set is necessarily a deviation of one
    // of them from the reference (reported by its own harness); inside it is only counted.
    bool rx = is_key ? TraceState::IsValidKey(hs.view()) : TraceState::IsValidValue(hs.view());
    c.counted(rx == acc ? "variants_agree" : t == DONT_CARE ? "variants_disagree_dont_care" : "variants_disagree");
  }
#endif
  c.state(std::string(is_key ? "vk|" : "vv|") + (acc ? "1|" : "0|") + s);
  c.outcome(std::string(is_key ? "key " : "value ") + (acc ? "accepted " : "rejected ") + (t == MUST_ACCEPT ? "valid" : t == MUST_REJECT ? "invalid" : "digit-first"));
  if (s.size() < 12) c.sample(std::string(is_key ? "IsValidKey('" : "IsValidValue('") + vfq::printable(s) + "') => " + (acc ? "true" : "false"));
}

// ---- part 2: one Set over the wide sets, with fixed observers ----------------------------------
void run_single(vf::Ctx &c) {
  static const std::vector<int> starts_q = {0, 2}, starts_t = {0, 1, 2, 3};
  static const std::vector<std::string> pk_q = {"a"}, pk_t = {"a", "t1@sys", "k05"}, pv_q = {"1"}, pv_t = {"1", "x y", std::string(256, 'v')};
  int which = c.pick_from("start", c.thorough() ? starts_t : starts_q);
  bool wide_key = c.pick("wide", 2) == 0;
  std::string k, v;
  // quick tier: the byte sweeps run on the empty start state only (what a validator says does not depend on the
  // receiver); the forms and boundary lengths run on every start state
  bool all = c.thorough() || which == 0;
  const std::vector<std::string> &wk = wide_keys(), &wv = wide_values();  // (these calls set g_key_forms / g_value_forms)
  if (wide_key) { k = wk[c.pick("key", (int)(all ? wk.size() : g_key_forms))]; v = c.pick_from("value", c.thorough() ? pv_t : pv_q); }
  else { v = wv[c.pick("value", (int)(all ? wv.size() : g_value_forms))]; k = c.pick_from("key", c.thorough() ? pk_t : pk_q); }
  std::vector<std::string> probe = {k, "k00", "k0", "k30", "k31"};
  List start = start_state(which);
  if (wide_key) {
    // the key alone on the start state: Get, Delete of an absent (or invalid) key
    Sess t(c, start);
    t.get(probe);
    t.del(k);
    t.get(probe);
    c.state("s1|" + header_of(entries(*t.cur)));
  }
  Sess s(c, start);
  s.set(k, v);
  if (s.left_model) return;
  s.get(probe);
  s.roundtrip();
  s.get(probe);
  c.state("s2|" + header_of(entries(*s.cur)));
  std::string mid = header_of(s.model);
  s.del(k);
  s.get(probe);
  s.roundtrip();
  c.state("s3|" + header_of(entries(*s.cur)));
  c.outcome(mid + " / " + header_of(s.model));
  if (k.size() < 12 && v.size() < 12) c.sample(s.hist + " => " + show(s.model));
}

void run(vf::Ctx &c) {
  try {
    switch (g_only_part >= 0 ? g_only_part : c.pick("part", 4)) {
      case 0: run_histories(c); break;
      case 1: run_headers(c); break;
      case 2: run_single(c); break;
      default: run_validators(c); break;  // (last: the work queue hands out the last alternative first, so the most precise signatures come first)
    }
  } catch (KnownDeviation &) {
    // a listed known finding of the variant's validator ended this execution
  }
}

}  // namespace

VF_MAIN(C14_HARNESS, "C14", setup, run)
