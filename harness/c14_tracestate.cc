// C14: TraceState stays a valid, duplicate-free W3C list under every update (Engine B).
// Every history of Set/Delete/Get/round-trip up to a depth bound, from several start states, on the
// real TraceState in lock-step with an ordered-list reference model; plus a deviation-bounded
// header generator for FromHeader.
#include <opentelemetry/trace/trace_state.h>

#include "seq/vf_seq.h"

using opentelemetry::trace::TraceState;
namespace nostd = opentelemetry::nostd;

namespace {

using List = std::vector<std::pair<std::string, std::string>>;

// ---- independent W3C validity predicates (not calling IsValidKey/IsValidValue) ----------------
bool lc(char c) { return c >= 'a' && c <= 'z'; }
bool dg(char c) { return c >= '0' && c <= '9'; }
bool kc(char c) { return lc(c) || dg(c) || c == '_' || c == '-' || c == '*' || c == '/'; }
// level: 1 = W3C Trace Context level 1 (keys start with a letter), 2 = level 2 (a digit may lead)
bool simple_key(const std::string &k, int level, size_t maxlen) {
  if (k.empty() || k.size() > maxlen) return false;
  if (!(lc(k[0]) || (level == 2 && dg(k[0])))) return false;
  for (char c : k) if (!kc(c)) return false;
  return true;
}
bool valid_key(const std::string &k, int level) {
  size_t at = k.find('@');
  if (at == std::string::npos) return simple_key(k, level, 256);
  std::string tenant = k.substr(0, at), system = k.substr(at + 1);
  if (tenant.empty() || tenant.size() > 241 || !(lc(tenant[0]) || dg(tenant[0]))) return false;
  for (char c : tenant) if (!kc(c)) return false;
  return simple_key(system, level, 14);
}
bool valid_value(const std::string &v) {
  if (v.empty() || v.size() > 256) return false;
  for (unsigned char c : v) if (c < 0x20 || c > 0x7e || c == ',' || c == '=') return false;
  return v.back() != ' ';
}
enum Tri { MUST_ACCEPT, MUST_REJECT, DONT_CARE };
Tri classify_key(const std::string &k) { return valid_key(k, 1) ? MUST_ACCEPT : valid_key(k, 2) ? DONT_CARE : MUST_REJECT; }
Tri classify_value(const std::string &v) { return valid_value(v) ? MUST_ACCEPT : MUST_REJECT; }

List entries(const TraceState &ts) {
  List l;
  ts.GetAllEntries([&](nostd::string_view k, nostd::string_view v) noexcept {
    l.emplace_back(std::string(k.data(), k.size()), std::string(v.data(), v.size()));
    return true;
  });
  return l;
}
std::string header_of(const List &l) {
  std::string h;
  for (size_t i = 0; i < l.size(); ++i) h += (i ? "," : "") + l[i].first + "=" + l[i].second;
  return h;
}
std::string show(const List &l) { return "{" + vfq::printable(header_of(l), 120) + "}"; }

std::vector<std::string> g_keys, g_values;

void check_valid(vf::Ctx &c, const List &l, const char *after, bool dup_check = true) {
  c.check(l.size() <= 32, "C14:more-than-32-members", vf::sfmt("%zu members after %s", l.size(), after));
  for (size_t i = 0; i < l.size(); ++i) {
    c.check(classify_key(l[i].first) != MUST_REJECT, "C14:invalid-key-stored", vf::sfmt("after %s the state holds the invalid key '%s'", after, vfq::printable(l[i].first).c_str()));
    c.check(classify_value(l[i].second) != MUST_REJECT, "C14:invalid-value-stored", vf::sfmt("after %s the state holds the invalid value '%s'", after, vfq::printable(l[i].second).c_str()));
    for (size_t j = 0; dup_check && j < i; ++j)
      if (l[j].first == l[i].first) {
        c.check(false, "C14:duplicate-key", vf::sfmt("after %s the key '%s' occurs twice: %s", after, vfq::printable(l[i].first).c_str(), show(l).c_str()));
      }
  }
}

void setup(vf::Options &o) {
  o.split_depth = 2;
  o.deadline_s = o.thorough ? 900 : 100;
  o.table_bits = 22;
  std::string k256 = "k" + std::string(255, 'x'), k257 = "k" + std::string(256, 'x');
  // "k0" and "ab" are proper prefixes / extensions of other keys in play ("k00".."k09", "a"): lookups must
  // compare whole keys (an independently seeded change made GetValue match on a prefix)
  g_keys = {"a", "b", "ab", "k0", "t1@sys", k256, "k05", /* invalid: */ "A", "", k257, "@x", "a b"};
  std::string v256(256, 'v'), v257(257, 'v');
  g_values = {"1", "2", v256, "x y", /* invalid: */ "x ", "a,b", "a=b", "", v257, std::string("a\0b", 3)};
  if (!o.thorough) { g_keys = {"a", "ab", "k0", "t1@sys", "k05", k256, "A", "", k257}; g_values = {"1", "2", v256, "x ", "a,b", ""}; }
}

List start_state(int which) {
  List l;
  int n = which == 0 ? 0 : which == 1 ? 1 : which == 2 ? 31 : 32;
  for (int i = 0; i < n; ++i) l.emplace_back(vf::sfmt("k%02d", i), vf::sfmt("v%d", i));
  return l;
}

void run_histories(vf::Ctx &c) {
  int which = c.pick("start", 4);
  List model = start_state(which);
  c.stage("FromHeader(start)");
  std::string h0 = header_of(model);
  vfq::HeapStr hs(h0);
  nostd::shared_ptr<TraceState> cur = TraceState::FromHeader(hs.view());
  c.check(entries(*cur) == model, "C14:parse-start", "start state not parsed as written: " + show(entries(*cur)) + " vs " + show(model));
  int depth = c.thorough() ? 4 : 3;
  std::string hist = vf::sfmt("start%zu", model.size());
  for (int d = 0; d < depth; ++d) {
    {
      vf::H128 h; h.add(0xc14); h.add((uint64_t)d); h.add_str(header_of(entries(*cur)));
      c.prune_point(h);  // complete: a TraceState is an immutable value, its future depends on its entries only
    }
    int op = c.pick("op", 4);
    List before = model;
    nostd::shared_ptr<TraceState> prev = cur;
    c.step();
    if (op == 0) {  // Set
      std::string k = c.pick_from("key", g_keys), v = c.pick_from("value", g_values);
      hist += " Set(" + vfq::printable(k, 12) + "," + vfq::printable(v, 12) + ")";
      c.stage("Set");
      vfq::HeapStr hk(k), hv(v);
      nostd::shared_ptr<TraceState> next = cur->Set(hk.view(), hv.view());
      hk.scribble(); hv.scribble();  // the result must own its strings
      List got = entries(*next);
      Tri tk = classify_key(k), tv = classify_value(v);
      if (tk == MUST_REJECT || tv == MUST_REJECT) {
        c.check(got.empty(), "C14:set-invalid-not-default", "Set with an invalid key or value did not yield the empty default state: " + show(got));
        model.clear();
      } else if (tk == DONT_CARE && got.empty()) {
        model.clear();  // implementation treats the level-2-only key as invalid: permitted
      } else {
        bool present = false;
        for (auto &e : model) present |= (e.first == k);
        List want;
        if (!present && model.size() >= 32) want = model;  // refused with an unchanged copy
        else {
          want.emplace_back(k, v);
          for (auto &e : model) if (e.first != k) want.push_back(e);
        }
        check_valid(c, got, "Set");
        if (got != want) {
          const char *sig = present ? (model.size() >= 32 ? "C14:set-existing-key-at-limit" : "C14:set-existing-key") : "C14:set-result";
          if (c.report(sig, vf::sfmt("Set('%s','%s') on %s gave %s, expected %s", vfq::printable(k, 20).c_str(), vfq::printable(v, 20).c_str(), show(model).c_str(),
                                     show(got).c_str(), show(want).c_str()))) {
            return;  // known finding: the real state has left the model, end this history
          }
        }
        model = want;
      }
      cur = next;
    } else if (op == 1) {  // Delete
      std::string k = c.pick_from("key", g_keys);
      hist += " Delete(" + vfq::printable(k, 12) + ")";
      c.stage("Delete");
      vfq::HeapStr hk(k);
      nostd::shared_ptr<TraceState> next = cur->Delete(hk.view());
      hk.scribble();
      List got = entries(*next);
      Tri tk = classify_key(k);
      if (tk == MUST_REJECT || (tk == DONT_CARE && got.empty() && !model.empty())) {
        c.check(got.empty(), "C14:delete-invalid-not-default", "Delete with an invalid key did not yield the empty default state: " + show(got));
        model.clear();
      } else {
        List want;
        for (auto &e : model) if (e.first != k) want.push_back(e);
        check_valid(c, got, "Delete");
        c.check(got == want, "C14:delete-result", vf::sfmt("Delete('%s') on %s gave %s", vfq::printable(k, 20).c_str(), show(model).c_str(), show(got).c_str()));
        model = want;
      }
      cur = next;
    } else if (op == 2) {  // Get on every key of the alphabet
      c.stage("Get");
      hist += " Get*";
      for (auto &k : g_keys) {
        std::string v = "unset";
        vfq::HeapStr hk(k);
        bool ok = cur->Get(hk.view(), v);
        const std::string *want = nullptr;
        for (auto &e : model) if (e.first == k) { want = &e.second; break; }
        c.check(ok == (want != nullptr), "C14:get-presence", vf::sfmt("Get('%s') on %s returned %d", vfq::printable(k, 20).c_str(), show(model).c_str(), (int)ok));
        if (want) c.check(v == *want, "C14:get-value", vf::sfmt("Get('%s') returned '%s', latest value is '%s'", vfq::printable(k, 20).c_str(), vfq::printable(v, 20).c_str(), vfq::printable(*want, 20).c_str()));
      }
    } else {  // header round trip
      c.stage("roundtrip");
      hist += " RoundTrip";
      std::string h = cur->ToHeader();
      c.check(h == header_of(model), "C14:to-header", "ToHeader gave '" + vfq::printable(h, 100) + "' for " + show(model));
      vfq::HeapStr hh(h);
      nostd::shared_ptr<TraceState> back = TraceState::FromHeader(hh.view());
      hh.scribble();
      c.check(entries(*back) == model, "C14:roundtrip", "FromHeader(ToHeader(x)) gave " + show(entries(*back)) + " for " + show(model));
      cur = back;
    }
    // the receiver is never modified
    c.check(entries(*prev) == before, "C14:receiver-modified", "the TraceState an operation was called on changed: " + show(entries(*prev)) + " was " + show(before));
    c.check(cur->Empty() == model.empty(), "C14:empty", "Empty() disagrees with the entries");
    c.state(vf::sfmt("%d|", d) + header_of(entries(*cur)));
  }
  c.outcome(header_of(model));
  c.sample(hist + " => " + show(model));
}

// ---- header side: deviation-bounded generator ---------------------------------------------------
void run_headers(vf::Ctx &c) {
  static std::vector<std::string> seeds, inputs;
  if (seeds.empty()) {
    seeds = {"", "a=1", "a=1,b=2", "ab=1,a=2", "t1@sys=v", "a=1,,b=2", "a=1, b=2", " a=1 ,b=2 ", "a=x y,b=2"};
    { List l = start_state(3); seeds.push_back(header_of(l)); l.emplace_back("k32", "v"); seeds.push_back(header_of(l)); }
    const std::string classes = std::string("a1A=,@ \t\x80;", 10) + std::string(1, '\0');
    for (auto &s : seeds) {
      inputs.push_back(s);
      if (s.size() > 60) {  // long seeds: mutate around the ends and one member boundary only
        for (auto &m : vfq::mutations(s.substr(0, 12), classes)) inputs.push_back(m + s.substr(12));
        for (auto &m : vfq::mutations(s.substr(s.size() - 8), classes)) inputs.push_back(s.substr(0, s.size() - 8) + m);
      } else {
        auto ms = vfq::mutations(s, classes);
        inputs.insert(inputs.end(), ms.begin(), ms.end());
        if (c.thorough())
          for (auto &m : ms) { auto m2 = vfq::mutations(m, "a=, "); inputs.insert(inputs.end(), m2.begin(), m2.end()); }
      }
    }
  }
  const std::string &in = inputs[c.pick("header", (int)(inputs.size() > 60000 ? 60000 : inputs.size()))];
  c.stage("FromHeader");
  vfq::HeapStr hs(in);
  nostd::shared_ptr<TraceState> ts = TraceState::FromHeader(hs.view());
  hs.scribble();
  c.step();
  List got = entries(*ts);
  // Reference: split on ',', trim blanks around members (OWS), skip empty members, each member is
  // key '=' value; any invalid member, or more than 32 members, yields the empty state.
  List want;
  bool bad = false;
  size_t members = 0;
  size_t pos = 0;
  bool dontcare = false;
  size_t empties = 0;
  while (pos <= in.size()) {
    size_t e = in.find(',', pos);
    if (e == std::string::npos) e = in.size();
    std::string m = in.substr(pos, e - pos);
    pos = e + 1;
    size_t a = m.find_first_not_of(" \t"), b = m.find_last_not_of(" \t");
    if (a == std::string::npos) { empties++; continue; }  // empty member
    if (m.find('\t') != std::string::npos) dontcare = true;  // whether a tab is optional whitespace is not stated
    m = m.substr(a, b - a + 1);
    members++;
    size_t eq = m.find('=');
    if (eq == std::string::npos) { bad = true; continue; }
    std::string k = m.substr(0, eq), v = m.substr(eq + 1);
    // blanks between key, '=' and value are not part of the grammar; implementations differ
    if ((!k.empty() && (k.back() == ' ' || k.back() == '\t')) || (!v.empty() && (v[0] == ' ' || v[0] == '\t'))) dontcare = true;
    if (classify_key(k) == MUST_REJECT || classify_value(v) == MUST_REJECT) { bad = true; continue; }
    if (classify_key(k) == DONT_CARE) dontcare = true;
    for (auto &x : want) if (x.first == k) dontcare = true;  // duplicate keys in a header: not covered by the statement
    want.emplace_back(k, v);
  }
  if (members > 32) { bad = true; }
  // Empty list members are list members in the W3C grammar: whether they count towards the limit of 32
  // is left open by the statement.
  if (members <= 32 && members + empties > 32) dontcare = true;
  // The statement promises duplicate-freedom for Set; what a header that repeats a key parses to is not stated.
  check_valid(c, got, "FromHeader", false);
  if (!dontcare) {
    if (bad) c.check(got.empty(), "C14:partial-parse", "header '" + vfq::printable(in, 100) + "' has an invalid member (or too many) but parsed to " + show(got));
    else c.check(got == want, "C14:parse-result", "header '" + vfq::printable(in, 100) + "' parsed to " + show(got) + ", expected " + show(want));
  }
  c.state("h|" + header_of(got));
  c.outcome(header_of(got));
  if (in.size() < 40) c.sample("FromHeader('" + vfq::printable(in) + "') => " + show(got));
}

void run(vf::Ctx &c) {
  if (c.pick("part", 2) == 0) run_histories(c);
  else run_headers(c);
}

}  // namespace

VF_MAIN("c14_tracestate", "C14", setup, run)
