H("c04_tsan", "C04", "tsan", ["harness/c04_tsan.cc"], sdk=["common", "version", "resource", "trace", "logs"], aux=True, real_clock=True,
  args={"quick": ["300"], "thorough": ["5000"]},
  note="free-running ThreadSanitizer pass: three threads run every span mutator (all four SDK AddEvent bodies, SetAttribute with scalar / string / array values, UpdateName, SetStatus), IsRecording / GetContext and End on ONE span, emit logs and start children (sampling; looks for unsynchronised accesses to plain memory that the cooperative scheduler cannot separate from the preceding lock operation)")
# Span::AddLink / AddLinks only exist under ABI v2: the same source (and the SDK) compiled a second time with the ABI macro redefined.
H("c04_tsan_abi2", "C04", "tsan", ["harness/c04_tsan.cc"], sdk=["common", "version", "resource", "trace", "logs"], aux=True, real_clock=True,
  cxxflags=["-UOPENTELEMETRY_ABI_VERSION_NO", "-DOPENTELEMETRY_ABI_VERSION_NO=2"],
  args={"quick": ["300"], "thorough": ["5000"]},
  note="the same free-running ThreadSanitizer pass built for ABI v2: Span::AddLink and Span::AddLinks join the rotation of operations that three threads run on ONE span")
