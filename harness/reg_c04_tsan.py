H("c04_tsan", "C04", "tsan", ["harness/c04_tsan.cc"], sdk=["common", "version", "resource", "trace", "logs"], aux=True, real_clock=True,
  args={"quick": ["300"], "thorough": ["5000"]},
  note="free-running ThreadSanitizer pass: three threads run every span mutator and End on ONE span, emit logs and start children (sampling; looks for unsynchronised accesses to plain memory that the cooperative scheduler cannot separate from the preceding lock operation)")
