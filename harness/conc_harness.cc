// Engine-A harness for the multi-threaded parts of C04, C05, C10 and C13 (--oracle selects one):
//  C04: two threads operate on ONE span (SetAttribute / AddEvent / End): what is exported must equal
//       the model applied in some order consistent with call/return order, cut at the first End.
//  C05: two threads, each with its own active-span stack: a child's parent is its own thread's span.
//  C10: two threads run attach/detach programs: each observes only its own runtime-context stack.
//  C13: two threads with different active spans emit log records: each record carries its own
//       thread's trace/span ids.
#include <opentelemetry/context/runtime_context.h>
#include <opentelemetry/logs/logger.h>
#include <opentelemetry/sdk/common/global_log_handler.h>
#include <opentelemetry/sdk/logs/exporter.h>
#include <opentelemetry/sdk/logs/logger_provider.h>
#include <opentelemetry/sdk/logs/read_write_log_record.h>
#include <opentelemetry/sdk/logs/simple_log_record_processor.h>
#include <opentelemetry/sdk/resource/resource.h>
#include <opentelemetry/sdk/trace/exporter.h>
#include <opentelemetry/sdk/trace/simple_processor.h>
#include <opentelemetry/sdk/trace/span_data.h>
#include <opentelemetry/sdk/trace/tracer_provider.h>
#include <opentelemetry/trace/default_span.h>
#include <opentelemetry/trace/scope.h>
#include <opentelemetry/trace/tracer.h>

#include "vf_core.h"

namespace nostd = opentelemetry::nostd;
namespace sdkc = opentelemetry::sdk::common;
namespace sdkt = opentelemetry::sdk::trace;
namespace sdkl = opentelemetry::sdk::logs;
namespace trace = opentelemetry::trace;
namespace context = opentelemetry::context;
using namespace std::chrono;

namespace {
std::string g_oracle;

struct SpanOut { std::string name, trace_id, span_id, parent_id, attr_k, ev; bool has_k = false; int events = 0; int status = 0; };
const int64_t kC04EventTime = 1700000000000000000ll;  // the explicit event time stamp of run_c04
struct LogOut { std::string body, trace_id, span_id; };
struct Ev { int thread, op, ret; };  // op index, ret: 0 call, 1 return
struct Shared {
  std::vector<SpanOut> spans;
  std::vector<LogOut> logs;
  std::vector<Ev> ev;
  std::atomic<int> tick{0};
  void mark(int op, int ret) { ev.push_back({vfs::self(), op, ret}); vfs::note(ret ? "ret" : "call", (uint64_t)op); }
} *g;

template <class Id> std::string hex(const Id &id) {
  char buf[2 * Id::kSize];
  id.ToLowerBase16(nostd::span<char, 2 * Id::kSize>{buf, 2 * Id::kSize});
  return std::string(buf, sizeof buf);
}
std::string str_of(const sdkc::OwnedAttributeValue &v) { return nostd::holds_alternative<std::string>(v) ? nostd::get<std::string>(v) : "?"; }

class SpanExporter final : public sdkt::SpanExporter {
 public:
  std::unique_ptr<sdkt::Recordable> MakeRecordable() noexcept override { return std::unique_ptr<sdkt::Recordable>(new sdkt::SpanData()); }
  sdkc::ExportResult Export(const nostd::span<std::unique_ptr<sdkt::Recordable>> &batch) noexcept override {
    for (auto &r : batch) {
      auto *d = static_cast<sdkt::SpanData *>(r.get());
      SpanOut o;
      o.name = std::string(d->GetName());
      o.trace_id = hex(d->GetTraceId());
      o.span_id = hex(d->GetSpanId());
      o.parent_id = hex(d->GetParentSpanId());
      auto it = d->GetAttributes().find("k");
      if (it != d->GetAttributes().end()) { o.has_k = true; o.attr_k = str_of(it->second); }
      o.events = (int)d->GetEvents().size();
      for (auto &e : d->GetEvents()) {  // name, "@T" if it carries run_c04's explicit time stamp, its attribute k
        o.ev += e.GetName();
        if (e.GetTimestamp().time_since_epoch().count() == kC04EventTime) o.ev += "@T";
        auto ek = e.GetAttributes().find("k");
        if (ek != e.GetAttributes().end()) o.ev += "{k=" + str_of(ek->second) + "}";
        o.ev += ";";
      }
      o.status = (int)d->GetStatus();
      g->spans.push_back(o);
      vfs::note("export-span", g->spans.size());
    }
    return sdkc::ExportResult::kSuccess;
  }
  bool ForceFlush(microseconds) noexcept override { return true; }
  bool Shutdown(microseconds) noexcept override { return true; }
};

class LogExporter final : public sdkl::LogRecordExporter {
 public:
  std::unique_ptr<sdkl::Recordable> MakeRecordable() noexcept override { return std::unique_ptr<sdkl::Recordable>(new sdkl::ReadWriteLogRecord()); }
  sdkc::ExportResult Export(const nostd::span<std::unique_ptr<sdkl::Recordable>> &batch) noexcept override {
    for (auto &r : batch) {
      auto *d = static_cast<sdkl::ReadWriteLogRecord *>(r.get());
      LogOut o;
      const auto &b = d->GetBody();
      if (nostd::holds_alternative<nostd::string_view>(b)) o.body = std::string(nostd::get<nostd::string_view>(b));
      else if (nostd::holds_alternative<const char *>(b)) o.body = nostd::get<const char *>(b);
      o.trace_id = hex(d->GetTraceId());
      o.span_id = hex(d->GetSpanId());
      g->logs.push_back(o);
      vfs::note("export-log", g->logs.size());
    }
    return sdkc::ExportResult::kSuccess;
  }
  bool ForceFlush(microseconds) noexcept override { return true; }
  bool Shutdown(microseconds) noexcept override { return true; }
};

// ---------------------------------------------------------------------------------------------
// C04: ops 0: T1 SetAttribute(k,1)  1: T1 End  2: T2 SetAttribute(k,2)  3: T2 AddEvent  4: T2 End
void run_c04(vf::Ctx &c) {
  // variant bit0: T2 ends before it adds the event (late mutator on its own thread);
  // variant bit1: T1's first operation is UpdateName("renamed") instead of SetAttribute(k,1)
  // variant bit2: T2's third operation is SetStatus(kError) instead of AddEvent
  // variants 8..10: as variant 0, but T2's third operation is one of the other three SDK bodies of AddEvent (each has its own
  //   lock + "still recording" guard): 8 AddEvent(name, time)  9 AddEvent(name, attributes)  10 AddEvent(name, time, attributes)
  int variant4 = c.pick("variant", 11);
  int ev_form = variant4 >= 8 ? variant4 - 7 : 0;
  int bits = variant4 >= 8 ? 0 : variant4;
  int variant = bits & 1;
  bool rename = (bits & 2) != 0;
  bool status_op = (bits & 4) != 0;
  static const char *const kEvWant[4] = {"e;", "e1@T;", "e2{k=v};", "e3@T{k=v};"};
  {
    sdkt::TracerProvider provider(std::unique_ptr<sdkt::SpanProcessor>(new sdkt::SimpleSpanProcessor(std::unique_ptr<sdkt::SpanExporter>(new SpanExporter()))),
                                  opentelemetry::sdk::resource::Resource::GetEmpty());
    auto tracer = provider.GetTracer("t");
    auto span = tracer->StartSpan("s");
    std::thread t1([&] {
      g->mark(0, 0);
      if (rename) span->UpdateName("renamed"); else span->SetAttribute("k", "1");
      g->mark(0, 1);
      g->mark(1, 0); span->End(); g->mark(1, 1);
    });
    std::thread t2([&] {
      g->mark(2, 0); span->SetAttribute("k", "2"); g->mark(2, 1);
      if (variant == 1) { g->mark(4, 0); span->End(); g->mark(4, 1); }
      g->mark(3, 0);
      if (status_op) span->SetStatus(trace::StatusCode::kError, "failed");
      else if (ev_form == 0) span->AddEvent("e");
      else {
        opentelemetry::common::SystemTimestamp ts{std::chrono::nanoseconds(kC04EventTime)};
        std::vector<std::pair<nostd::string_view, opentelemetry::common::AttributeValue>> kv = {{"k", "v"}};
        if (ev_form == 1) span->AddEvent("e1", ts);
        else if (ev_form == 2) span->AddEvent("e2", kv);  // container helper -> Span::AddEvent(name, KeyValueIterable)
        else span->AddEvent("e3", ts, kv);                // container helper -> Span::AddEvent(name, time, KeyValueIterable)
      }
      g->mark(3, 1);
      if (variant == 0) { g->mark(4, 0); span->End(); g->mark(4, 1); }
    });
    t1.join();
    t2.join();
    span = nostd::shared_ptr<trace::Span>();
  }
  vfs::end();
  c.stage("oracle");
  if (g->spans.size() != 1) vfs::fail("C04:conc:export-count", vf::sfmt("one span was ended from two threads and exported %zu times", g->spans.size()));
  const SpanOut &o = g->spans[0];
  // brute force: some total order of the five operations that respects per-thread program order and
  // call/return order (X before Y if X returned before Y was called) must explain the exported span
  int call_at[5], ret_at[5];
  for (size_t i = 0; i < g->ev.size(); ++i) (g->ev[i].ret ? ret_at : call_at)[g->ev[i].op] = (int)i;
  int perm[5] = {0, 1, 2, 3, 4};
  bool explained = false;
  std::string tried;
  do {
    int posn[5];
    for (int i = 0; i < 5; ++i) posn[perm[i]] = i;
    bool ok = true;
    for (int x = 0; x < 5 && ok; ++x)
      for (int y = 0; y < 5 && ok; ++y)
        if (x != y && ret_at[x] < call_at[y] && posn[x] > posn[y]) ok = false;
    if (!ok) continue;
    bool has_k = false, ended = false;
    std::string k, name = "s", ev;
    int events = 0, status = (int)trace::StatusCode::kUnset;
    for (int i = 0; i < 5 && !ended; ++i) {
      switch (perm[i]) {
        case 0: if (rename) name = "renamed"; else { has_k = true; k = "1"; } break;
        case 2: has_k = true; k = "2"; break;
        case 3: if (status_op) status = (int)trace::StatusCode::kError; else { events++; ev += kEvWant[ev_form]; } break;
        default: ended = true;
      }
    }
    if (has_k == o.has_k && (!has_k || k == o.attr_k) && events == o.events && ev == o.ev && name == o.name && status == o.status) explained = true;
  } while (!explained && std::next_permutation(perm, perm + 5));
  if (!explained)
    vfs::fail("C04:conc:not-linearizable", vf::sfmt("exported span has name=%s k=%s events=%d [%s] status=%d, which no order of the calls consistent with their call/return order explains",
                                                    o.name.c_str(), o.has_k ? o.attr_k.c_str() : "(absent)", o.events, o.ev.c_str(), o.status));
  c.outcome(vf::sfmt("%d name=%s k=%s e=%d st=%d", variant4, o.name.c_str(), o.has_k ? o.attr_k.c_str() : "-", o.events, o.status));
  c.sample(vf::sfmt("variant=%d exported name=%s k=%s events=%d", variant4, o.name.c_str(), o.has_k ? o.attr_k.c_str() : "(absent)", o.events));
}

// ---------------------------------------------------------------------------------------------
void run_c05(vf::Ctx &c) {
  std::string root_trace[2], root_span[2], child_trace[2], child_span[2];
  bool current_ok[2] = {true, true};
  {
    sdkt::TracerProvider provider(std::unique_ptr<sdkt::SpanProcessor>(new sdkt::SimpleSpanProcessor(std::unique_ptr<sdkt::SpanExporter>(new SpanExporter()))),
                                  opentelemetry::sdk::resource::Resource::GetEmpty());
    auto tracer = provider.GetTracer("t");
    auto body = [&](int t) {
      auto root = tracer->StartSpan(vf::sfmt("r%d", t));
      root_trace[t] = hex(root->GetContext().trace_id());
      root_span[t] = hex(root->GetContext().span_id());
      {
        trace::Scope scope(root);
        g->tick.fetch_add(1);
        auto child = tracer->StartSpan(vf::sfmt("c%d", t));  // implicit parent: the span active on THIS thread
        child_trace[t] = hex(child->GetContext().trace_id());
        child_span[t] = hex(child->GetContext().span_id());
        if (hex(trace::Tracer::GetCurrentSpan()->GetContext().span_id()) != root_span[t]) current_ok[t] = false;
        child->End();
      }
      if (trace::Tracer::GetCurrentSpan()->GetContext().IsValid()) current_ok[t] = false;
      root->End();
    };
    std::thread t1([&] { body(0); }), t2([&] { body(1); });
    t1.join();
    t2.join();
  }
  vfs::end();
  c.stage("oracle");
  for (int t = 0; t < 2; ++t) {
    if (!current_ok[t]) vfs::fail("C05:conc:current-span", vf::sfmt("thread %d did not see its own span as the current span", t));
    if (child_trace[t] != root_trace[t]) vfs::fail("C05:conc:trace-id", vf::sfmt("thread %d: child trace id %s, own active span's trace id %s", t, child_trace[t].c_str(), root_trace[t].c_str()));
    bool found = false;
    for (auto &s : g->spans)
      if (s.name == vf::sfmt("c%d", t)) {
        found = true;
        if (s.parent_id != root_span[t]) vfs::fail("C05:conc:parent", vf::sfmt("thread %d: exported child has parent %s, its thread's active span is %s", t, s.parent_id.c_str(), root_span[t].c_str()));
      }
    if (!found) vfs::fail("C05:conc:missing", "child span not exported");
  }
  std::set<std::string> ids = {root_span[0], root_span[1], child_span[0], child_span[1]};
  if (ids.size() != 4 || ids.count(std::string(16, '0'))) vfs::fail("C05:conc:ids", "span ids are not four distinct non-zero values");
  if (root_trace[0] == root_trace[1]) vfs::fail("C05:conc:ids", "two root spans share a trace id");
  if (g->spans.size() != 4) vfs::fail("C05:conc:export-count", vf::sfmt("%zu spans exported, 4 ended", g->spans.size()));
  c.outcome("ok");
  c.sample("two threads x (root, scope, child): parents " + g->spans[0].parent_id + "," + g->spans[1].parent_id);
}

// ---------------------------------------------------------------------------------------------
// C10: programs over A(ttach own ctx i) / D(etach token j) with a scheduling point between operations
const char *const kProg[] = {"A0A1D1D0", "A0A1D0", "A0D0A1D1", "A0A0D1", "A0A1A2D1D2"};
void run_c10(vf::Ctx &c) {
  int p1 = c.pick("prog1", 5), p2 = c.pick("prog2", 5);
  std::string failure[2];
  auto body = [&](int t, const char *prog) {
    context::Context ctxs[3];
    for (int i = 0; i < 3; ++i) ctxs[i] = context::Context{"owner", (int64_t)(t * 10 + i)};
    std::vector<nostd::unique_ptr<context::Token>> tokens;
    std::vector<int> model;  // stack of context indices
    std::vector<int> token_ctx;
    auto current = [&]() -> int64_t {
      auto v = context::RuntimeContext::GetCurrent().GetValue("owner");
      return nostd::holds_alternative<int64_t>(v) ? nostd::get<int64_t>(v) : -1;
    };
    for (const char *p = prog; *p; p += 2) {
      int i = p[1] - '0';
      if (p[0] == 'A') {
        tokens.push_back(context::RuntimeContext::Attach(ctxs[i]));
        token_ctx.push_back(i);
        model.push_back(i);
      } else if (i < (int)tokens.size() && tokens[i]) {
        context::RuntimeContext::Detach(*tokens[i]);
        int ci = token_ctx[i];
        for (int k = (int)model.size() - 1; k >= 0; --k)
          if (model[k] == ci) { model.resize(k); break; }
      }
      g->tick.fetch_add(1);  // scheduling point: the other thread may run here
      int64_t want = model.empty() ? -1 : t * 10 + model.back();
      int64_t got = current();
      if (got != want && failure[t].empty()) failure[t] = vf::sfmt("thread %d after %.2s of %s: current context belongs to %lld, expected %lld", t, p, prog, (long long)got, (long long)want);
    }
    tokens.clear();
    if (current() != -1 && failure[t].empty()) failure[t] = vf::sfmt("thread %d: context left attached after all tokens were released", t);
  };
  {
    std::thread t1([&] { body(0, kProg[p1]); }), t2([&] { body(1, kProg[p2]); });
    t1.join();
    t2.join();
  }
  vfs::end();
  c.stage("oracle");
  for (int t = 0; t < 2; ++t)
    if (!failure[t].empty()) vfs::fail("C10:conc:isolation", failure[t]);
  c.outcome(vf::sfmt("%d,%d", p1, p2));
  c.sample(vf::sfmt("T1 runs %s, T2 runs %s: each saw only its own stack", kProg[p1], kProg[p2]));
}

// ---------------------------------------------------------------------------------------------
void run_c13(vf::Ctx &c) {
  int nested = c.pick("nested", 2);
  std::string want_trace[2], want_span[2];
  {
    std::vector<std::unique_ptr<sdkl::LogRecordProcessor>> procs;
    procs.emplace_back(new sdkl::SimpleLogRecordProcessor(std::unique_ptr<sdkl::LogRecordExporter>(new LogExporter())));
    sdkl::LoggerProvider provider(std::move(procs), opentelemetry::sdk::resource::Resource::GetEmpty());
    auto logger = provider.GetLogger("l", "lib");
    auto body = [&](int t) {
      uint8_t tid[16] = {0}, sid[8] = {0}, sid2[8] = {0};
      tid[0] = (uint8_t)(0xa0 + t); sid[0] = (uint8_t)(0xb0 + t); sid2[0] = (uint8_t)(0xc0 + t);
      trace::SpanContext sc(trace::TraceId(tid), trace::SpanId(sid), trace::TraceFlags(1), false);
      trace::SpanContext sc2(trace::TraceId(tid), trace::SpanId(sid2), trace::TraceFlags(1), false);
      nostd::shared_ptr<trace::Span> outer(new trace::DefaultSpan(sc)), inner(new trace::DefaultSpan(sc2));
      trace::Scope s1(outer);
      g->tick.fetch_add(1);
      if (nested) {
        trace::Scope s2(inner);
        want_trace[t] = hex(sc2.trace_id()); want_span[t] = hex(sc2.span_id());
        logger->EmitLogRecord(opentelemetry::logs::Severity::kInfo, t == 0 ? "t0" : "t1");
      } else {
        want_trace[t] = hex(sc.trace_id()); want_span[t] = hex(sc.span_id());
        logger->EmitLogRecord(opentelemetry::logs::Severity::kInfo, t == 0 ? "t0" : "t1");
      }
    };
    std::thread t1([&] { body(0); }), t2([&] { body(1); });
    t1.join();
    t2.join();
  }
  vfs::end();
  c.stage("oracle");
  if (g->logs.size() != 2) vfs::fail("C13:conc:export-count", vf::sfmt("%zu log records exported, 2 emitted", g->logs.size()));
  for (auto &l : g->logs) {
    int t = l.body == "t0" ? 0 : l.body == "t1" ? 1 : -1;
    if (t < 0) vfs::fail("C13:conc:body", "exported body '" + l.body + "'");
    if (l.trace_id != want_trace[t] || l.span_id != want_span[t])
      vfs::fail("C13:conc:correlation", vf::sfmt("record of thread %d carries trace/span %s/%s, its thread's active span is %s/%s", t, l.trace_id.c_str(), l.span_id.c_str(),
                                                 want_trace[t].c_str(), want_span[t].c_str()));
  }
  c.outcome(vf::sfmt("%d %s", nested, g->logs[0].body.c_str()));
  c.sample(vf::sfmt("nested=%d first exported=%s ids=%s/%s", nested, g->logs[0].body.c_str(), g->logs[0].trace_id.c_str(), g->logs[0].span_id.c_str()));
}

void setup(vf::Options &o) {
  opentelemetry::sdk::common::internal_log::GlobalLogHandler::SetLogLevel(opentelemetry::sdk::common::internal_log::LogLevel::None);
  g_oracle = o.get("oracle", o.property);
  o.property = g_oracle;
  o.fork_per_exec = true;
  o.split_depth = 2;
  o.horizon = 20000;
  bool th = o.thorough;
  o.cap[vf::PREEMPT] = atoi(o.get("k", th ? "4" : "3").c_str());
  o.table_bits = th ? 24 : 22;
  o.deadline_s = atof(o.get("budget", th ? "600" : "45").c_str());
}

void run(vf::Ctx &c) {
  Shared sh;
  g = &sh;
  c.stage("run");
  vfs::begin(c);
  vfs::set_post_release_points(true);  // small state spaces: also separate plain accesses from the unlock before them
  if (g_oracle == "C04") run_c04(c);
  else if (g_oracle == "C05") run_c05(c);
  else if (g_oracle == "C10") run_c10(c);
  else run_c13(c);
}
}  // namespace

VF_MAIN("conc", "C04", setup, run)
