for _p in ("C02", "C03"):
    H("reader_" + _p.lower(), _p, "sched", ["harness/reader_harness.cc"], sdk=["common"],
      repo_src=["sdk/src/metrics/export/periodic_exporting_metric_reader.cc", "sdk/src/metrics/metric_reader.cc"],
      args={"quick": ["--oracle=" + _p], "thorough": ["--oracle=" + _p, "--budget=400"]},
      what="real PeriodicExportingMetricReader/MetricReader fed by a harness MetricProducer: concurrent ForceFlush callers (timeouts zero/short/long/max), Shutdown racing them, slow/failing exporter, slow collection; oracle " + _p,
      design_ref="5/" + _p)
