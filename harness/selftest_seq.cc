// Self-test of the core: a toy harness with a planted violation on exactly one path (enabled by
// --plant), a crash on another (--crash); without them the tree of 4^3 * 2 leaves is enumerated.
#include "vf_core.h"
#include <cstdlib>
static void setup(vf::Options &o) { o.split_depth = 2; o.cap[vf::MUT] = 1; o.deadline_s = 60; }
static void run(vf::Ctx &c) {
  bool plant = c.opt().get("plant") == "1", crash = c.opt().get("crash") == "1";
  int a = c.pick("a", 4), b = c.pick("b", 4), d = c.pick("d", 4);
  bool dev = c.deviate("dev", vf::MUT);
  c.step(3);
  c.state(vf::sfmt("%d", a + b + d));
  c.outcome(vf::sfmt("%d%d%d%d", a, b, d, (int)dev));
  if (a == 0 && b == 0) c.sample(vf::sfmt("a=%d b=%d d=%d dev=%d", a, b, d, (int)dev));
  c.stage("oracle");
  c.check(!(plant && a == 2 && b == 1 && d == 3 && dev), "SELF:planted", "planted violation reached");
  if (crash && a == 3 && b == 3 && d == 0 && !dev) abort();
  // --hang=1: one path never terminates; --slow=1: one path needs ~2 s of CPU (more than --alarm=1 allows at first)
  if (c.opt().get("hang") == "1" && a == 1 && b == 2 && d == 3 && !dev) { volatile unsigned long x = 0; for (;;) x++; }
  if (c.opt().get("slow") == "1" && a == 1 && b == 2 && d == 3 && !dev) { volatile unsigned long x = 0; double t0 = vf::real_now(); while (vf::real_now() - t0 < 2.0) x++; }
}
VF_MAIN("selftest_seq", "SELF", setup, run)
