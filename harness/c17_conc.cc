// C17, concurrent part (Engine A): "a removed callback (or one whose instrument was destroyed) is never
// invoked again" while a collection is in flight on another thread.  Real MeterProvider / Meter /
// ObservableRegistry / AsyncMetricStorage under the scheduler; one pull reader collects on one thread while
// another thread removes a callback or destroys the instrument.  Oracle: no callback invocation STARTS after
// RemoveCallback (or the instrument's destruction) has returned.  (An independently seeded change made
// ObservableRegistry::Observe run the callbacks from a copy taken under the lock.)  The callbacks that stay
// registered must be invoked exactly once per collection and the final, sequential collection must carry
// their values.
// Variants 3 and 4: two readers (one cumulative, one delta) collect concurrently from two threads on one
// AsyncMetricStorage; the callback of an observable counter (variant 3) / gauge (variant 4) always reports
// the same total.  Oracle: one invocation per collection; every point the cumulative reader receives is the
// reported total; what the delta reader receives adds up to the reported total ("the difference from what
// that same reader was last given, independent of other readers' collections"); the gauge reports the value.
#include <opentelemetry/metrics/async_instruments.h>
#include <opentelemetry/metrics/observer_result.h>
#include <opentelemetry/sdk/common/global_log_handler.h>
#include <opentelemetry/sdk/metrics/meter_provider.h>
#include <opentelemetry/sdk/metrics/metric_reader.h>
#include <opentelemetry/sdk/metrics/view/view_registry.h>
#include <opentelemetry/sdk/resource/resource.h>

#include "vf_core.h"

namespace nostd = opentelemetry::nostd;
namespace sdkm = opentelemetry::sdk::metrics;
namespace metrics = opentelemetry::metrics;
using namespace std::chrono;

namespace {
class PullReader final : public sdkm::MetricReader {
  sdkm::AggregationTemporality t_;

 public:
  explicit PullReader(sdkm::AggregationTemporality t = sdkm::AggregationTemporality::kCumulative) : t_(t) {}
  sdkm::AggregationTemporality GetAggregationTemporality(sdkm::InstrumentType) const noexcept override { return t_; }
  bool OnForceFlush(microseconds) noexcept override { return true; }
  bool OnShutDown(microseconds) noexcept override { return true; }
};

struct State {
  int id;
  int entered = 0;
  bool released = false;           // set once RemoveCallback / destruction has returned: must not be entered any more
  bool entered_after_release = false;
};
struct Shared {
  std::atomic<int> tick{0};
  std::vector<std::vector<int64_t>> seen[2];  // variants 3/4: per reader, per collection: {point present, value}
} *g;

constexpr int64_t kTotal = 5;  // what the callback of variants 3/4 reports, every time

// one collection; returns the int64 value of the point of stream `name` (sum or last value), or `absent`
int64_t collect_value(sdkm::MetricReader &r, const char *name, int64_t absent) {
  int64_t v = absent;
  r.Collect([&](sdkm::ResourceMetrics &rm) {
    for (auto &sm : rm.scope_metric_data_)
      for (auto &md : sm.metric_data_) {
        if (md.instrument_descriptor.name_ != name) continue;
        for (auto &pda : md.point_data_attr_) {
          if (nostd::holds_alternative<sdkm::SumPointData>(pda.point_data)) {
            auto &sp = nostd::get<sdkm::SumPointData>(pda.point_data);
            if (nostd::holds_alternative<int64_t>(sp.value_)) v = nostd::get<int64_t>(sp.value_);
          } else if (nostd::holds_alternative<sdkm::LastValuePointData>(pda.point_data)) {
            auto &lp = nostd::get<sdkm::LastValuePointData>(pda.point_data);
            if (lp.is_lastvalue_valid_ && nostd::holds_alternative<int64_t>(lp.value_)) v = nostd::get<int64_t>(lp.value_);
          }
        }
      }
    return true;
  });
  return v;
}
constexpr int64_t kAbsent = -777;

void total_callback(metrics::ObserverResult result, void *state) {
  State *s = static_cast<State *>(state);
  s->entered++;
  vfs::note("cb-enter", (uint64_t)s->id, 0);
  if (nostd::holds_alternative<nostd::shared_ptr<metrics::ObserverResultT<int64_t>>>(result))
    nostd::get<nostd::shared_ptr<metrics::ObserverResultT<int64_t>>>(result)->Observe(kTotal);
}

// variants 3/4
void run_two_readers(vf::Ctx &c, int variant) {
  Shared sh;
  g = &sh;
  State s1{1};
  const bool gauge = variant == 4;
  c.stage("run");
  vfs::begin(c);
  vfs::set_post_release_points(true);
  {
    sdkm::MeterProvider provider(std::unique_ptr<sdkm::ViewRegistry>(new sdkm::ViewRegistry()), opentelemetry::sdk::resource::Resource::GetEmpty());
    std::shared_ptr<sdkm::MetricReader> readers[2];
    readers[0].reset(new PullReader(sdkm::AggregationTemporality::kCumulative));
    readers[1].reset(new PullReader(sdkm::AggregationTemporality::kDelta));
    for (auto &r : readers) provider.AddMetricReader(r);
    auto meter = provider.GetMeter("m", "1");
    auto inst = gauge ? meter->CreateInt64ObservableGauge("t") : meter->CreateInt64ObservableCounter("t");
    inst->AddCallback(total_callback, &s1);
    std::vector<std::thread> ts;
    for (int r = 0; r < 2; ++r)
      ts.emplace_back([&, r] {
        int64_t v = collect_value(*readers[r], "t", kAbsent);
        g->seen[r].push_back({v});
        vfs::note("collected", (uint64_t)r, (uint64_t)v);
      });
    for (auto &t : ts) t.join();
    for (int r = 0; r < 2; ++r) g->seen[r].push_back({collect_value(*readers[r], "t", kAbsent)});  // quiescent final collection per reader
  }
  vfs::end();
  c.stage("oracle");
  if (s1.entered != 4)
    vfs::fail("C17:conc:registered-callback-invocations", vf::sfmt("variant %d: the registered callback was invoked %d times in 4 collections (two of them concurrent)", variant, s1.entered));
  std::string outcome;
  for (int r = 0; r < 2; ++r) {
    int64_t sum = 0;
    for (auto &v : sh.seen[r]) {
      outcome += v[0] == kAbsent ? std::string("-,") : vf::sfmt("%lld,", (long long)v[0]);
      if (gauge || r == 0) {
        // gauge (either temporality) / cumulative sum: the callback reported kTotal in this very collection
        if (v[0] != kTotal)
          vfs::fail(gauge ? "C17:conc:gauge-not-observed-value" : "C17:conc:cumulative-not-reported-total",
                    vf::sfmt("variant %d, reader %d (%s): a collection that ran concurrently with the other reader's %s, the callback reported %lld", variant, r, r == 0 ? "cumulative" : "delta",
                             v[0] == kAbsent ? "produced no point" : vf::sfmt("produced %lld", (long long)v[0]).c_str(), (long long)kTotal));
      } else if (v[0] != kAbsent) {
        sum += v[0];
      }
    }
    if (!gauge && r == 1 && sum != kTotal)
      vfs::fail("C17:conc:delta-does-not-add-up-to-reported-total",
                vf::sfmt("variant %d, delta reader: its collections (%s) add up to %lld, the callback reported the total %lld every time", variant, outcome.c_str(), (long long)sum, (long long)kTotal));
    outcome += "|";
  }
  c.outcome(vf::sfmt("%d: ", variant) + outcome);
  c.sample(vf::sfmt("variant=%d (%s, cumulative + delta reader collecting concurrently): callback invoked %d times, per-reader collections %s", variant, gauge ? "gauge" : "counter", s1.entered, outcome.c_str()));
}

void callback(metrics::ObserverResult result, void *state) {
  State *s = static_cast<State *>(state);
  if (s->released) s->entered_after_release = true;
  s->entered++;
  vfs::note("cb-enter", (uint64_t)s->id, (uint64_t)s->released);
  g->tick.fetch_add(1);  // a scheduling point inside the callback: the pass can be interrupted here
  if (nostd::holds_alternative<nostd::shared_ptr<metrics::ObserverResultT<int64_t>>>(result))
    nostd::get<nostd::shared_ptr<metrics::ObserverResultT<int64_t>>>(result)->Observe(s->id);
}

void setup(vf::Options &o) {
  opentelemetry::sdk::common::internal_log::GlobalLogHandler::SetLogLevel(opentelemetry::sdk::common::internal_log::LogLevel::None);
  o.fork_per_exec = true;
  o.split_depth = 2;
  o.horizon = 30000;
  bool th = o.thorough;
  o.cap[vf::PREEMPT] = atoi(o.get("k", th ? "3" : "2").c_str());
  o.table_bits = th ? 24 : 22;
  o.deadline_s = atof(o.get("budget", th ? "400" : "45").c_str());
}

void run(vf::Ctx &c) {
  // 0: RemoveCallback of the second callback of one instrument; 1: RemoveCallback on a second instrument;
  // 2: destruction of the second instrument (its last handle)
  // 3, 4: two readers collecting concurrently (counter, gauge), see run_two_readers
  int variant = c.pick("variant", 5);
  if (variant >= 3) { run_two_readers(c, variant); return; }
  int collections = 1 + c.pick("collections", 2);
  Shared sh;
  g = &sh;
  State s1{1}, s2{2};
  int64_t final_g1 = kAbsent;
  c.stage("run");
  vfs::begin(c);
  vfs::set_post_release_points(true);
  {
    sdkm::MeterProvider provider(std::unique_ptr<sdkm::ViewRegistry>(new sdkm::ViewRegistry()), opentelemetry::sdk::resource::Resource::GetEmpty());
    std::shared_ptr<sdkm::MetricReader> reader(new PullReader());
    provider.AddMetricReader(reader);
    auto meter = provider.GetMeter("m", "1");
    auto g1 = meter->CreateInt64ObservableGauge("g1");
    auto g2 = variant == 0 ? g1 : meter->CreateInt64ObservableGauge("g2");
    g1->AddCallback(callback, &s1);
    g2->AddCallback(callback, &s2);
    std::thread collector([&] {
      for (int i = 0; i < collections; ++i) {
        reader->Collect([](sdkm::ResourceMetrics &) { return true; });
        vfs::note("collected", (uint64_t)i);
      }
    });
    std::thread remover([&] {
      if (variant == 2) {
        g2 = nostd::shared_ptr<metrics::ObservableInstrument>();  // last handle: the instrument is destroyed
      } else {
        g2->RemoveCallback(callback, &s2);
      }
      s2.released = true;
      vfs::note("released", 2);
    });
    collector.join();
    remover.join();
    // a later, sequential collection must not invoke it either, and reports the value of the callback that is left
    final_g1 = collect_value(*reader, "g1", kAbsent);
  }
  vfs::end();
  c.stage("oracle");
  if (final_g1 != 1)
    vfs::fail("C17:conc:gauge-not-observed-value", vf::sfmt("variant %d: the final collection %s for gauge g1, its callback reported 1", variant,
                                                            final_g1 == kAbsent ? "has no point" : vf::sfmt("reports %lld", (long long)final_g1).c_str()));
  if (s2.entered_after_release)
    vfs::fail(variant == 2 ? "C17:conc:callback-invoked-after-instrument-destroyed" : "C17:conc:callback-invoked-after-remove",
              vf::sfmt("variant %d: the callback was entered after %s had returned (%d invocations in total)", variant, variant == 2 ? "the instrument's destruction" : "RemoveCallback", s2.entered));
  if (s1.entered != collections + 1)
    vfs::fail("C17:conc:registered-callback-invocations", vf::sfmt("the callback that stayed registered was invoked %d times in %d collections", s1.entered, collections + 1));
  c.outcome(vf::sfmt("%d.%d: cb2 entered %d", variant, collections, s2.entered));
  c.sample(vf::sfmt("variant=%d collections=%d: remaining callback %d invocations, removed callback %d (none after release)", variant, collections, s1.entered, s2.entered));
}
}  // namespace

VF_MAIN("c17_conc", "C17", setup, run)
