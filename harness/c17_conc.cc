// C17, concurrent part (Engine A): "a removed callback (or one whose instrument was destroyed) is never
// invoked again" while a collection is in flight on another thread.  Real MeterProvider / Meter /
// ObservableRegistry / AsyncMetricStorage under the scheduler; one pull reader collects on one thread while
// another thread removes a callback or destroys the instrument.  Oracle: no callback invocation STARTS after
// RemoveCallback (or the instrument's destruction) has returned.  (An independently seeded change made
// ObservableRegistry::Observe run the callbacks from a copy taken under the lock.)
#include <opentelemetry/metrics/async_instruments.h>
#include <opentelemetry/metrics/observer_result.h>
#include <opentelemetry/sdk/common/global_log_handler.h>
#include <opentelemetry/sdk/metrics/meter_provider.h>
#include <opentelemetry/sdk/metrics/metric_reader.h>
#include <opentelemetry/sdk/metrics/view/view_registry.h>
#include <opentelemetry/sdk/resource/resource.h>

#include "vf_core.h"

namespace nostd = opentelemetry::nostd;
namespace sdkm = opentelemetry::sdk::metrics;
namespace metrics = opentelemetry::metrics;
using namespace std::chrono;

namespace {
class PullReader final : public sdkm::MetricReader {
 public:
  sdkm::AggregationTemporality GetAggregationTemporality(sdkm::InstrumentType) const noexcept override { return sdkm::AggregationTemporality::kCumulative; }
  bool OnForceFlush(microseconds) noexcept override { return true; }
  bool OnShutDown(microseconds) noexcept override { return true; }
};

struct State {
  int id;
  int entered = 0;
  bool released = false;           // set once RemoveCallback / destruction has returned: must not be entered any more
  bool entered_after_release = false;
};
struct Shared { std::atomic<int> tick{0}; } *g;

void callback(metrics::ObserverResult result, void *state) {
  State *s = static_cast<State *>(state);
  if (s->released) s->entered_after_release = true;
  s->entered++;
  vfs::note("cb-enter", (uint64_t)s->id, (uint64_t)s->released);
  g->tick.fetch_add(1);  // a scheduling point inside the callback: the pass can be interrupted here
  if (nostd::holds_alternative<nostd::shared_ptr<metrics::ObserverResultT<int64_t>>>(result))
    nostd::get<nostd::shared_ptr<metrics::ObserverResultT<int64_t>>>(result)->Observe(s->id);
}

void setup(vf::Options &o) {
  opentelemetry::sdk::common::internal_log::GlobalLogHandler::SetLogLevel(opentelemetry::sdk::common::internal_log::LogLevel::None);
  o.fork_per_exec = true;
  o.split_depth = 2;
  o.horizon = 30000;
  bool th = o.thorough;
  o.cap[vf::PREEMPT] = atoi(o.get("k", th ? "3" : "2").c_str());
  o.table_bits = th ? 24 : 22;
  o.deadline_s = atof(o.get("budget", th ? "400" : "45").c_str());
}

void run(vf::Ctx &c) {
  // 0: RemoveCallback of the second callback of one instrument; 1: RemoveCallback on a second instrument;
  // 2: destruction of the second instrument (its last handle)
  int variant = c.pick("variant", 3);
  int collections = 1 + c.pick("collections", 2);
  Shared sh;
  g = &sh;
  State s1{1}, s2{2};
  c.stage("run");
  vfs::begin(c);
  vfs::set_post_release_points(true);
  {
    sdkm::MeterProvider provider(std::unique_ptr<sdkm::ViewRegistry>(new sdkm::ViewRegistry()), opentelemetry::sdk::resource::Resource::GetEmpty());
    std::shared_ptr<sdkm::MetricReader> reader(new PullReader());
    provider.AddMetricReader(reader);
    auto meter = provider.GetMeter("m", "1");
    auto g1 = meter->CreateInt64ObservableGauge("g1");
    auto g2 = variant == 0 ? g1 : meter->CreateInt64ObservableGauge("g2");
    g1->AddCallback(callback, &s1);
    g2->AddCallback(callback, &s2);
    std::thread collector([&] {
      for (int i = 0; i < collections; ++i) {
        reader->Collect([](sdkm::ResourceMetrics &) { return true; });
        vfs::note("collected", (uint64_t)i);
      }
    });
    std::thread remover([&] {
      if (variant == 2) {
        g2 = nostd::shared_ptr<metrics::ObservableInstrument>();  // last handle: the instrument is destroyed
      } else {
        g2->RemoveCallback(callback, &s2);
      }
      s2.released = true;
      vfs::note("released", 2);
    });
    collector.join();
    remover.join();
    // a later, sequential collection must not invoke it either
    reader->Collect([](sdkm::ResourceMetrics &) { return true; });
  }
  vfs::end();
  c.stage("oracle");
  if (s2.entered_after_release)
    vfs::fail(variant == 2 ? "C17:conc:callback-invoked-after-instrument-destroyed" : "C17:conc:callback-invoked-after-remove",
              vf::sfmt("variant %d: the callback was entered after %s had returned (%d invocations in total)", variant, variant == 2 ? "the instrument's destruction" : "RemoveCallback", s2.entered));
  if (s1.entered != collections + 1)
    vfs::fail("C17:conc:registered-callback-invocations", vf::sfmt("the callback that stayed registered was invoked %d times in %d collections", s1.entered, collections + 1));
  c.outcome(vf::sfmt("%d.%d: cb2 entered %d", variant, collections, s2.entered));
  c.sample(vf::sfmt("variant=%d collections=%d: remaining callback %d invocations, removed callback %d (none after release)", variant, collections, s1.entered, s2.entered));
}
}  // namespace

VF_MAIN("c17_conc", "C17", setup, run)
