// C18 (b): the environment readers parse totally (Engine B, input enumeration).
// Every string of per-reader generators (grammar-directed seeds plus all single and restricted double - thorough: all double -
// point mutations) is put into the environment and read through the real Get*EnvironmentVariable
// functions, crossed with the environment answer "errno on entry" in {0, ERANGE}. A three-valued
// reference classifies each string as documented syntax (must be accepted with the exact value),
// libc leniency (don't-care: exact value or default) or anything else (must yield the default).
#include <cerrno>
#include <charconv>
#include <chrono>
#include <cmath>
#include <cstdlib>
#include <fcntl.h>
#include <limits>
#include <map>
#include <set>
#include <sys/syscall.h>
#include <sys/wait.h>
#include <unistd.h>

#include <opentelemetry/sdk/common/disabled.h>
#include <opentelemetry/sdk/common/env_variables.h>
#include <opentelemetry/sdk/common/global_log_handler.h>

#include "seq/vf_seq.h"

namespace sdkcommon = opentelemetry::sdk::common;
namespace nostd     = opentelemetry::nostd;

namespace {

const char *kVar = "VF_C18_VARIABLE";
typedef unsigned __int128 u128;

struct Input {
  bool set;
  std::string s;
};
std::string show(const Input &in) { return in.set ? "'" + vfq::printable(in.s, 60) + "'" : std::string("<unset>"); }

bool g_thorough = false;
std::map<const void *, std::set<std::string>> g_seen;  // per list: strings already added
void add(std::vector<Input> &v, const std::string &s) {
  if (s.find('\0') != std::string::npos) return;  // cannot be put into the environment
  if (!g_seen[&v].insert(s).second) return;
  v.push_back({true, s});
}
// wide lists are picked in two levels (a pick has at most 60000 alternatives)
const Input &pick_input(vf::Ctx &c, const std::vector<Input> &v) {
  const size_t kChunk = 50000;
  size_t chunks = (v.size() + kChunk - 1) / kChunk;
  size_t ch = chunks > 1 ? (size_t)c.pick("chunk", (int)chunks) : 0;
  size_t n = ch + 1 < chunks ? kChunk : v.size() - ch * kChunk;
  return v[ch * kChunk + (size_t)c.pick("input", (int)n)];
}
// all single point mutations of `seed`, each followed by every second point mutation over the small class set
// `classes2` (thorough, seeds of at most 4 bytes: over the full class set); twice = false: single mutations only
void add_mut(std::vector<Input> &v, const std::string &seed, const std::string &classes, bool twice, const std::string &classes2) {
  for (auto &m : vfq::mutations(seed, classes)) {
    add(v, m);
    if (twice)
      for (auto &m2 : vfq::mutations(m, g_thorough && seed.size() <= 4 ? classes : classes2)) add(v, m2);
  }
}
bool is_sp(char c) { return c == ' ' || c == '\t' || c == '\n' || c == '\v' || c == '\f' || c == '\r'; }
bool is_dg(char c) { return c >= '0' && c <= '9'; }
bool all_digits(const std::string &s) {
  if (s.empty()) return false;
  for (char c : s) if (!is_dg(c)) return false;
  return true;
}
// value of a digit string; false if it does not fit 128 bits
bool to_u128(const std::string &digits, u128 *out) {
  size_t i = 0;
  while (i + 1 < digits.size() && digits[i] == '0') ++i;
  if (digits.size() - i > 38) return false;
  u128 v = 0;
  for (; i < digits.size(); ++i) v = v * 10 + (unsigned)(digits[i] - '0');
  *out = v;
  return true;
}
// [space]* [+-]? rest   (what strtoull/strtof skip before the number)
void split_lenient(const std::string &s, bool *lead, char *sign, std::string *rest) {
  size_t i = 0;
  while (i < s.size() && is_sp(s[i])) ++i;
  *lead = i > 0;
  *sign = 0;
  if (i < s.size() && (s[i] == '+' || s[i] == '-')) *sign = s[i++];
  *rest = s.substr(i);
}
std::string ci_lower(std::string s) {
  for (char &c : s) if (c >= 'A' && c <= 'Z') c = (char)(c - 'A' + 'a');
  return s;
}

std::vector<Input> g_bool, g_uint, g_dur, g_float, g_str;

void build_inputs(bool thorough) {
  g_thorough = thorough;
  // ---- booleans: every letter case of the two words, junk, mutations -------------------------
  g_bool.push_back({false, ""});
  add(g_bool, "");
  for (const char *w : {"true", "false"}) {
    std::string word = w;
    for (unsigned m = 0; m < (1u << word.size()); ++m) {
      std::string x = word;
      for (size_t i = 0; i < word.size(); ++i) if (m & (1u << i)) x[i] = (char)(x[i] - 'a' + 'A');
      add(g_bool, x);
    }
    add_mut(g_bool, word, "tT1 \x80", true, "e ");
  }
  for (const char *j : {" ", "1", "0", "yes", "no", "on", "off", "t", "f", "truefalse", "true,false", "true\n", "\ttrue", "TRUE ", "tr ue", "\xff", "enabled"}) add(g_bool, j);

  // ---- unsigned ------------------------------------------------------------------------------
  g_uint.push_back({false, ""});
  for (const char *j : {"", "0", "1", "42", "007", "4294967295", "4294967296", "4294967297", "04294967295", "18446744073709551615", "18446744073709551616",
                        "9999999999999999999999999", "0000000000000000000000042", "+1", "-1", "-0", "+0", "+4294967295", "+4294967296", " 1", "\t1", "\n42", "1 ", "1\n", " ", "+", "-",
                        "--1", "+-1", "+ 1", "0x10", "0X1F", "0x", "1e3", "1.0", "1,000", "1_000", "abc", "12abc", "4294967295x", "-18446744073709551615", "-18446744073709551614",
                        "-18446744069414584321", "-18446744069414584320", "-18446744073709551616", "-4294967295", "\xd9\xa1\xd9\xa2", "\xff" "1", "1\xff", "٣"})
    add(g_uint, j);
  add_mut(g_uint, "42", "09 +-xa.\x80", true, "0 -");
  add_mut(g_uint, "4294967295", "09 +-x\x80", true, "0 -");
  add_mut(g_uint, "18446744073709551615", "09-", false, "");

  // ---- durations -----------------------------------------------------------------------------
  g_dur.push_back({false, ""});
  add(g_dur, "");
  const char *units[] = {"ns", "us", "ms", "s", "m", "h", ""};
  const char *counts[] = {"0", "1", "5", "007", "000", "1000", "2147483647", "4294967296", "2562047", "2562048", "3000000", "153722867", "153722868", "9223372036", "9223372037",
                          "9223372036854", "9223372036855", "9223372036854775", "9223372036854776", "922337203685477580", "9223372036854775807", "9223372036854775808",
                          "9223372036854775809", "18446744073709551615", "18446744073709551616", "18446744073709551621", "99999999999999999999999", "9999999999999999999999999",
                          "0000000000000000000000005"};
  for (auto cn : counts)
    for (auto u : units) add(g_dur, std::string(cn) + u);
  for (const char *j : {" 5s", "\t5s", "5 s", "5s ", "5 ", " 5", "5\ts", "\n5s", "+5s", "-5s", "+5", "-5", "-0s", "+0s", "- 5s", "5x", "5sec", "5S", "5MS", "5Ms", "5mS", "5 ms", "5d", "5hh", "5ms5",
                        "5.5s", "5,5s", "5e3s", "0x5s", "s", "ms", "h", " ", "5\xc2\xb5s", "5n", "5u", "5nss", "5sm", "5s\n", "\xff", "5\xff", "1h30m", "1:30", "ms5"})
    add(g_dur, j);
  add_mut(g_dur, "15ms", "09 +-smx.\x80", true, "0 s");
  add_mut(g_dur, "20s", "09 +-smhx\x80", true, "0 s");
  for (const char *j : {"9223372036854775806ns", "9223372036854775799ns", "19223372036854775807ns", "92233720368547758070ns", "2562047h ", "25620470h", "02562047h"}) add(g_dur, j);

  // ---- floats ----------------------------------------------------------------------------------
  g_float.push_back({false, ""});
  std::string big39 = "1" + std::string(39, '0'), tiny = "0." + std::string(50, '0') + "1";
  for (const char *j : {"", "0", "1", "0.5", "3.25", "100", "0.1", "0.25", "16777217", "340282346638528859811704183484516925440", "340282366920938463463374607431768211456",
                        "0.00000000000000000000000000000000000001", "0.000000000000000000000000000000000000011754944", "1e3", "1E3", "1e+3", "1e-3", "-1", "+1", "-0", "-0.5", " 1", "1 ", "\t1",
                        "1f", "1.0f", "1..0", "1,5", ".5", "5.", ".", "e3", "1e", "1e+", "0x10", "0x1p3", "0x", "inf", "INF", "-inf", "+inf", "infinity", "infinit", "nan", "NAN", "-nan",
                        "nan(123)", "nanx", "in", "1e39", "1e-50", "-1e39", "1e38", "3.5e38", "abc", "1abc", "--1", "+-1", " ", "+", "-", "\xff", "1\xff", "1e3e3", "1d3", "0.5.5", "1 2"})
    add(g_float, j);
  add(g_float, big39);
  add(g_float, tiny);
  add_mut(g_float, "0.5", "09. e-+x\x80", true, "0.e");
  add_mut(g_float, "12.5", "09. e-+x\x80", true, "0.e");

  // ---- strings -----------------------------------------------------------------------------------
  g_str.push_back({false, ""});
  for (const char *j : {"", "x", " ", "a b", "a=b,c=d", "  lead", "trail  ", "\t", "\xff\xfe", "=", ",", "true", "0", "http://host:4317/v1/traces?x=%20"}) add(g_str, j);
  add(g_str, std::string(300, 'z'));
  add(g_str, std::string(70000, 'q'));
}

const char *errs(int e) { return e ? "ERANGE" : "0"; }

// ---- GetBoolEnvironmentVariable / GetSdkDisabled ---------------------------------------------------
void run_bool(vf::Ctx &c, bool via_disabled) {
  const Input &in = pick_input(c, g_bool);
  int e = c.pick("errno", 2);
  std::string lc = ci_lower(in.s);
  bool is_true = in.set && lc == "true", is_false = in.set && lc == "false";
  if (in.set) setenv(via_disabled ? "OTEL_SDK_DISABLED" : kVar, in.s.c_str(), 1);
  else unsetenv(via_disabled ? "OTEL_SDK_DISABLED" : kVar);
  errno = e ? ERANGE : 0;
  c.step();
  if (via_disabled) {
    c.stage("GetSdkDisabled");
    bool got = sdkcommon::GetSdkDisabled();
    unsetenv("OTEL_SDK_DISABLED");
    c.check(got == is_true, got ? "C18:sdk-disabled:disabled-by-other-string" : "C18:sdk-disabled:true-ignored",
            vf::sfmt("OTEL_SDK_DISABLED=%s (errno on entry %s): GetSdkDisabled() = %d", show(in).c_str(), errs(e), (int)got));
    c.state(vf::sfmt("D|%d", (int)got));
    c.outcome(vf::sfmt("D|%d|%d", (int)got, (int)in.set));
    c.sample(vf::sfmt("OTEL_SDK_DISABLED=%s errno=%s => %d", show(in).c_str(), errs(e), (int)got));
    return;
  }
  c.stage("GetBoolEnvironmentVariable");
  bool val = true;  // sentinel: the default is false
  bool ret = sdkcommon::GetBoolEnvironmentVariable(kVar, val);
  unsetenv(kVar);
  std::string ctx = vf::sfmt("GetBoolEnvironmentVariable(%s, errno on entry %s) returned %d, value %d", show(in).c_str(), errs(e), (int)ret, (int)val);
  if (is_true || is_false) {
    c.check(ret, "C18:bool:valid-rejected", ctx);
    c.check(val == is_true, "C18:bool:wrong-value", ctx);
  } else if (!in.set || in.s.empty()) {
    c.check(!ret, "C18:bool:unset-reported-as-set", ctx);
    c.check(val == false, "C18:bool:default-not-false", ctx);
  } else {
    // any other string: the value is the default (false). The header documents the return value as
    // "true if the variable exists", so it is not constrained here (don't-care).
    c.check(val == false, "C18:bool:junk-read-as-true", ctx);
  }
  c.state(vf::sfmt("B|%d|%d", (int)ret, (int)val));
  c.outcome(vf::sfmt("B|%d|%d|%d", (int)ret, (int)val, (int)(is_true || is_false)));
  c.sample(ctx);
}

// ---- GetUintEnvironmentVariable ------------------------------------------------------------------
void run_uint(vf::Ctx &c) {
  const Input &in = pick_input(c, g_uint);
  int e = c.pick("errno", 2);
  const uint32_t kSentinel = 0xdeadbeefu;
  if (in.set) setenv(kVar, in.s.c_str(), 1);
  else unsetenv(kVar);
  errno = e ? ERANGE : 0;
  c.stage("GetUintEnvironmentVariable");
  c.step();
  uint32_t val = kSentinel;
  bool ret = sdkcommon::GetUintEnvironmentVariable(kVar, val);
  unsetenv(kVar);
  std::string ctx = vf::sfmt("GetUintEnvironmentVariable(%s, errno on entry %s) returned %d, value %u", show(in).c_str(), errs(e), (int)ret, val);
  const char *sfx = e ? ":stale-errno" : "";
  bool is_default = !ret && (val == 0 || val == kSentinel);
  bool lead; char sign; std::string rest;
  split_lenient(in.s, &lead, &sign, &rest);
  u128 v = 0;
  std::string cls;
  if (!in.set || in.s.empty()) {
    cls = "unset";
    c.check(is_default, "C18:uint:unset-not-default", ctx);
  } else if (all_digits(in.s)) {
    bool fits = to_u128(in.s, &v) && v <= 0xffffffffu;
    if (fits) {
      cls = "valid";
      c.check(ret, std::string("C18:uint:valid-rejected") + sfx, ctx);
      c.check(val == (uint32_t)v, std::string("C18:uint:wrong-value") + sfx, ctx);
    } else {
      cls = "too-big";
      c.check(!ret, std::string("C18:uint:out-of-range-accepted") + sfx, ctx + " (the value does not fit 32 bits)");
      c.check(is_default, "C18:uint:default-not-restored", ctx);
    }
  } else if (all_digits(rest)) {
    // libc leniency: leading white space and/or a sign. Don't-care if the mathematical value is
    // representable; a negative or too large value must never come back as some other number.
    bool fits = to_u128(rest, &v) && v <= 0xffffffffu;
    bool negative = sign == '-' && !(to_u128(rest, &v) && v == 0);
    if (negative) {
      cls = "negative";
      c.check(!ret, std::string("C18:uint:negative-accepted") + sfx, ctx + " (a negative number was converted to an unsigned value)");
      c.check(is_default, "C18:uint:default-not-restored", ctx);
    } else if (!fits) {
      cls = "lenient-too-big";
      c.check(!ret, std::string("C18:uint:out-of-range-accepted") + sfx, ctx);
      c.check(is_default, "C18:uint:default-not-restored", ctx);
    } else {
      cls = "lenient";
      c.check(is_default || (ret && val == (uint32_t)v), "C18:uint:lenient-wrong-value", ctx);
    }
  } else {
    cls = "junk";
    c.check(!ret, std::string("C18:uint:junk-accepted") + sfx, ctx);
    c.check(is_default, "C18:uint:default-not-restored", ctx);
  }
  c.state(vf::sfmt("U|%d|%u", (int)ret, val));
  c.outcome(vf::sfmt("U|%d|%u|", (int)ret, val) + cls);
  c.sample(ctx + " [" + cls + "]");
}

// ---- GetDurationEnvironmentVariable --------------------------------------------------------------
void run_duration(vf::Ctx &c) {
  using sysdur = std::chrono::system_clock::duration;
  const Input &in = pick_input(c, g_dur);
  const sysdur kSentinel = sysdur(-123456789);
  // reference parse:  [space]* [+-]? digits+ unit
  bool lead; char sign; std::string rest;
  split_lenient(in.s, &lead, &sign, &rest);
  size_t nd = 0;
  while (nd < rest.size() && is_dg(rest[nd])) ++nd;
  std::string digits = rest.substr(0, nd), unit = rest.substr(nd);
  // nanoseconds per unit
  u128 factor = 0;
  if (unit == "ns") factor = 1;
  else if (unit == "us") factor = 1000;
  else if (unit == "ms") factor = 1000000;
  else if (unit == "s" || unit == "") factor = 1000000000ull;  // documented: no unit means seconds in this implementation
  else if (unit == "m") factor = 60ull * 1000000000ull;
  else if (unit == "h") factor = 3600ull * 1000000000ull;
  bool syntax = in.set && nd > 0 && factor != 0;
  const u128 kMax = (u128)std::numeric_limits<int64_t>::max();
  u128 count = 0;
  bool count_fits = syntax && to_u128(digits, &count) && count <= kMax;
  // the reference computes in nanoseconds and converts to the clock's tick (identity on this platform)
  bool value_fits = count_fits && count * factor <= kMax;
  sysdur want = value_fits ? std::chrono::duration_cast<sysdur>(std::chrono::nanoseconds((int64_t)(count * factor))) : sysdur(0);
  // errno on entry is crossed with every input except the overflowing ones (the duration reader does not look
  // at errno, and each of those costs a process on the unrepaired tree, see below)
  bool overflowing = syntax && !value_fits;
  int e = overflowing ? 0 : c.pick("errno", 2);
  c.stage("GetDurationEnvironmentVariable");
  if (in.set) setenv(kVar, in.s.c_str(), 1);
  else unsetenv(kVar);
  c.step();
  sysdur val = kSentinel;
  bool ret = false;
  if (!overflowing) {
    errno = e ? ERANGE : 0;
    ret = sdkcommon::GetDurationEnvironmentVariable(kVar, val);
  } else {
    // A value that does not fit the tick count: on the unrepaired tree the arithmetic overflows, which the build
    // turns into a sanitizer trap. The call runs in a child forked here so that the trap becomes an oracle failure
    // that names the input (and the replay shows the sanitizer report) instead of an anonymous worker crash.
    int fds[2];
    c.check(pipe(fds) == 0, "C18:harness", "pipe failed");
    fflush(stdout);
    fflush(stderr);
    pid_t pid = fork();
    c.check(pid >= 0, "C18:harness", "fork failed");
    if (pid == 0) {
      close(fds[0]);
      if (!c.tracing()) { int nul = open("/dev/null", O_WRONLY); if (nul >= 0) dup2(nul, 2); }
      errno = 0;
      sysdur v = kSentinel;
      bool r = sdkcommon::GetDurationEnvironmentVariable(kVar, v);
      long long out[2] = {r ? 1 : 0, (long long)v.count()};
      if (write(fds[1], out, sizeof out) != (ssize_t)sizeof out) _exit(3);
      _exit(0);
    }
    close(fds[1]);
    long long out[2] = {0, 0};
    ssize_t got = 0;
    for (;;) {
      ssize_t n = read(fds[0], reinterpret_cast<char *>(out) + got, sizeof out - (size_t)got);
      if (n > 0) got += n;
      else if (n == 0 || errno != EINTR) break;
    }
    close(fds[0]);
    int st = 0;
    while (waitpid(pid, &st, 0) < 0 && errno == EINTR) {}
    unsetenv(kVar);
    if (!(WIFEXITED(st) && WEXITSTATUS(st) == 0) || got != (ssize_t)sizeof out) {
      std::string what = vf::sfmt("GetDurationEnvironmentVariable(%s) did not return: %s %d (signed integer overflow trapped by the sanitizer; replay shows the report) - ", show(in).c_str(),
                                  WIFSIGNALED(st) ? "signal" : "exit status", WIFSIGNALED(st) ? WTERMSIG(st) : WEXITSTATUS(st));
      if (!count_fits) c.report("C18:duration:signed-overflow:digit-accumulation", what + "the count does not fit 64 bits, `result * 10 + digit` overflows (undefined behaviour, wrapped value without the sanitizer)");
      else c.report("C18:duration:signed-overflow:unit-conversion", what + "the count fits but its conversion to clock ticks overflows in duration_cast (undefined behaviour, wrapped value without the sanitizer)");
      c.state("T|trap");
      c.outcome(std::string("T|trap|") + (count_fits ? "unit" : "count"));
      return;
    }
    ret = out[0] != 0;
    val = sysdur(out[1]);
  }
  unsetenv(kVar);
  std::string ctx = vf::sfmt("GetDurationEnvironmentVariable(%s, errno on entry %s) returned %d, value %lld ticks", show(in).c_str(), errs(e), (int)ret, (long long)val.count());
  bool is_default = !ret && (val == sysdur(0) || val == kSentinel);
  bool strict = syntax && !lead && !sign;
  std::string cls;
  if (!in.set || in.s.empty()) {
    cls = "unset";
    c.check(is_default, "C18:duration:unset-not-default", ctx);
  } else if (syntax && sign == '-' && !(count_fits && count == 0)) {
    cls = "negative";
    c.check(!ret, "C18:duration:negative-accepted", ctx);
    c.check(is_default, "C18:duration:default-not-restored", ctx);
  } else if (syntax && !value_fits) {
    cls = count_fits ? "unit-overflow" : "count-overflow";
    c.check(!ret, count_fits ? "C18:duration:overflowing-unit-conversion-accepted" : "C18:duration:overflowing-count-accepted",
            ctx + " (the value does not fit the 64-bit tick count: wrapped)");
    c.check(is_default, "C18:duration:default-not-restored", ctx);
  } else if (strict && count != 0) {
    cls = "valid";
    c.check(ret, "C18:duration:valid-rejected", ctx);
    c.check(val == want, "C18:duration:wrong-value", ctx + vf::sfmt(", expected %lld", (long long)want.count()));
  } else if (syntax) {
    // zero durations (the implementation documents that it rejects them) and libc-style leniency
    // (leading space, '+'): either the exact value or the default
    cls = count == 0 ? "zero" : "lenient";
    c.check(is_default || (ret && val == want), "C18:duration:lenient-wrong-value", ctx + vf::sfmt(", exact value would be %lld", (long long)want.count()));
  } else {
    cls = "junk";
    c.check(!ret, "C18:duration:junk-accepted", ctx);
    c.check(is_default, "C18:duration:default-not-restored", ctx);
  }
  c.state(vf::sfmt("T|%d|%lld", (int)ret, (long long)val.count()));
  c.outcome(vf::sfmt("T|%d|%lld|", (int)ret, (long long)val.count()) + cls);
  c.sample(ctx + " [" + cls + "]");
}

// ---- GetFloatEnvironmentVariable -----------------------------------------------------------------
bool strict_decimal(const std::string &s) {  // digits+ ( '.' digits+ )?
  size_t i = 0, n = s.size();
  size_t a = i;
  while (i < n && is_dg(s[i])) ++i;
  if (i == a) return false;
  if (i == n) return true;
  if (s[i++] != '.') return false;
  a = i;
  while (i < n && is_dg(s[i])) ++i;
  return i > a && i == n;
}
bool same_float(float a, float b) { return (std::isnan(a) && std::isnan(b)) || (a == b && std::signbit(a) == std::signbit(b)); }

void run_float(vf::Ctx &c) {
  const Input &in = pick_input(c, g_float);
  int e = c.pick("errno", 2);
  const float kSentinel = -12345.5f;
  // reference values, computed before errno is set for the call under test
  bool strict = in.set && strict_decimal(in.s);
  float exact = 0;
  bool exact_ok = false, overflow = false, underflow = false;
  if (strict) {
    auto r = std::from_chars(in.s.data(), in.s.data() + in.s.size(), exact, std::chars_format::fixed);
    exact_ok = r.ec == std::errc() && r.ptr == in.s.data() + in.s.size();
    if (r.ec == std::errc::result_out_of_range) {
      char *end = nullptr;
      double d = strtod(in.s.c_str(), &end);
      overflow = d > 1.0;
      underflow = !overflow;
    }
    // a subnormal result counts as underflow as well (libc reports ERANGE for it)
    if (exact_ok && exact != 0 && std::fabs(exact) < std::numeric_limits<float>::min()) underflow = true;
  }
  bool lenient = false;
  float libc = 0;
  if (in.set && !in.s.empty() && !strict) {
    errno = 0;
    char *end = nullptr;
    libc = strtof(in.s.c_str(), &end);
    lenient = end == in.s.c_str() + in.s.size() && !is_sp(in.s.back());
    if (lenient && errno == ERANGE) { overflow = std::fabs(libc) > 1.0f; underflow = !overflow; }
  }
  if (in.set) setenv(kVar, in.s.c_str(), 1);
  else unsetenv(kVar);
  errno = e ? ERANGE : 0;
  c.stage("GetFloatEnvironmentVariable");
  c.step();
  float val = kSentinel;
  bool ret = sdkcommon::GetFloatEnvironmentVariable(kVar, val);
  unsetenv(kVar);
  std::string ctx = vf::sfmt("GetFloatEnvironmentVariable(%s, errno on entry %s) returned %d, value %.9g", show(in).c_str(), errs(e), (int)ret, (double)val);
  const char *sfx = e ? ":stale-errno" : "";
  bool is_default = !ret && (same_float(val, 0.0f) || same_float(val, kSentinel));
  std::string cls;
  if (!in.set || in.s.empty()) {
    cls = "unset";
    c.check(is_default, "C18:float:unset-not-default", ctx);
  } else if (overflow) {
    cls = "overflow";
    c.check(!ret, std::string("C18:float:overflow-accepted") + sfx, ctx);
    c.check(is_default, "C18:float:default-not-restored", ctx);
  } else if (underflow) {
    cls = "underflow";  // don't-care: default, or a value of at most the smallest normal magnitude
    c.check(is_default || (ret && std::fabs(val) <= std::numeric_limits<float>::min()), "C18:float:underflow-wrong-value", ctx);
  } else if (strict) {
    cls = "valid";
    c.check(exact_ok, "C18:harness", "reference conversion failed for " + show(in));
    c.check(ret, std::string("C18:float:valid-rejected") + sfx, ctx);
    c.check(same_float(val, exact), std::string("C18:float:wrong-value") + sfx, ctx + vf::sfmt(", expected %.9g", (double)exact));
  } else if (lenient) {
    cls = "lenient";  // sign, exponent, hex, inf/nan, leading space: the libc value or the default
    c.check(is_default || (ret && same_float(val, libc)), "C18:float:lenient-wrong-value", ctx + vf::sfmt(", libc reads %.9g", (double)libc));
  } else {
    cls = "junk";
    c.check(!ret, std::string("C18:float:junk-accepted") + sfx, ctx);
    c.check(is_default, "C18:float:default-not-restored", ctx);
  }
  c.state(vf::sfmt("F|%d|%.9g", (int)ret, (double)val));
  c.outcome(vf::sfmt("F|%d|%.9g|", (int)ret, (double)val) + cls);
  c.sample(ctx + " [" + cls + "]");
}

// ---- GetStringEnvironmentVariable ----------------------------------------------------------------
void run_string(vf::Ctx &c) {
  const Input &in = pick_input(c, g_str);
  int e = c.pick("errno", 2);
  if (in.set) setenv(kVar, in.s.c_str(), 1);
  else unsetenv(kVar);
  errno = e ? ERANGE : 0;
  c.stage("GetStringEnvironmentVariable");
  c.step();
  std::string val = "<sentinel>";
  bool ret = sdkcommon::GetStringEnvironmentVariable(kVar, val);
  unsetenv(kVar);
  std::string ctx = vf::sfmt("GetStringEnvironmentVariable(%s, errno on entry %s) returned %d, value '%s'", show(in).c_str(), errs(e), (int)ret, vfq::printable(val, 40).c_str());
  if (!in.set || in.s.empty()) {
    c.check(!ret, "C18:string:unset-reported-as-set", ctx);
    c.check(val.empty() || val == "<sentinel>", "C18:string:default-not-restored", ctx);
  } else {
    c.check(ret, "C18:string:valid-rejected", ctx);
    c.check(val == in.s, "C18:string:wrong-value", ctx);
  }
  c.state(vf::sfmt("S|%d|%zu", (int)ret, val.size()));
  c.outcome(vf::sfmt("S|%d|", (int)ret) + val.substr(0, 64));
  c.sample(ctx);
}

void setup(vf::Options &o) {
  o.split_depth = 2;
  o.deadline_s = o.thorough ? 900 : 150;
  build_inputs(o.thorough);
  // the readers warn through the global log handler: keep the warning path, drop the output
  sdkcommon::internal_log::GlobalLogHandler::SetLogHandler(
      nostd::shared_ptr<sdkcommon::internal_log::LogHandler>(new sdkcommon::internal_log::NoopLogHandler()));
}

void run(vf::Ctx &c) {
  switch (c.pick("reader", 6)) {
    case 0: run_bool(c, false); break;
    case 1: run_uint(c); break;
    case 2: run_duration(c); break;
    case 3: run_float(c); break;
    case 4: run_string(c); break;
    default: run_bool(c, true); break;
  }
}

}  // namespace

// Overflowing inputs trap in the sanitizer once per execution; symbolizing each report costs about a
// second, so reports are symbolized only when a single execution is replayed.
// (Runs before the sanitizer runtime is initialised: not instrumented, raw system calls only.)
extern "C" __attribute__((no_sanitize("address", "undefined"))) const char *__asan_default_options() {
  static char buf[8192];
  long fd = syscall(SYS_open, "/proc/self/cmdline", O_RDONLY);
  long n = fd >= 0 ? syscall(SYS_read, fd, buf, sizeof buf - 1) : 0;
  if (fd >= 0) syscall(SYS_close, fd);
  const char *key = "--replay=";
  for (long i = 0; i + 9 <= n; ++i) {
    int j = 0;
    while (j < 9 && buf[i + j] == key[j]) ++j;
    if (j == 9) return "";
  }
  return "symbolize=0";
}

VF_MAIN("c18_env", "C18", setup, run)
