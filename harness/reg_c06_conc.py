H("c06_conc", "C06", "sched", ["harness/c06_conc.cc"], sdk=["common", "version", "resource", "metrics"],
  what="Engine A: recorder threads racing collector threads on the real MeterProvider/Meter/SyncMetricStorage/TemporalMetricStorage with delta and cumulative pull readers; "
       "power-of-two values make every point identify the measurements it contains (partition for delta, running superset for cumulative); uint64 and double counters, with and without attributes "
       "(all four SyncMetricStorage::Record* bodies)",
  design_ref="5/C06")
