// C04: an exported span carries exactly what was recorded before End, as owned copies; End takes
// effect once; each of several processors gets its own identical copy exactly once (Engine B).
//
// Every span program up to a depth bound over {StartSpan options, SetAttribute, AddEvent (all
// overloads), SetStatus, UpdateName, End with/without end time, and all of these after End} runs on
// a real TracerProvider with 1..3 processors (SimpleSpanProcessor and a deferred-export processor)
// in lock-step with a plain reference model. All caller storage is overwritten (and in a second
// pass freed) as soon as each call returns.
//
// The file is built twice (harness/reg_c04.py): ABI v1 (the main build; no Span::AddLink/AddLinks,
// links exist only as start options, no scope attributes) and ABI v2 (`c04_span_export_abi2`), which
// runs only what the first build cannot: programs with AddLink / AddLinks (7 entry points) after
// start and after End, and tracers obtained with instrumentation-scope attributes.
#include <opentelemetry/sdk/resource/resource.h>
#include <opentelemetry/sdk/trace/sampler.h>
#include <opentelemetry/sdk/trace/samplers/always_on.h>
#include <opentelemetry/sdk/trace/simple_processor.h>
#include <opentelemetry/sdk/trace/tracer_provider.h>
#include <opentelemetry/trace/span.h>
#include <opentelemetry/trace/tracer.h>

#include "c04_support.h"
#include "vf_clock.h"

using namespace c04;
#if OPENTELEMETRY_ABI_VERSION_NO >= 2
#define C04_ABI2 1
#else
#define C04_ABI2 0
#endif
// the message is only built when the check fails
#define CK(cond, sig, msg) do { if (!(cond)) c.fail((sig), (msg)); } while (0)
namespace sdkres = opentelemetry::sdk::resource;

namespace {

// ---- reference model --------------------------------------------------------------------------
struct Win {  // an exact value (lo == hi) or a window of permitted values
  int64_t lo = 0, hi = 0;
  bool has(int64_t v) const { return lo <= v && v <= hi; }
  bool exact() const { return lo == hi; }
};
struct MEvent { std::string name; Win ts; AttrMap attrs; };
struct MLink { tr::SpanContext ctx{false, false}; AttrMap attrs; };
struct Model {
  std::string name;
  tr::SpanKind kind = tr::SpanKind::kInternal;
  Win start;           // system clock, ns
  Win start_steady;    // steady clock, ns
  Win duration;        // filled at the first End
  AttrMap attrs;
  AttrMap alt;         // keys set by the start attributes AND by the sampler: the other of the two values (either may win)
  std::vector<MEvent> events;
  std::vector<MLink> links;
  tr::StatusCode code = tr::StatusCode::kUnset;
  std::string desc;
  bool ended = false;
};
void apply_kv(AttrMap &m, const KVList &l) {
  for (auto &e : l) m[e.first] = values()[e.second].v;  // in order: the last value of a key wins
}

// ---- fixture ----------------------------------------------------------------------------------
const sdkres::Resource &the_resource() {
  static const sdkres::Resource r = sdkres::Resource::Create({{"service.name", "c04-service"}, {"harness.attr", int64_t(7)}}, "https://example.test/resource-schema");
  return r;
}
struct ScopeId { const char *name, *version, *schema; };
const ScopeId kScopes[2] = {{"lib.a", "", ""}, {"lib.b", "1.2.3", "https://example.test/scope-schema"}};
// instrumentation-scope attributes (ABI v2 only): a string, a string array with an empty and a NUL element, a number
const KVList &scope_attr_list() {
  static const KVList l = {{"scope.s", 6}, {"scope.a", 24}, {"scope.i", 1}};
  return l;
}

// A sampler that answers RECORD_AND_SAMPLE and returns attributes of its own. The storage its values point to
// belongs to the arena of the running StartSpan call and is scribbled / freed with it.
const KVList &sampler_attr_list() {
  static const KVList l = {{"sampler.attr", 2}, {"k1", 18}, {"k2", 8}};  // int64, string with NUL, int32[]
  return l;
}
struct SamplerState { Arena *arena = nullptr; int calls = 0; };
class AttrSampler final : public sdktr::Sampler {
  SamplerState &st_;

 public:
  explicit AttrSampler(SamplerState &s) : st_(s) {}
  sdktr::SamplingResult ShouldSample(const tr::SpanContext &, tr::TraceId, nostd::string_view, tr::SpanKind, const ot::common::KeyValueIterable &,
                                     const tr::SpanContextKeyValueIterable &) noexcept override {
    st_.calls++;
    std::unique_ptr<std::map<std::string, AttributeValue>> m(new std::map<std::string, AttributeValue>);
    for (auto &e : sampler_attr_list()) (*m)[e.first] = st_.arena->build(values()[e.second]);
    return {sdktr::Decision::RECORD_AND_SAMPLE, std::move(m), nostd::shared_ptr<tr::TraceState>()};
  }
  nostd::string_view GetDescription() const noexcept override { return "c04-attribute-sampler"; }
};

struct Fixture {
  std::vector<std::unique_ptr<Sink>> sinks;  // the configured processors
  std::vector<std::unique_ptr<Sink>> late;   // processors attached while the span under test was running / after its End
  CounterIdGenerator::Log idlog;
  SamplerState sampler_state;
  bool sampler_attrs = false;
  std::unique_ptr<sdktr::TracerProvider> provider;
  nostd::shared_ptr<tr::Tracer> tracer;
  int scope = 0;
  AttrMap scope_attrs;  // what the tracer under test was obtained with
  // `a`: caller storage of the GetTracer arguments (scribbled / freed before the span starts)
  Fixture(int cfg, bool with_sampler, Arena &a, bool do_free) : sampler_attrs(with_sampler) {
    // 0: {simple}  1: {deferred}  2: {simple, deferred}  3: {simple, deferred, simple}
    static const char *kinds[4] = {"s", "d", "sd", "sds"};
    std::vector<std::unique_ptr<sdktr::SpanProcessor>> procs;
    for (const char *k = kinds[cfg]; *k; ++k) {
      sinks.emplace_back(new Sink);
      std::unique_ptr<sdktr::SpanExporter> ex(new KeepExporter(*sinks.back()));
      if (*k == 's') procs.emplace_back(new sdktr::SimpleSpanProcessor(std::move(ex)));
      else procs.emplace_back(new DeferredProcessor(*sinks.back(), std::move(ex)));
    }
    std::unique_ptr<sdktr::Sampler> sampler;
    if (with_sampler) sampler.reset(new AttrSampler(sampler_state));
    else sampler.reset(new sdktr::AlwaysOnSampler);
    provider.reset(new sdktr::TracerProvider(std::move(procs), the_resource(), std::move(sampler), std::unique_ptr<sdktr::IdGenerator>(new CounterIdGenerator(idlog, false))));
    scope = cfg % 2;
    // several tracers exist; the span under test comes from one of them. ABI v2: scope lib.b carries attributes, lib.a
    // does not, and a sibling with the same name / version / schema but the opposite choice is obtained first.
    auto get = [&](int sc, bool with_attrs) {
      nostd::string_view n = a.str(kScopes[sc].name), v = a.str(kScopes[sc].version), u = a.str(kScopes[sc].schema);
#if C04_ABI2
      return with_attrs ? provider->GetTracer(n, v, u, &a.kvi(scope_attr_list())) : provider->GetTracer(n, v, u, nullptr);
#else
      (void)with_attrs;
      return provider->GetTracer(n, v, u);
#endif
    };
    auto other = get(1 - scope, C04_ABI2 && scope == 0);
#if C04_ABI2
    auto sibling = get(scope, scope == 0);
    if (scope == 1) apply_kv(scope_attrs, scope_attr_list());
#endif
    tracer = get(scope, C04_ABI2 && scope == 1);
    a.done(do_free);
  }
};

// ---- comparison of the real SpanData with the model ----------------------------------------------
std::string type_of(const Owned &o) {
  std::string s = show(o);
  size_t p = s.find_first_of(":[");
  return s.substr(0, p) + (p != std::string::npos && s[p] == '[' ? "[]" : "");
}
template <class M>
void check_attrs(vf::Ctx &c, const std::string &where, const M &real, const AttrMap &want, const std::string &who, const AttrMap *alt = nullptr) {
  for (auto &kv : want) {
    auto it = real.find(kv.first);
    if (it == real.end()) {
      // an empty attribute key is not a valid key in the specification: dropping it is permitted
      if (kv.first.empty()) continue;
      c.fail("C04:attr-missing:" + where, who + ": attribute '" + vfq::printable(kv.first, 24) + "' = " + show(kv.second) + " was recorded but is absent; got " + show_attrs(real));
    }
    if (!same(it->second, kv.second)) {
      if (alt) {  // start attribute vs sampler attribute on one key: which of the two is "last" is not specified
        auto al = alt->find(kv.first);
        if (al != alt->end() && same(it->second, al->second)) continue;
      }
      std::string got = show(it->second);
      bool scrib = got.find("###") != std::string::npos || got.find("SCRIBBLED") != std::string::npos;
      c.fail("C04:attr-value:" + where + ":" + type_of(kv.second) + (scrib ? ":caller-buffer-retained" : ""),
             who + ": attribute '" + vfq::printable(kv.first, 24) + "' is " + got + ", the value recorded last was " + show(kv.second));
    }
  }
  for (auto &kv : real)
    if (!want.count(kv.first))
      c.fail("C04:attr-unexpected:" + where, who + ": attribute '" + vfq::printable(kv.first, 24) + "' = " + show(kv.second) + " was never recorded (before End); expected " + show_attrs(want));
}
std::string sv(nostd::string_view v) { return std::string(v.data(), v.size()); }
// a string that still reads as the scribble pattern was not copied: the SDK kept the caller's buffer
std::string retained(const std::string &got, const std::string &want) {
  return !got.empty() && got.size() == want.size() && got.find_first_not_of('#') == std::string::npos ? ":caller-buffer-retained" : "";
}

void check_span(vf::Ctx &c, const std::string &who, const sdktr::SpanData &d, const Model &m, const Fixture &fx, const tr::SpanContext &ctx) {
  auto q = [](const std::string &s) { return "'" + vfq::printable(s, 40) + "'"; };
  CK(sv(d.GetName()) == m.name, "C04:name" + retained(sv(d.GetName()), m.name), who + ": name is " + q(sv(d.GetName())) + ", expected " + q(m.name));
  CK(d.GetSpanKind() == m.kind, "C04:kind", who + vf::sfmt(": kind is %d, expected %d", (int)d.GetSpanKind(), (int)m.kind));
  int64_t st = d.GetStartTime().time_since_epoch().count();
  CK(m.start.has(st), m.start.exact() ? "C04:start-time:explicit" : "C04:start-time:default",
          who + vf::sfmt(": start time %lld not in [%lld,%lld]", (long long)st, (long long)m.start.lo, (long long)m.start.hi));
  int64_t du = d.GetDuration().count();
  CK(m.duration.has(du), m.duration.exact() ? "C04:duration:explicit" : "C04:duration:default",
          who + vf::sfmt(": duration %lld not in [%lld,%lld]", (long long)du, (long long)m.duration.lo, (long long)m.duration.hi));
  check_attrs(c, "span", d.GetAttributes(), m.attrs, who, &m.alt);
  // events, in call order
  auto &ev = d.GetEvents();
  CK(ev.size() == m.events.size(), "C04:event-count", who + vf::sfmt(": %zu events exported, %zu were added before End", ev.size(), m.events.size()));
  for (size_t i = 0; i < ev.size(); ++i) {
    std::string w = who + " event #" + std::to_string(i);
    CK(ev[i].GetName() == m.events[i].name, "C04:event-name" + retained(ev[i].GetName(), m.events[i].name), w + ": name is " + q(ev[i].GetName()) + ", expected " + q(m.events[i].name) + " (call order)");
    int64_t t = ev[i].GetTimestamp().time_since_epoch().count();
    CK(m.events[i].ts.has(t), m.events[i].ts.exact() ? "C04:event-time:explicit" : "C04:event-time:default",
            w + vf::sfmt(": timestamp %lld not in [%lld,%lld]", (long long)t, (long long)m.events[i].ts.lo, (long long)m.events[i].ts.hi));
    check_attrs(c, "event", ev[i].GetAttributes(), m.events[i].attrs, w);
  }
  auto &ln = d.GetLinks();
  CK(ln.size() == m.links.size(), "C04:link-count", who + vf::sfmt(": %zu links exported, %zu were given", ln.size(), m.links.size()));
  for (size_t i = 0; i < ln.size(); ++i) {
    std::string w = who + " link #" + std::to_string(i);
    const tr::SpanContext &a = ln[i].GetSpanContext(), &b = m.links[i].ctx;
    CK(a.trace_id() == b.trace_id() && a.span_id() == b.span_id() && a.trace_flags() == b.trace_flags() && a.IsRemote() == b.IsRemote() && ts_header(a) == ts_header(b),
            "C04:link-context", w + ": context is " + show(a) + ", expected " + show(b));
    check_attrs(c, "link", ln[i].GetAttributes(), m.links[i].attrs, w);
  }
  CK(d.GetStatus() == m.code, "C04:status-code", who + vf::sfmt(": status code %d, the last SetStatus before End gave %d", (int)d.GetStatus(), (int)m.code));
  // a description is only meaningful together with the Error code (specification); with other codes it is not compared
  if (m.code == tr::StatusCode::kError)
    CK(sv(d.GetDescription()) == m.desc, "C04:status-description" + retained(sv(d.GetDescription()), m.desc), who + ": status description is " + q(sv(d.GetDescription())) + ", expected " + q(m.desc));
  // identity is the span's own context
  CK(d.GetSpanContext().trace_id() == ctx.trace_id() && d.GetSpanContext().span_id() == ctx.span_id() && d.GetTraceId() == ctx.trace_id() && d.GetSpanId() == ctx.span_id(),
          "C04:identity", who + ": exported context " + show(d.GetSpanContext()) + " differs from Span::GetContext() " + show(ctx));
  // resource and instrumentation scope are the provider's / the tracer's
  const sdkres::Resource &r = d.GetResource();
  bool res_ok = r.GetSchemaURL() == fx.provider->GetResource().GetSchemaURL() && r.GetAttributes().size() == fx.provider->GetResource().GetAttributes().size();
  for (auto &kv : fx.provider->GetResource().GetAttributes()) {
    auto it = r.GetAttributes().find(kv.first);
    res_ok = res_ok && it != r.GetAttributes().end() && same(it->second, kv.second);
  }
  {
    auto it = r.GetAttributes().find("harness.attr");
    res_ok = res_ok && it != r.GetAttributes().end() && same(it->second, Owned(int64_t(7)));
    it = r.GetAttributes().find("service.name");
    res_ok = res_ok && it != r.GetAttributes().end() && same(it->second, Owned(std::string("c04-service")));
  }
  CK(res_ok, "C04:resource", who + ": resource is " + show_attrs(r.GetAttributes()) + " schema '" + r.GetSchemaURL() + "', the provider's is " + show_attrs(fx.provider->GetResource().GetAttributes()));
  const auto &sc = d.GetInstrumentationScope();
  const ScopeId &ws = kScopes[fx.scope];
  CK(sc.GetName() == ws.name && sc.GetVersion() == ws.version && sc.GetSchemaURL() == ws.schema, "C04:scope",
          who + ": instrumentation scope is '" + sc.GetName() + "'/'" + sc.GetVersion() + "'/'" + sc.GetSchemaURL() + "', the tracer was obtained as '" + ws.name + "'/'" + ws.version + "'/'" + ws.schema + "'");
  // scope attributes the tracer was obtained with (ABI v2; none under ABI v1)
  check_attrs(c, "scope", sc.GetAttributes(), fx.scope_attrs, who + " instrumentation scope");
}

// ---- alphabets ----------------------------------------------------------------------------------
const char *const kKeys[3] = {"k1", "k2", ""};
const std::vector<KVList> &attr_sets() {
  static const std::vector<KVList> a = [] {
    std::vector<KVList> v;
    v.push_back({});                                                     // 0 empty
    v.push_back({{"k1", 6}});                                            // 1 one string
    v.push_back({{"k1", 1}, {"k2", 24}, {"k1", 18}, {"k2", 24}, {"", 4}, {"k1", 12}});  // 2 duplicate keys, several types, empty key
    KVList all;                                                          // 3 every alternative and shape
    for (int i = 0; i < (int)values().size(); ++i)
      if (i != 23) all.emplace_back(vf::sfmt("a%02d", i), i);
    v.push_back(all);
    return v;
  }();
  return a;
}
// `salt` makes the targets of links added by different calls distinguishable (call order)
std::vector<std::pair<tr::SpanContext, KVList>> link_set(int which, uint32_t salt = 0) {
  std::vector<std::pair<tr::SpanContext, KVList>> l;
  if (which == 0) return l;
  tr::SpanContext remote(make_trace_id(0xaa, 1), make_span_id(0xaa, 2 + 16 * salt), tr::TraceFlags(1), true, tr::TraceState::FromHeader("l1=x,l2=y"));
  tr::SpanContext local(make_trace_id(0xbb, 3), make_span_id(0xbb, 4 + 16 * salt), tr::TraceFlags(0), false);
  if (which == 1) { l.emplace_back(remote, KVList{}); return l; }
  l.emplace_back(local, attr_sets()[2]);
  l.emplace_back(remote, attr_sets()[1]);
  l.emplace_back(local, KVList{{"k2", which == 3 ? 22 : 9}});  // the same target twice is two links; set 3 carries the 1000-element array
  return l;
}
const int64_t kExplicitStartSys = 1600000000123456789ll;
const int64_t kExplicitStartSteady = 5000000123ll;

struct StartShape { int kind, times, attrs, links, how, name; };
// how: 0 StartSpan(name, options) [only without attrs/links]   1 (name, KeyValueIterable, options)
//      2 (name, KeyValueIterable, SpanContextKeyValueIterable, options)   3 (name, container, options)
//      4 (name, container, link container, options)   5 initializer lists
const std::vector<std::string> &span_names() {
  static const std::vector<std::string> n = {"span", "", std::string("sp\0an", 5), std::string(300, 'n')};
  return n;
}

struct Exec {
  vf::Ctx &c;
  bool do_free;
  std::vector<std::unique_ptr<Arena>> arenas;  // kept until the end of the execution in the scribble pass (outlive the provider)
  Fixture fx;
  Model m;
  nostd::shared_ptr<tr::Span> span;
  tr::SpanContext ctx{false, false};
  std::string hist;
  std::vector<vf::H128> at_end;      // digest of each simple exporter's copy right after End
  int step_no = 0;

  Exec(vf::Ctx &cc, bool f, int cfg, bool with_sampler = false) : c(cc), do_free(f), fx(cfg, with_sampler, arena(), f) {}
  Arena &arena() { arenas.emplace_back(new Arena); return *arenas.back(); }

  void start(const StartShape &s) {
    c.stage("StartSpan");
    Arena &a = arena();
    m.name = span_names()[s.name];
    m.kind = (tr::SpanKind)s.kind;
    tr::StartSpanOptions *opts = new tr::StartSpanOptions;
    opts->kind = m.kind;
    if (s.times) {
      opts->start_system_time = ot::common::SystemTimestamp(std::chrono::nanoseconds(kExplicitStartSys));
      opts->start_steady_time = ot::common::SteadyTimestamp(std::chrono::nanoseconds(kExplicitStartSteady));
      m.start = Win{kExplicitStartSys, kExplicitStartSys};
      m.start_steady = Win{kExplicitStartSteady, kExplicitStartSteady};
    }
    const KVList &al = attr_sets()[s.attrs];
    auto ll = link_set(s.links);
    apply_kv(m.attrs, al);
    for (auto &l : ll) { MLink ml; ml.ctx = l.first; apply_kv(ml.attrs, l.second); m.links.push_back(ml); }
    if (s.how == 5) init_list_model();
    nostd::string_view name = a.str(m.name);
    fx.sampler_state.arena = &a;  // what the sampler returns lives (and dies) with this call's storage
    int64_t s0 = sys_now_ns(), m0 = steady_now_ns();
    switch (s.how) {
      case 0: span = fx.tracer->StartSpan(name, *opts); break;
      case 1: span = fx.tracer->StartSpan(name, a.kvi(al), *opts); break;
      case 2: span = fx.tracer->StartSpan(name, a.kvi(al), a.links(ll), *opts); break;
      case 3: span = fx.tracer->StartSpan(name, a.pairs(al), *opts); break;
      case 4: span = fx.tracer->StartSpan(name, a.pairs(al), a.linkvec(ll), *opts); break;
      default: {
        // initializer-list overloads: fixed contents (attr set 1 / link set 1 shapes)
        tr::SpanContext remote = ll.empty() ? tr::SpanContext(false, false) : ll[0].first;
        nostd::string_view k1 = a.str("k1"), k2 = a.str("k2"), hello = a.str("hello");
        if (ll.empty())
          span = fx.tracer->StartSpan(name, {{k1, hello}, {k2, int32_t(-7)}, {k1, a.build(values()[12])}}, *opts);
        else
          span = fx.tracer->StartSpan(name, {{k1, hello}, {k2, int32_t(-7)}, {k1, a.build(values()[12])}}, {{remote, {{k2, a.build(values()[9])}}}}, *opts);
      }
    }
    int64_t m1 = steady_now_ns(), s1 = sys_now_ns();
    *opts = tr::StartSpanOptions();  // the options object is caller storage as well
    delete opts;
    a.done(do_free);
    fx.sampler_state.arena = nullptr;
    if (!s.times) { m.start = Win{s0, s1}; m.start_steady = Win{m0, m1}; }
    CK(span.get() != nullptr, "C04:start-null", "StartSpan returned a null span");
    ctx = span->GetContext();
    CK(ctx.IsValid() && span->IsRecording(), "C04:start-not-recording", "a span started under AlwaysOn is not recording or has an invalid context: " + show(ctx));
    hist = vf::sfmt("Start(kind=%d,%s,attrs#%d,links#%d,how%d,name#%d%s)", s.kind, s.times ? "explicit-times" : "now", s.attrs, s.links, s.how, s.name, fx.sampler_attrs ? ",sampler-with-attributes" : "");
    if (fx.sampler_attrs) {
      // attributes returned by the sampler are set on the span right after it was started: they are "set before End" like any
      // other and lose to every later SetAttribute; against a start attribute of the same key either value may stand
      for (auto &e : sampler_attr_list()) {
        auto it = m.attrs.find(e.first);
        if (it != m.attrs.end() && !same(it->second, values()[e.second].v)) m.alt[e.first] = it->second;
        m.attrs[e.first] = values()[e.second].v;
      }
    }
    // the start notification reached every processor once, with that processor's own recordable (observable at the deferred ones)
    for (size_t i = 0; i < fx.sinks.size(); ++i) {
      Sink &sk = *fx.sinks[i];
      if (!sk.deferred) continue;
      CK(sk.on_start == 1, "C04:on-start-count", vf::sfmt("processor %zu (deferred): OnStart called %d times by StartSpan", i, sk.on_start));
      CK(sk.on_start_foreign == 0, "C04:on-start:foreign-recordable", vf::sfmt("processor %zu (deferred): OnStart came with a recordable this processor did not make", i));
    }
    c.step();
    after_op();
  }
  void init_list_model() {  // what start `how == 5` records
    m.attrs.clear();
    m.attrs["k1"] = values()[12].v;
    m.attrs["k2"] = Owned(int32_t(-7));
    if (!m.links.empty()) { m.links.resize(1); m.links[0].attrs.clear(); m.links[0].attrs["k2"] = values()[9].v; }
  }

  void set_attribute(int key, int vi) {
    c.stage("SetAttribute");
    Arena &a = arena();
    nostd::string_view k = a.str(kKeys[key]);
    const AttributeValue &v = a.val(vi);
    span->SetAttribute(k, v);
    a.done(do_free);
    if (!m.ended) { m.attrs[kKeys[key]] = values()[vi].v; m.alt.erase(kKeys[key]); }
    hist += vf::sfmt(" SetAttribute('%s',%s)", kKeys[key], values()[vi].name.c_str());
  }
  void add_event(int ov) {
    c.stage("AddEvent");
    Arena &a = arena();
    // overload 8 = overload 5 with every value alternative and shape as event attributes (used by the start-options part only)
    static const std::string names[9] = {"ev", "", std::string("e\0v", 3), "ev3", "ev4", "ev5", "ev6", "ev7", "ev8"};
    static const int sets[9] = {0, 0, 2, 1, 2, 1, 0, 0, 3};
    MEvent me;
    me.name = names[ov];
    nostd::string_view n = a.str(me.name);
    int64_t tsv = 1650000000000000017ll + 1000 * step_no;
    ot::common::SystemTimestamp ts{std::chrono::nanoseconds(tsv)};
    const KVList &al = attr_sets()[sets[ov]];
    apply_kv(me.attrs, al);
    int64_t s0 = sys_now_ns();
    switch (ov) {
      case 0: span->AddEvent(n); break;
      case 1: span->AddEvent(n, ts); break;
      case 2: span->AddEvent(n, a.kvi(al)); break;
      case 3: span->AddEvent(n, ts, a.kvi(al)); break;
      case 4: span->AddEvent(n, ts, a.pairs(al)); break;
      case 5: case 8: span->AddEvent(n, a.pairs(al)); break;
      case 6: {
        nostd::string_view k1 = a.str("k1"), k2 = a.str("k2");
        span->AddEvent(n, ts, {{k1, a.build(values()[6])}, {k2, a.build(values()[8])}, {k1, int64_t(99)}});
        me.attrs["k1"] = Owned(int64_t(99));
        me.attrs["k2"] = values()[8].v;
        break;
      }
      default: {
        nostd::string_view k1 = a.str("k1");
        span->AddEvent(n, {{k1, a.build(values()[24])}});
        me.attrs["k1"] = values()[24].v;
      }
    }
    int64_t s1 = sys_now_ns();
    a.done(do_free);
    bool explicit_ts = ov == 1 || ov == 3 || ov == 4 || ov == 6;
    me.ts = explicit_ts ? Win{tsv, tsv} : Win{s0, s1};
    if (!m.ended) m.events.push_back(me);
    hist += vf::sfmt(" AddEvent#%d", ov);
  }
  void set_status(int which) {
    c.stage("SetStatus");
    Arena &a = arena();
    static const tr::StatusCode codes[4] = {tr::StatusCode::kError, tr::StatusCode::kOk, tr::StatusCode::kUnset, tr::StatusCode::kError};
    static const std::string descs[4] = {"boom", "", "", std::string("d\0x", 3)};
    span->SetStatus(codes[which], a.str(descs[which]));
    a.done(do_free);
    if (!m.ended) { m.code = codes[which]; m.desc = descs[which]; }
    hist += vf::sfmt(" SetStatus(%d,'%s')", (int)codes[which], vfq::printable(descs[which]).c_str());
  }
  void update_name(int which) {
    c.stage("UpdateName");
    Arena &a = arena();
    static const std::string names[3] = {"renamed", "", std::string("n\0x", 3)};
    span->UpdateName(a.str(names[which]));
    a.done(do_free);
    if (!m.ended) m.name = names[which];
    hist += " UpdateName('" + vfq::printable(names[which]) + "')";
  }
  // TracerProvider::AddProcessor while the span is running (or after its End): the new processor has no recordable
  // of this span, so it must stay silent; everybody else is unaffected
  void add_processor() {
    c.stage("AddProcessor");
    fx.late.emplace_back(new Sink);
    Sink &s = *fx.late.back();
    s.late = true;
    std::unique_ptr<sdktr::SpanExporter> ex(new KeepExporter(s));
    std::unique_ptr<sdktr::SpanProcessor> p;
    if (fx.late.size() % 2 == 1) p.reset(new DeferredProcessor(s, std::move(ex)));
    else p.reset(new sdktr::SimpleSpanProcessor(std::move(ex)));
    fx.provider->AddProcessor(std::move(p));
    hist += fx.late.size() % 2 == 1 ? " AddProcessor(deferred)" : " AddProcessor(simple)";
  }
  void check_late(const char *when) {
    for (size_t i = 0; i < fx.late.size(); ++i) {
      Sink &s = *fx.late[i];
      std::string who = vf::sfmt("processor added late #%zu (%s) %s, program: ", i, s.deferred ? "deferred" : "simple", when) + hist + "\n   ";
      CK(s.null_recordables == 0, "C04:late-processor:null-recordable", who + vf::sfmt("its exporter was handed %d null recordables", s.null_recordables));
      CK(s.exported.empty() && s.on_end == 0 && s.export_calls == 0, "C04:late-processor:notified",
         who + vf::sfmt("it made no recordable for the span, yet got %d OnEnd / %d Export calls with %zu spans", s.on_end, s.export_calls, s.exported.size()));
      CK(s.made.empty() && s.on_start == 0, "C04:late-processor:started", who + vf::sfmt("MakeRecordable called %zu times, OnStart %d times although no span was started since it was added", s.made.size(), s.on_start));
    }
  }
#if C04_ABI2
  // Span::AddLink / AddLinks (ABI v2), 7 entry points. The targets carry the step number, so call order is visible.
  void add_link(int ov) {
    c.stage(ov < 4 ? "AddLink" : "AddLinks");
    Arena &a = arena();
    auto ls = link_set(ov == 5 ? 3 : 2, (uint32_t)step_no);  // [0] local target, attribute set 2 (duplicate keys, empty key)  [1] remote target with trace state, set 1  [2] local again, one array
    std::vector<MLink> added;
    auto model = [&](const std::pair<tr::SpanContext, KVList> &l) { MLink ml; ml.ctx = l.first; apply_kv(ml.attrs, l.second); added.push_back(ml); };
    switch (ov) {
      case 0: span->AddLink(a.ctx(ls[1].first), a.kvi(ls[1].second)); model(ls[1]); break;    // ABI entry
      case 1: span->AddLink(a.ctx(ls[0].first), a.kvi(ls[0].second)); model(ls[0]); break;    // ABI entry, duplicate keys
      case 2: span->AddLink(a.ctx(ls[0].first), a.pairs(ls[0].second)); model(ls[0]); break;  // container helper
      case 3: {                                                                                // initializer list
        nostd::string_view k1 = a.str("k1"), k2 = a.str("k2");
        span->AddLink(a.ctx(ls[1].first), {{k1, a.build(values()[6])}, {k2, a.build(values()[8])}, {k1, int64_t(99)}});
        MLink ml; ml.ctx = ls[1].first; ml.attrs["k1"] = Owned(int64_t(99)); ml.attrs["k2"] = values()[8].v;
        added.push_back(ml);
        break;
      }
      case 4: span->AddLinks(a.links(ls)); for (auto &l : ls) model(l); break;                // ABI entry, three links
      case 5: span->AddLinks(a.linkvec(ls)); for (auto &l : ls) model(l); break;              // container helper, link set with the 1000-element array
      default: {                                                                               // initializer list: two links, the second without attributes
        nostd::string_view k2 = a.str("k2");
        span->AddLinks({{ls[1].first, {{k2, a.build(values()[9])}}}, {ls[0].first, {}}});
        MLink m1; m1.ctx = ls[1].first; m1.attrs["k2"] = values()[9].v;
        MLink m2; m2.ctx = ls[0].first;
        added.push_back(m1); added.push_back(m2);
      }
    }
    a.done(do_free);
    if (!m.ended) for (auto &l : added) m.links.push_back(l);
    hist += vf::sfmt(" %s#%d", ov < 4 ? "AddLink" : "AddLinks", ov);
  }
#endif
  void end(bool with_time) {
    c.stage("End");
    tr::EndSpanOptions *eo = new tr::EndSpanOptions;
    int64_t e = 0;
    if (with_time) {
      e = steady_now_ns() - 250;  // an instant the caller captured a little earlier
      eo->end_steady_time = ot::common::SteadyTimestamp(std::chrono::nanoseconds(e));
    }
    int64_t m0 = steady_now_ns();
    span->End(*eo);
    int64_t m1 = steady_now_ns();
    *eo = tr::EndSpanOptions();
    delete eo;
    hist += with_time ? " End(t)" : " End()";
    if (m.ended) return;
    m.ended = true;
    Win endw = with_time ? Win{e, e} : Win{m0, m1};
    m.duration = Win{endw.lo - m.start_steady.hi, endw.hi - m.start_steady.lo};
    // exactly one notification per processor, right now
    for (size_t i = 0; i < fx.sinks.size(); ++i) {
      Sink &s = *fx.sinks[i];
      if (s.deferred) {
        CK(s.on_end == 1 && s.exported.empty(), "C04:notify-count:deferred", vf::sfmt("processor %zu (deferred): OnEnd called %d times at the first End", i, s.on_end));
      } else {
        CK(s.export_calls == 1 && s.exported.size() == 1 && s.null_recordables == 0, "C04:notify-count:simple",
                vf::sfmt("processor %zu (simple): %d Export calls, %zu spans, %d null recordables at the first End", i, s.export_calls, s.exported.size(), s.null_recordables));
        at_end.push_back(digest(*s.exported[0]));
      }
    }
  }

  // canonical state of the REAL object: the recordable of every processor plus the recording flag
  void after_op() {
    step_no++;
    vf::H128 st;
    st.add(step_no * 2 + (int)span->IsRecording());
    st.add(fx.late.size());
    for (auto &s : fx.sinks) {
      st.add(s->made.size());
      if (s->made.size() == 1) { vf::H128 d = digest(*s->made[0]); st.add(d.a); st.add(d.b); }
    }
    c.state(st);
    CK(span->IsRecording() == !m.ended, "C04:is-recording", std::string("IsRecording() is ") + (span->IsRecording() ? "true after End" : "false before End") + " after: " + hist);
    tr::SpanContext now = span->GetContext();
    CK(now.trace_id() == ctx.trace_id() && now.span_id() == ctx.span_id(), "C04:context-changed", "GetContext() changed after: " + hist);
  }

  void finish() {
    if (!m.ended) { end(false); c.step(); after_op(); }
    c.trace("program: %s", hist.c_str());
    c.stage("release");
    span = nostd::shared_ptr<tr::Span>();  // the destructor calls End() once more
    c.stage("ForceFlush");
    fx.provider->ForceFlush();
    verify("after flush");
    c.stage("Shutdown");
    fx.provider->Shutdown();
    fx.tracer = nostd::shared_ptr<tr::Tracer>();
    fx.provider.reset();
    for (size_t i = 0; i < fx.sinks.size(); ++i)
      CK(fx.sinks[i]->exported.size() == 1, "C04:export-count:after-shutdown", vf::sfmt("processor %zu has %zu spans after shutdown (one span was ended once)", i, fx.sinks[i]->exported.size()));
    check_late("after shutdown");
  }
  void verify(const char *when) {
    c.stage("verify");
    vf::H128 first;
    size_t simple_i = 0;
    for (size_t i = 0; i < fx.sinks.size(); ++i) {
      Sink &s = *fx.sinks[i];
      std::string who = "processor " + std::to_string(i) + "/" + std::to_string(fx.sinks.size()) + (s.deferred ? " (deferred) " : " (simple) ") + when + ", program: " + hist + "\n   ";
      CK(s.exported.size() == 1 && s.null_recordables == 0 && s.empty_batches == 0, s.deferred ? "C04:export-count:deferred" : "C04:export-count:simple",
              who + vf::sfmt("%zu spans exported in %d Export calls (%d null, %d empty batches); one span was ended", s.exported.size(), s.export_calls, s.null_recordables, s.empty_batches));
      if (s.deferred) CK(s.on_end == 1, "C04:notify-count:deferred", who + vf::sfmt("OnEnd called %d times", s.on_end));
      else CK(s.export_calls == 1, "C04:notify-count:simple", who + vf::sfmt("Export called %d times", s.export_calls));
      const sdktr::SpanData &d = *s.exported[0];
      CK(s.made.size() == 1 && s.made[0] == &d, "C04:foreign-recordable", who + "the exported object is not the recordable this processor's exporter made for the span");
      for (size_t j = 0; j < i; ++j)
        CK(fx.sinks[j]->exported[0].get() != &d, "C04:shared-copy", who + "two processors received the same object");
      check_span(c, who, d, m, fx, ctx);
      vf::H128 cn = digest(d);
      if (!s.deferred) {
        if (!(cn == at_end[simple_i])) c.fail("C04:changed-after-end", who + "the exported copy changed after End; now: " + canon(d));
        simple_i++;
      }
      if (i == 0) first = cn;
      else if (!(cn == first)) c.fail("C04:copies-differ", who + "copy differs from processor 0's:\n   0: " + canon(*fx.sinks[0]->exported[0]) + "\n   this: " + canon(d));
    }
    check_late(when);
    vf::H128 o = digest(*fx.sinks[0]->exported[0], false);
    c.outcome(vf::sfmt("%016llx%016llx|%zu", (unsigned long long)o.a, (unsigned long long)o.b, fx.sinks.size()));
  }
};

// one operation of the program alphabet; `full` crosses the whole value alphabet
#if C04_ABI2
const int kLinkOps = 7;
#else
const int kLinkOps = 0;
#endif
int n_ops(bool full) { return 3 * (full ? (int)values().size() : (int)reduced_values().size()) + 8 + 4 + 3 + 2 + 1 + kLinkOps; }
void do_op(Exec &x, int op, bool full) {
  int nv = full ? (int)values().size() : (int)reduced_values().size();
  if (op < 3 * nv) { int vi = op % nv; x.set_attribute(op / nv, full ? vi : reduced_values()[vi]); }
  else if ((op -= 3 * nv) < 8) x.add_event(op);
  else if ((op -= 8) < 4) x.set_status(op);
  else if ((op -= 4) < 3) x.update_name(op);
  else if ((op -= 3) < 2) x.end(op == 1);
  else if ((op -= 2) < 1) x.add_processor();
#if C04_ABI2
  else x.add_link(op - 1);
#endif
  x.c.step();
  x.after_op();
}
// a small alphabet for the leading positions of deep programs
const int kSmallOps = 7;
void do_small_op(Exec &x, int op) {
  switch (op) {
    case 0: x.set_attribute(0, 1); break;
    case 1: x.set_attribute(0, 6); break;
    case 2: x.add_event(3); break;
    case 3: x.set_status(0); break;
    case 4: x.update_name(0); break;
    case 5: x.end(false); break;
    default: x.end(true);
  }
  x.c.step();
  x.after_op();
}
#if C04_ABI2
// the alphabet of the link programs: the small alphabet, AddProcessor and the 7 AddLink / AddLinks entry points
const int kLinkAlphabet = kSmallOps + 1 + kLinkOps;
void do_link_op(Exec &x, int op) {
  if (op < kSmallOps) { do_small_op(x, op); return; }
  if (op == kSmallOps) x.add_processor();
  else x.add_link(op - kSmallOps - 1);
  x.c.step();
  x.after_op();
}
#endif

const StartShape kStarts[4] = {
    {0, 0, 0, 0, 0, 0},  // all defaults
    {1, 1, 0, 0, 0, 0},  // explicit times, kind server
    {2, 0, 2, 2, 2, 0},  // duplicate-key attributes and three links through the ABI entry point
    {4, 1, 1, 1, 4, 2},  // containers, explicit times, name with NUL
};

void setup(vf::Options &o) {
  o.split_depth = 3;
  o.deadline_s = o.thorough ? 1500 : 150;
  o.table_bits = 24;
  unsetenv("OTEL_RESOURCE_ATTRIBUTES");
  unsetenv("OTEL_SERVICE_NAME");
}

void run(vf::Ctx &c) {
  vf::clock_reset();
  vf::clock_set_autostep_ns(1000);
  // parts: 0 programs over the whole alphabet, depth 3   1 last-write-wins pairs   2 start options   3 depth 4   4 depth 5 with the
  // full value alphabet at the end   5 a sampler that returns attributes   6 (ABI v2 build) programs with AddLink / AddLinks
#if C04_ABI2
  static const std::vector<int> kQuick = {6}, kThorough = {6, 0};
#else
  static const std::vector<int> kQuick = {0, 1, 2, 5}, kThorough = {0, 1, 2, 3, 4, 5};
#endif
  const std::vector<int> &parts = c.thorough() ? kThorough : kQuick;
  int part = parts[c.pick("part", (int)parts.size())];
  // parts 5 and 6: shape 0 = full product of (ownership pass, processors, start shape) at the smaller depth, 1 = covering combinations one deeper
  int shape = part >= 5 ? c.pick("shape", 2) : 0;
  // (ownership pass, processor configuration, start shape): the deep parts use a covering subset of
  // the 2 x 4 x 4 product (every value of each dimension, every pair own x cfg shape kind), the
  // shallow parts and the thorough depth-3 part the full product
  static const int kCombos[6][3] = {{0, 3, 0}, {1, 3, 2}, {0, 2, 1}, {1, 1, 3}, {1, 0, 0}, {0, 1, 2}};
  bool deep = part == 0 ? (!c.thorough() || C04_ABI2) : part >= 5 ? shape == 1 : (part == 3 || part == 4);
  int own, cfg, start = 0;
  if (deep) {
    const int *k = kCombos[c.pick("combo", part == 3 || (part == 5 && c.thorough()) ? 2 : part == 4 ? 1 : 6)];
    own = k[0]; cfg = k[1]; start = k[2];
  } else {
    own = c.pick("ownership-pass", 2);
    cfg = c.pick("processors", 4);
    if (part == 0 || part >= 5) start = c.pick("start", 4);
  }
  bool do_free = own == 1;
  Exec x(c, do_free, cfg, part == 5);
  if (part == 0 || part == 3) {
    // every program of the depth bound over the whole operation alphabet (reduced value alphabet)
    x.start(kStarts[start]);
    int depth = part == 3 ? 4 : 3;
    for (int d = 0; d < depth; ++d) do_op(x, c.pick("op", n_ops(false)), false);
  } else if (part == 1) {
    // last-write-wins: all ordered pairs of the full value alphabet on one key, every key
    x.start(kStarts[0]);
    int key = c.pick("key", 3);
    int v1 = c.pick("first", (int)values().size()), v2 = c.pick("second", (int)values().size());
    x.set_attribute(key, v1); c.step(); x.after_op();
    x.set_attribute(key, v2); c.step(); x.after_op();
  } else if (part == 2) {
    // start options: kind x times x attributes x links x entry point x name, then one End variant
    StartShape s;
    s.kind = c.pick("kind", 5);
    s.times = c.pick("times", 2);
    s.attrs = c.pick("attrs", (int)attr_sets().size());
    s.links = c.pick("links", 4);
    s.name = c.pick("name", (int)span_names().size());
    // entry points that can carry the chosen attributes / links
    std::vector<int> hows;
    if (s.attrs == 0 && s.links == 0) hows.push_back(0);
    if (s.links == 0) { hows.push_back(1); hows.push_back(3); }
    hows.push_back(2); hows.push_back(4);
    if (s.attrs == 1 && s.links < 2) hows.push_back(5);
    s.how = hows[c.pick("entry-point", (int)hows.size())];
    x.start(s);
    int tail = c.pick("tail", 4);
    if (tail == 1) { x.end(true); c.step(); x.after_op(); }
    if (tail == 2) { x.set_attribute(0, 6); c.step(); x.after_op(); }
    if (tail == 3) { x.add_event(8); c.step(); x.after_op(); }
  } else if (part == 5) {
    // the sampler returns attributes (one new key, two keys that start attributes / SetAttribute also use): every program of
    // depth 1 (thorough 2) from the full product, depth 2 (thorough 3) from covering combinations
    x.start(kStarts[start]);
    int depth = 1 + shape + (c.thorough() ? 1 : 0);
    for (int d = 0; d < depth; ++d) do_op(x, c.pick("op", n_ops(false)), false);
#if C04_ABI2
  } else if (part == 6) {
    // AddLink / AddLinks: every program of depth 2 (thorough 3) over the link alphabet from the full product, depth 3 (thorough 4)
    // from covering combinations; start shapes 2 and 3 already carry links, so "start links first, then in call order" is decided
    x.start(kStarts[start]);
    int depth = 2 + shape + (c.thorough() ? 1 : 0);
    for (int d = 0; d < depth; ++d) do_link_op(x, c.pick("op", kLinkAlphabet));
#endif
  } else {
    // part 4 (thorough): depth 5, small alphabet at the first three positions, the full operation
    // and value alphabet crossed at the last two
    x.start(kStarts[start]);
    for (int d = 0; d < 3; ++d) do_small_op(x, c.pick("op", kSmallOps));
    for (int d = 0; d < 2; ++d) do_op(x, c.pick("op-full", n_ops(true)), true);
  }
  x.finish();
  static unsigned sample_tick = 0;  // evidence samples only; building them for every execution is too slow
  if ((sample_tick++ & 1023) == 0)
    c.sample(vf::sfmt("[%s pass, %zu processors] ", do_free ? "free" : "scribble", x.fx.sinks.size()) + x.hist + " => " + canon(*x.fx.sinks[0]->exported[0], false).substr(0, 300));
}

}  // namespace

VF_MAIN("c04_span_export", "C04", setup, run)
