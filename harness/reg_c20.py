H("c20_ptr", "C20", "seq", ["harness/c20_ptr.cc"], sdk=[], cxxflags=["-fno-access-control"],
  args={"quick": [], "thorough": []},
  what="real nostd::shared_ptr / nostd::unique_ptr vs std::shared_ptr / std::unique_ptr: two worlds of handles (two base handles, a derived handle, a std handle, "
       "objects with a handle member) driven by every operation sequence up to the depth bound; same null-ness, pointee identity, comparisons and "
       "destroyed objects after every operation, exactly-once destruction, ASan silent",
  design_ref="5/C20")
H("c20_values", "C20", "seq", ["harness/c20_values.cc"], sdk=[],
  args={"quick": [], "thorough": []},
  what="real nostd::string_view vs std::string_view over all pairs of strings over {a,b,NUL,0xff} up to length 2 (thorough 3) x every operation and position "
       "(incl. out-of-range substr/compare), nostd::span (static and dynamic extents 0..3, every constructor) vs an index-checked slice model, "
       "nostd::function_ref vs direct calls, nostd::variant vs std::variant over all operation sequences on two variants (8 alternatives incl. a throwing one)",
  design_ref="5/C20")
