H("c20_ptr", "C20", "seq", ["harness/c20_ptr.cc"], sdk=[], cxxflags=["-fno-access-control"],
  args={"quick": [], "thorough": []},
  what="real nostd::shared_ptr / nostd::unique_ptr vs std::shared_ptr / std::unique_ptr: two worlds of handles (two base handles, a derived handle whose base "
       "subobject is NOT at offset 0, a handle to const, std handles of the base and the derived type, objects with a handle member) driven by every operation "
       "sequence up to the depth bound (65 operations incl. converting moves derived->base, T->const T, from / to std::unique_ptr<Derived>); same null-ness, "
       "pointee identity, comparisons and destroyed objects after every operation, exactly-once destruction, ASan silent",
  design_ref="5/C20")
H("c20_values", "C20", "seq", ["harness/c20_values.cc"], sdk=[],
  args={"quick": [], "thorough": []},
  what="real nostd::string_view vs std::string_view over all pairs of strings over {a,b,NUL,0xff} up to length 2 (thorough 3) x every operation and position "
       "(incl. out-of-range substr/compare), nostd::span (static and dynamic extents 0..3, every constructor) vs an index-checked slice model, "
       "nostd::function_ref vs direct calls (16 callable kinds), nostd::variant vs std::variant over all operation sequences on two variants (8 alternatives incl. a throwing one) "
       "plus, per way of construction (emplace, in_place_type, in_place_index, initializer_list, valueless, throwing) x alternative, the const / rvalue / void / reference / ternary forms "
       "of get, get_if and visit; the default-constructed (null data) string_view as an operand of every operation; static-extent span construction from a source of another size "
       "(must terminate, run in a forked child); nostd::data / nostd::size / index_sequence against std",
  design_ref="5/C20")
