CLAIMS["C20"] = dict(
    engine="seq",
    technique="lock-step differential exploration of the real nostd types against their std counterparts: explicit-state exploration of operation "
              "histories (bounded depth, canonical-state pruning, one forked child per execution for the ownership histories) plus exhaustive "
              "enumeration of small input domains",
    text="string_view vs std::string_view: all ordered pairs of strings over {a,b,NUL,0xff} of length <= 2 (quick) / <= 3 (thorough), held in exact-size heap "
         "blocks under ASan, x every offered operation (constructors, element access, every compare overload, find(ch,pos), substr(pos,n), ==/!=/</> with "
         "string_view / std::string / const char* operands, std::hash consistent with ==, operator<<) with every position and count in {0..size+1, npos} "
         "including the out-of-range case (both sides must throw std::out_of_range in this build). span vs an index-checked slice model: static and "
         "dynamic extents 0..3 x 13 constructors x 3 offsets, size/empty/data/operator[]/iteration by element identity, write-through. unique_ptr / "
         "shared_ptr vs std::unique_ptr / std::shared_ptr: two worlds (two base handles, a derived handle, a std handle, a released raw pointer, an array "
         "handle; instance-counted objects that contain a handle) driven by every operation sequence of depth 4 (quick) / 7 (thorough) over 59 "
         "operations each (all constructors incl. from raw / std / unique_ptr / converting move, copy / move / nullptr / converting assignment incl. "
         "self-assignment and assignment from a handle owned by the target's pointee, reset, release, swap incl. self): after every operation equal "
         "null-ness, pointee identity, comparison results, the same set of destroyed objects, nothing destroyed twice, ASan silent; the pointee "
         "destructor stops the execution at the moment the real code destroys an object the reference keeps. function_ref vs direct calls for 12 "
         "callable kinds x call counts x arguments. variant vs std::variant: every sequence of depth 3 (quick) / 4 (thorough) over 112 operations on two "
         "variants with 8 alternatives (emplace / converting assignment / construction per alternative, copy / move assignment and construction, swap, "
         "throwing emplace and assignment), observing index, valueless_by_exception, holds_alternative / get / get_if by type and index for every "
         "alternative, unary and binary visit, all six relational operators and instance counts.",
    note=SEQ_NOTE + " Reference corrections: libstdc++ 12's std::variant::swap with exactly one valueless operand does not follow [variant.swap]; "
         "the reference performs the mandated exchange by hand in that case. Not compared (outside the statement or undefined in std): stream "
         "formatting with a field width, span construction with a mismatching count and out-of-range operator[] (terminate / assert), converting "
         "variant construction from a type that is not exactly an alternative, self-move of a variant.")
