CLAIMS["C08"] = dict(
    engine="seq",
    technique="explicit-state exploration of attribute-list pairs (types, orders, duplicates, allow-lists, key storage shapes) and of Record/Collect histories under small and default "
              "cardinality limits on the real series tables and storages against std::map / set-accounting reference models (bounded list length and history depth)",
    text="(a) c08_attrs: every pair of single-key lists over 47 typed values covering every AttributeValue alternative; every pair of lists of <= 3 and <= 2 (thorough <= 3) entries over "
         "keys {a,b,c} x 3 values (all orders, duplicates last-wins); keys with an embedded NUL or a common prefix; all pairs of 13 ways to build the empty attribute set "
         "(default-constructed MetricAttributes{}, empty iterable, empty initializer list, lists filtered to empty; must be equal, hash equally, share one table entry) and every sequence of "
         "<= 3 records mixing the attribute-less overloads with empty-container / filtered-to-empty / kept attribute sets over two cycles on SyncMetricStorage and on Meter counters and "
         "histograms with delta and cumulative collectors (one series per filtered set carrying the exact total); each with no filter and every allow-list, keys stored "
         "NUL-terminated / as a slice of a longer buffer / in an exact-size heap block (ASan), caller buffers overwritten after the call; on the real FilteredOrderedAttributeMap, "
         "its hash, FilteringAttributesProcessor (constructor path, process(), isPresent), AttributesHashMap, SyncMetricStorage and MeterProvider + View (delta and cumulative reader): equal-as-maps <=> same "
         "series (three-valued: int32/int64/uint of the same number, +0.0/-0.0, integral double vs integer, empty arrays of different element types are don't-care), equal => equal hash, "
         "the filter removes exactly the disallowed keys, stored values are owned copies of the right type. "
         "(b) c08_cardinality: real SyncMetricStorage with limit 1..4, every history of depth 8 (quick) / 9 (thorough) over Record(one of limit+2 sets, unique bit per record; set names "
         "up to symmetry) and Collect(collector) for {delta}, {cumulative}, {delta,cumulative} collectors; every history of depth 7 (quick) / 8 (thorough) whose alphabet also has Record without "
         "attributes (RecordLong(value, ctx): the empty set through the attribute-less overload); with the delta collector also under FilteringAttributesProcessor{k} with records "
         "{k=i, noise=unique}; AttributesHashMap(L), L = 1..3, directly: every sequence of depth 4 (quick) / 5 (thorough) over (one of L+1 sets or the empty set) x (the three GetOrSetDefault "
         "and three Set overloads) - after every call size <= L, a set that has an entry gets that entry, an absent set is inserted or (only once L distinct sets occurred) addressed to the "
         "overflow entry, no other entry changes; plus MeterProvider configurations at the default limit 2000 (1999 / 2001 sets, "
         "2x1100, 2x2001, 3x1100 over several cycles, two readers with two pending interval tables); after every collection: #series <= limit, every series is a recorded set or "
         "otel.metrics.overflow=true, a regular series holds only measurements of its own set - and all of them whenever the measurements in scope were recorded into one interval table (exact partition) -, the series add up to everything recorded in scope, no overflow series while fewer than "
         "limit distinct sets occurred.",
    note=SEQ_NOTE)
