"""Registry of harnesses: which sources make up each check, which engine variant they are built
with and which arguments each tier passes.  Used by bin/check."""

HARNESSES = []


def H(name, prop, variant, src, sdk=(), **kw):
    d = dict(name=name, prop=prop, variant=variant, src=list(src), sdk=list(sdk))
    d.update(kw)
    HARNESSES.append(d)
    return d


# --- machinery self tests (not properties) ------------------------------------------------------
H("selftest_seq", "SELF", "seq", ["harness/selftest_seq.cc"], what="core self-test: toy choice tree")

# --- C11 ---------------------------------------------------------------------------------------
H("c11_circbuf", "C11", "sched", ["harness/c11_circbuf.cc"], cxxflags=["-fno-access-control"],
  args={"quick": ["--k=2"], "thorough": ["--k=4", "--deadline=800"]},
  what="real CircularBuffer/AtomicUniquePtr: 1..3 producers x 1..2 Add (both overloads) vs one consumer (4 programs), all interleavings within the preemption bound, spurious weak-CAS failures",
  design_ref="5/C11")
H("c11_circbuf_big", "C11", "sched", ["harness/c11_circbuf.cc"], cxxflags=["-fno-access-control"],
  args={"quick": ["--set=big", "--k=1", "--c=1", "--deadline=25"], "thorough": ["--set=big", "--k=2", "--c=1", "--deadline=500"]},
  what="the larger CircularBuffer configurations (capacity 3 or 3 producers) with a smaller preemption bound", design_ref="5/C11")
H("c11_spinlock", "C11", "sched", ["harness/c11_spinlock.cc"], args={"quick": ["--k=3"], "thorough": ["--k=5", "--deadline=400"]},
  what="real SpinLockMutex: 2..3 threads x programs over lock/try_lock/unlock, occupancy <= 1 in every state, every lock() returns (deadlock / livelock detection)",
  design_ref="5/C11")
H("c11_tsan", "C11", "tsan", ["harness/c11_tsan.cc"], aux=True, args={"quick": ["300"], "thorough": ["3000"]},
  note="free-running ThreadSanitizer pass over the same bodies (sampling; assumption check for the sequentially consistent scheduler)")

# --- C01 / C02 / C03: batch processors under the scheduler ------------------------------------------
BATCH_SDK = ["common", "version", "resource", "trace", "logs"]
for _p in ("C01", "C02", "C03"):
    # preemption depth: quick k<=2, thorough k<=3 (no other deviation kinds, so the rounds are pure context bounds)
    H("batch_" + _p.lower(), _p, "sched", ["harness/batch_harness.cc"], sdk=BATCH_SDK,
      args={"quick": ["--oracle=" + _p, "--set=light", "--budget=100"],
            "thorough": ["--oracle=" + _p, "--set=light", "--k=3", "--t=0", "--c=0", "--budget=" + {"C01": "1200", "C02": "600", "C03": "500"}[_p]]},
      what="real BatchSpanProcessor and BatchLogRecordProcessor (with the real CircularBuffer) driven by producer / flusher / shutdown threads; oracle " + _p,
      design_ref="5/" + _p)
    # the other deviation kinds (a timer firing early = an arbitrarily slow thread, spurious weak-CAS failure, spurious
    # wake-up) combined with few preemptions
    H("batch_" + _p.lower() + "_dev", _p, "sched", ["harness/batch_harness.cc"], sdk=BATCH_SDK,
      args={"quick": ["--oracle=" + _p, "--set=light", "--k=0", "--t=1", "--c=1", "--w=1", "--budget=25"],
            "thorough": ["--oracle=" + _p, "--set=light", "--k=1", "--t=1", "--c=1", "--w=1", "--budget=300"]},
      what="same harness: timer deviations (a timeout firing although threads are runnable), spurious weak-CAS failures and spurious wake-ups, with at most one preemption; oracle " + _p,
      design_ref="5/" + _p)
    # the property's predicates over the configurations that were written to stress the OTHER two properties
    # (a failing exporter, flushers + shutdown racers, destruction for C01; B == Q, gates, slow exporters for C03; ...)
    _others = ",".join(q for q in ("C01", "C02", "C03") if q != _p)
    H("batch_" + _p.lower() + "_x", _p, "sched", ["harness/batch_harness.cc"], sdk=BATCH_SDK,
      args={"quick": ["--oracle=" + _p, "--cfgset=" + _others, "--set=light", "--k=2", "--budget=60"],
            "thorough": ["--oracle=" + _p, "--cfgset=" + _others, "--set=light", "--k=2", "--t=0", "--c=0", "--budget=400"]},
      what="same harness: the predicates of " + _p + " judged on the configuration sets of " + _others + " (every predicate holds for every configuration)",
      design_ref="5/" + _p)
H("batch_c02_heavy", "C02", "sched", ["harness/batch_harness.cc"], sdk=BATCH_SDK,
  args={"quick": ["--oracle=C02", "--set=heavy", "--k=1", "--budget=40"], "thorough": ["--oracle=C02", "--set=heavy", "--k=2", "--t=1", "--c=0", "--budget=400"]},
  what="the configurations of the batch harness with the largest state spaces (two concurrent flushers, flushers + shutdown callers), explored with a smaller preemption bound",
  design_ref="5/C02")

# --- C14 ---------------------------------------------------------------------------------------
H("c14_tracestate", "C14", "seq", ["harness/c14_tracestate.cc"],
  what="real TraceState: all Set/Delete/Get/round-trip histories up to the depth bound from 4 start states (0,1,31,32 members) against an ordered-list model; "
       "FromHeader over a deviation-bounded header generator against an independent W3C member parser",
  design_ref="5/C14")


# --- per-property fragments: harness/reg_*.py are executed with H in scope -----------------------
import glob as _glob, os as _os
for _f in sorted(_glob.glob(_os.path.join(_os.path.dirname(_os.path.abspath(__file__)), "reg_*.py"))):
    exec(compile(open(_f).read(), _f, "exec"), {"H": H, "BATCH_SDK": BATCH_SDK})
H("prebuild_seq", "SELF", "seq", ["harness/prebuild_seq.cc"], sdk=["common", "version", "resource", "trace", "logs", "metrics"], what="warms the object cache")
