"""Registry of harnesses: which sources make up each check, which engine variant they are built
with and which arguments each tier passes.  Used by bin/check."""

HARNESSES = []


def H(name, prop, variant, src, sdk=(), **kw):
    d = dict(name=name, prop=prop, variant=variant, src=list(src), sdk=list(sdk))
    d.update(kw)
    HARNESSES.append(d)
    return d


# --- machinery self tests (not properties) ------------------------------------------------------
H("selftest_seq", "SELF", "seq", ["harness/selftest_seq.cc"], what="core self-test: toy choice tree")
