H("batch_tsan", "C01", "tsan", ["harness/batch_tsan.cc"], sdk=["common", "version", "resource", "trace", "logs", "metrics"], aux=True, real_clock=True,
  args={"quick": ["25"], "thorough": ["400"]},
  note="free-running ThreadSanitizer pass over batch span/log processors, simple span/log processors, meter record/collect and a periodic reader behind its provider (timer cycles racing ForceFlush, recorders and Shutdown) (sampling; assumption check for the sequentially consistent scheduler used by C01/C02/C03/C06)")
