C19_SDK = ["common", "version", "resource", "trace", "logs", "metrics"]
H("c19_names", "C19", "seq", ["harness/c19_names.cc", "harness/c19_noregex.cc"], sdk=C19_SDK,
  what="real Meter::Create* of all 12 instrument kinds over a deviation-bounded generator of names (lengths 0,1,2,254,255,256,300 x every byte value at the "
       "first/second/middle/last position, NUL probes; thorough: two mutations) and units (lengths 0,1,63,64,300 x every byte value at first/last position), each as "
       "NUL-terminated std::string, slice of a longer buffer (valid and invalid tail) and exact-size heap block; one measurement, a pull MetricReader collects; "
       "oracle: valid <=> exactly one stream with exactly that name/unit, invalid => inert instrument and no stream; the code of a build without working std::regex "
       "(hand-written validator, view/predicate.h #else branch through ViewRegistry::FindViews; compiled from the unchanged sources under other class names) is held to "
       "the same reference on every sweep input and on a selector x instrument table (exact name, '*', patterns)",
  design_ref="5/C19")
H("c19_views", "C19", "seq", ["harness/c19_views.cc"], sdk=C19_SDK,
  what="real MeterProvider with every set of <= 2 views over {instrument type} x {exact name, regex pattern, '*', no match} x {unit '', exact} x {meter selectors: wildcard, "
       "exact name/version/schema, name only, other version, other name} x {view specs: identity, rename+description+Sum, LastValue+keep k1, Histogram+keep k2, Drop, Histogram "
       "with its own boundaries and no min/max, rename onto another instrument's name}; seven instruments (two counters, histogram, up-down counter, observable gauge / counter / "
       "up-down counter) on two meters (one unversioned and schema-less with the same name) make one measurement each; oracle: the streams at a pull reader are exactly those shaped by "
       "each matching view plus the default stream of every unmatched instrument (name, description, unit, point kind, configured histogram boundaries / min-max, attribute keys)",
  design_ref="5/C19")
H("c19_scopes", "C19", "seq", ["harness/c19_scopes.cc"], sdk=C19_SDK, cxxflags=["-fno-access-control"],
  args={"quick": ["--rules=4"], "thorough": ["--rules=5"]},
  what="real TracerProvider / MeterProvider / LoggerProvider with a ScopeConfigurator built from every rule list up to the length bound over {name-equals x, name-equals y, "
       "custom matcher on the version, custom matcher on an attribute} x {enable, disable} with both defaults; four scope identities emit one span / one measurement through an "
       "instrument of every kind (all 12 Create* against the short rule lists) / three log records (EmitLogRecord helper, CreateLogRecord + EmitLogRecord(record), a record made elsewhere) "
       "each into harness exporters (simple processors, pull reader); oracle: exactly the scopes enabled by the first matching rule (else the default) arrive, once, with their own "
       "identity; plus every ordered pair of (name, version, schema[, logger name, attributes]) requests under three configurators: same object iff equal in every component",
  design_ref="5/C19")
# The synchronous gauges and the scope attributes of tracers / meters only exist under ABI v2: the same sources (and
# the SDK) compiled a second time with the ABI macro redefined (same flags as c17_syncgauge, so the SDK objects are shared).
C19_ABI2 = ["-fno-access-control", "-UOPENTELEMETRY_ABI_VERSION_NO", "-DOPENTELEMETRY_ABI_VERSION_NO=2"]
H("c19_names_abi2", "C19", "seq", ["harness/c19_names.cc", "harness/c19_noregex.cc"], sdk=C19_SDK, cxxflags=C19_ABI2,
  args={"quick": ["--kinds=gauges"], "thorough": ["--kinds=gauges"]},
  what="ABI v2 build: the name / unit generator of c19_names through Meter::CreateInt64Gauge / CreateDoubleGauge (core sets for both, byte sweeps for one (thorough: both), "
       "exact heap blocks); same oracle, default aggregation of a gauge = last value",
  design_ref="5/C19")
H("c19_scopes_abi2", "C19", "seq", ["harness/c19_scopes.cc"], sdk=C19_SDK, cxxflags=C19_ABI2,
  args={"quick": ["--rules=3", "--signals=2"], "thorough": ["--rules=4", "--signals=2"]},
  what="ABI v2 build: c19_scopes for tracers and meters with scope attributes (GetTracer / GetMeter(name, version, schema, attributes)): the attribute matcher of the "
       "configurator now decides for all signals, every instrument kind incl. the two synchronous gauges on enabled / disabled meters, and the identity pairs run over "
       "{name} x {version} x {schema} x {no attributes as nullptr, as empty iterable, k=1, k=2, j=1}",
  design_ref="5/C19")
