CLAIMS["C04"] = dict(engine="seq",
  technique="explicit-state exploration of span programs on the real TracerProvider / Span / MultiSpanProcessor / SpanData against a reference model "
            "(bounded depth, no pruning), with scribble-then-free ownership passes under AddressSanitizer",
  text="Sequential part of C04. A real TracerProvider with {simple}, {deferred}, {simple,deferred}, {simple,deferred,simple} processors (SimpleSpanProcessor and a "
       "harness processor that exports only at ForceFlush, long after the caller's buffers are gone) whose exporters keep the real SpanData. Enumerated: every "
       "program of depth 3 (quick; thorough: depth 4, and depth 5 with the complete value alphabet at the last two positions) over 35 operations "
       "{SetAttribute(key in k1,k2,'' x 6 value shapes), AddEvent through 8 entry points, SetStatus x4, UpdateName x3, End() / End(end time)} - every operation also "
       "after End - from 4 start shapes; all ordered pairs of the 26-value alphabet (one value per AttributeValue alternative, empty string, embedded NUL, empty "
       "arrays, 1000-element arrays) on each key; all combinations of kind x explicit/default times x attribute set (incl. duplicate keys) x link set x StartSpan "
       "entry point x name. Every argument lives in exact-size heap blocks that are overwritten with a different valid value (pass 1) and freed (pass 2) as soon "
       "as the call returns. Oracle at every exporter: name, kind, start time and duration (explicit values exactly, defaulted ones inside the virtual-clock "
       "window read around the call), attributes with last-write-wins and exact value type, events and links in call order with their attributes, status, "
       "resource, instrumentation scope, identity; exactly one notification per processor at the first End, nothing after a second End / late mutators / release / "
       "shutdown; each processor owns a distinct object with identical content. ABI v1 has no Span::AddLink(s). The two-thread part of the property is the business of the separate sched harness conc_c04, not of this one.",
  note=SEQ_NOTE)
