CLAIMS["C05"] = dict(engine="seq",
  technique="explicit-state exploration of span-tree programs on the real Tracer / Span / NoopSpan / RuntimeContext against a scope-stack model "
            "(bounded depth, canonical-state pruning over the real span contexts)",
  text="Sequential part of C05. A real TracerProvider with a custom deterministic IdGenerator (one part: the real RandomIdGenerator). Enumerated: every program of "
       "depth 4 (quick; thorough: 5, and 6 for ParentBased(AlwaysOn) and a RECORD_ONLY sampler) over {StartSpan with no explicit parent / explicit valid remote "
       "SpanContext with flags 00,01,02,03,ff and trace state / without trace state / local SpanContext / invalid SpanContext carrying ids, flags and trace state / "
       "Context holding one of the 3 latest spans / a remote span / an invalid span / nothing / nothing + root mark / current context + root mark; "
       "WithActiveSpan on one of the 3 latest spans; scope exit; End} x {AlwaysOn, AlwaysOff, ParentBased(on/off), TraceIdRatio(0,.5,1), a harness sampler returning "
       "DROP / RECORD_ONLY / RECORD_AND_SAMPLE with/without trace state and attributes; thorough: a sampler whose decision is chosen per call}; span kind, start "
       "attributes and links rotate with the span number through three StartSpan entry points. Oracle on GetContext() "
       "of every span and on the exported SpanData: parent chosen by the statement's precedence rule, trace id inherited or fresh, span id fresh, non-zero and from "
       "the configured generator, parent span id, sampled bit = the decision the sampler actually returned, and that decision was asked for this span (the sampler "
       "was shown the resolved parent context, the span's trace id, and the name / kind / attributes / links given to StartSpan), no flag outside W3C level 1, "
       "trace state = sampler's else parent's, the new context is not marked remote, dropped spans valid but never exported, sampled spans exported exactly once. "
       "One small part forks the process after 0-2 spans with the real RandomIdGenerator: the span started in the child and the one started in the parent must not "
       "repeat each other's (or any earlier) ids. The multi-thread part of the property is the business of the separate sched harness conc_c05, not of this one.",
  note=SEQ_NOTE)
