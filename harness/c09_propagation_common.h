// Shared by the C09 (W3C trace context) and C16 (B3 / Jaeger) propagation harnesses:
//  * Block / MapCarrier : a TextMapCarrier whose Get() returns views into exact-size heap blocks without a
//                         terminating NUL (an empty or absent value is a block with ZERO addressable bytes),
//                         so that any read outside [data, data+size) is an AddressSanitizer report;
//  * id patterns        : every (position, nibble) one-hot id, all-f, a mixed-digit id, the zero id;
//  * mutate()           : one pick-driven point mutation (replace / insert / delete / duplicate / truncate /
//                         append a tail) over a byte-class alphabet, in canonical position order;
//  * extract_checked()  : runs Propagator::Extract on a caller context and checks everything that does not
//                         depend on the header format (caller's context and carrier untouched, a rejected
//                         input returns the caller's context itself, an installed context is valid and
//                         remote and keeps the caller's other values, results do not alias carrier memory).
// Nothing here calls the propagators' own hex / split helpers.
#pragma once
#include <sanitizer/asan_interface.h>

#include <array>
#include <map>
#include <memory>
#include <string>
#include <vector>

#include <opentelemetry/context/context.h>
#include <opentelemetry/context/propagation/text_map_propagator.h>
#include <opentelemetry/trace/context.h>
#include <opentelemetry/trace/default_span.h>
#include <opentelemetry/trace/span_context.h>
#include <opentelemetry/trace/span_metadata.h>
#include <opentelemetry/trace/trace_state.h>

#include "seq/vf_seq.h"

#define VFP_CHECK(c, cond, sig, msg) \
  do { if (!(cond)) (c).fail((sig), (msg)); } while (0)

namespace vfp {

namespace nostd   = opentelemetry::nostd;
namespace trace   = opentelemetry::trace;
namespace context = opentelemetry::context;

// ---- exact-size heap block -----------------------------------------------------------------------
class Block {
  char *p_;
  size_t n_;

 public:
  explicit Block(const std::string &s) : p_(static_cast<char *>(malloc(s.size() ? s.size() : 1))), n_(s.size()) {
    if (n_) memcpy(p_, s.data(), n_);
    else ASAN_POISON_MEMORY_REGION(p_, 1);  // an empty value has no readable byte at all
  }
  Block(const Block &) = delete;
  Block &operator=(const Block &) = delete;
  ~Block() {
    if (!n_) ASAN_UNPOISON_MEMORY_REGION(p_, 1);
    free(p_);
  }
  nostd::string_view view() const { return nostd::string_view(p_, n_); }
  std::string str() const { return std::string(p_, n_); }
  void scribble() { if (n_) memset(p_, '#', n_); }
};

class MapCarrier : public context::propagation::TextMapCarrier {
 public:
  std::map<std::string, std::unique_ptr<Block>> m;
  std::vector<std::string> sets;  // keys passed to Set, in order
  Block absent{std::string()};
  bool absent_null = false;  // opt-in: an absent key is answered with a default-constructed view (null data) instead of the zero-byte block

  nostd::string_view Get(nostd::string_view key) const noexcept override {
    auto it = m.find(std::string(key.data(), key.size()));
    if (it == m.end() && absent_null) return nostd::string_view();
    return it == m.end() ? absent.view() : it->second->view();
  }
  void Set(nostd::string_view key, nostd::string_view value) noexcept override {
    std::string k(key.data(), key.size());
    sets.push_back(k);
    m[k].reset(new Block(std::string(value.data(), value.size())));
  }
  void put(const std::string &k, const std::string &v) { m[k].reset(new Block(v)); }
  bool has(const std::string &k) const { return m.count(k) != 0; }
  std::string value(const std::string &k) const { auto it = m.find(k); return it == m.end() ? std::string() : it->second->str(); }
  std::map<std::string, std::string> snapshot() const {
    std::map<std::string, std::string> s;
    for (auto &e : m) s[e.first] = e.second->str();
    return s;
  }
  void scribble() { for (auto &e : m) e.second->scribble(); }
  std::string show() const {
    std::string o;
    for (auto &e : m) o += (o.empty() ? "" : " | ") + e.first + ": '" + vfq::printable(e.second->str(), 90) + "'";
    return o.empty() ? "(empty carrier)" : o;
  }
};

// ---- hex helpers (independent of propagation/detail/hex.h) ---------------------------------------------
inline std::string hex_lower(const uint8_t *p, size_t n) {
  static const char d[] = "0123456789abcdef";
  std::string s;
  for (size_t i = 0; i < n; ++i) { s += d[p[i] >> 4]; s += d[p[i] & 15]; }
  return s;
}
inline bool is_lhex(char c) { return (c >= '0' && c <= '9') || (c >= 'a' && c <= 'f'); }
inline bool is_xhex(char c) { return is_lhex(c) || (c >= 'A' && c <= 'F'); }
inline int nibble(char c) { return c <= '9' ? c - '0' : (c | 0x20) - 'a' + 10; }
inline bool all_lhex(const std::string &s) { for (char c : s) if (!is_lhex(c)) return false; return true; }
inline bool all_xhex(const std::string &s) { for (char c : s) if (!is_xhex(c)) return false; return true; }
inline std::string fold_hex(std::string s) { for (char &c : s) if (c >= 'A' && c <= 'F') c = (char)(c | 0x20); return s; }
inline bool all_zero_digits(const std::string &s) { for (char c : s) if (c != '0') return false; return true; }
template <size_t N>
std::array<uint8_t, N> bytes_of_hex(const std::string &h) {  // h: exactly 2N hex digits
  std::array<uint8_t, N> a{};
  for (size_t i = 0; i < N; ++i) a[i] = (uint8_t)(nibble(h[2 * i]) * 16 + nibble(h[2 * i + 1]));
  return a;
}

// ---- id patterns: index 0 is the zero (invalid) id -----------------------------------------------------
template <size_t N>
const std::vector<std::array<uint8_t, N>> &id_patterns() {
  static std::vector<std::array<uint8_t, N>> v;
  if (v.empty()) {
    std::array<uint8_t, N> z{};
    v.push_back(z);  // zero id
    for (size_t pos = 0; pos < 2 * N; ++pos)
      for (int d = 1; d < 16; ++d) {  // one-hot: includes every single-bit id (d = 1, 2, 4, 8)
        std::array<uint8_t, N> a{};
        a[pos / 2] = (uint8_t)((pos % 2) ? d : d << 4);
        v.push_back(a);
      }
    std::array<uint8_t, N> f;
    f.fill(0xff);
    v.push_back(f);
    std::array<uint8_t, N> mix{};
    for (size_t i = 0; i < N; ++i) mix[i] = (uint8_t)(((2 * i) % 16) << 4 | ((2 * i + 1) % 16));  // 0123456789abcdef...
    v.push_back(mix);
  }
  return v;
}

inline trace::SpanContext make_sc(const std::array<uint8_t, 16> &t, const std::array<uint8_t, 8> &s, uint8_t flags, bool remote,
                                  nostd::shared_ptr<trace::TraceState> ts = trace::TraceState::GetDefault()) {
  return trace::SpanContext(trace::TraceId(nostd::span<const uint8_t, 16>(t.data(), 16)), trace::SpanId(nostd::span<const uint8_t, 8>(s.data(), 8)),
                            trace::TraceFlags(flags), remote, ts);
}
inline std::string tid_hex(const trace::SpanContext &sc) { return hex_lower(sc.trace_id().Id().data(), 16); }
inline std::string sid_hex(const trace::SpanContext &sc) { return hex_lower(sc.span_id().Id().data(), 8); }

inline context::Context ctx_with_span(const trace::SpanContext &sc) {
  context::Context root;
  return root.SetValue(trace::kSpanKey, nostd::shared_ptr<trace::Span>(new trace::DefaultSpan(sc)));
}

// ---- pick-driven point mutation --------------------------------------------------------------------------
struct MutSpec {
  std::string classes;             // one representative per byte class the parsers can distinguish
  std::vector<std::string> tails;  // multi-byte tails
};

inline std::string show_byte(char ch) { return vfq::printable(std::string(1, ch)); }

// Applies one mutation at a position >= *minpos (so that two mutations are enumerated in one order only).
// Returns a description, or "" when the chosen alternative does not change the string.
inline std::string mutate(vf::Ctx &c, std::string &s, size_t *minpos, const MutSpec &ms) {
  enum { REPLACE, INSERT, DELETE, DUP, TRUNC, TAIL, NK };
  int kind = c.pick("mut-kind", NK);
  size_t len = s.size(), lo = *minpos;
  auto pickpos = [&](size_t hi) -> long { return hi <= lo ? -1 : (long)lo + c.pick("mut-pos", (int)(hi - lo)); };
  long p;
  switch (kind) {
    case REPLACE: {
      if ((p = pickpos(len)) < 0) return "";
      char ch = ms.classes[c.pick("mut-class", (int)ms.classes.size())];
      if (s[p] == ch) return "";
      s[p] = ch; *minpos = (size_t)p;
      return vf::sfmt("replace@%ld:%s", p, show_byte(ch).c_str());
    }
    case INSERT: {
      if ((p = pickpos(len + 1)) < 0) return "";
      char ch = ms.classes[c.pick("mut-class", (int)ms.classes.size())];
      s.insert((size_t)p, 1, ch); *minpos = (size_t)p;
      return vf::sfmt("insert@%ld:%s", p, show_byte(ch).c_str());
    }
    case DELETE:
      if ((p = pickpos(len)) < 0) return "";
      s.erase((size_t)p, 1); *minpos = (size_t)p;
      return vf::sfmt("delete@%ld", p);
    case DUP:
      if ((p = pickpos(len)) < 0) return "";
      s.insert((size_t)p, 1, s[p]); *minpos = (size_t)p;
      return vf::sfmt("dup@%ld", p);
    case TRUNC:
      if ((p = pickpos(len)) < 0) return "";
      s.resize((size_t)p); *minpos = (size_t)p;
      return vf::sfmt("truncate@%ld", p);
    default: {
      const std::string &t = ms.tails[c.pick("mut-tail", (int)ms.tails.size())];
      s += t; *minpos = len;
      return "tail:" + vfq::printable(t);
    }
  }
}

// ---- Extract with the format-independent part of the oracle -------------------------------------------------
struct Extracted {
  bool installed = false;
  std::string tid, sid, ts;
  uint8_t flags = 0;
  bool sampled = false;
  std::string canon() const { return installed ? tid + "-" + sid + "-" + vf::sfmt("%02x", flags) + "[" + ts + "]" : "rejected"; }
};

// caller_kind 0: empty context; 1: context holding another value and a valid local (non-remote) span
inline Extracted extract_checked(vf::Ctx &c, context::propagation::TextMapPropagator &prop, MapCarrier &car, int caller_kind, const std::string &P) {
  static const std::array<uint8_t, 16> kt = bytes_of_hex<16>("11111111111111111111111111111111");
  static const std::array<uint8_t, 8> ks  = bytes_of_hex<8>("2222222222222222");
  context::Context caller;
  nostd::shared_ptr<trace::Span> own;
  if (caller_kind == 1) {
    own = nostd::shared_ptr<trace::Span>(new trace::DefaultSpan(make_sc(kt, ks, 0x01, false)));
    context::Context root;
    context::Context mid = root.SetValue("vf.other", static_cast<int64_t>(42));
    caller = mid.SetValue(trace::kSpanKey, own);
  }
  context::Context caller_copy = caller;  // shares the head node
  auto before = car.snapshot();
  context::Context ret = prop.Extract(car, caller);
  VFP_CHECK(c, car.snapshot() == before, P + ":extract-modified-carrier", "Extract changed the carrier: " + car.show());
  car.scribble();  // whatever was extracted must not alias the carrier's buffers
  // the caller's context is a value: it must still be what it was
  VFP_CHECK(c, caller == caller_copy, P + ":caller-context-modified", "Extract re-seated the caller's context object");
  {
    context::ContextValue v = caller.GetValue(trace::kSpanKey);
    if (caller_kind == 1) {
      bool ok = nostd::holds_alternative<nostd::shared_ptr<trace::Span>>(v) && nostd::get<nostd::shared_ptr<trace::Span>>(v).get() == own.get();
      context::ContextValue o = caller.GetValue("vf.other");
      ok = ok && nostd::holds_alternative<int64_t>(o) && nostd::get<int64_t>(o) == 42;
      trace::SpanContext osc = own->GetContext();
      ok = ok && tid_hex(osc) == std::string(32, '1') && sid_hex(osc) == std::string(16, '2') && osc.trace_flags().flags() == 1 && !osc.IsRemote();
      VFP_CHECK(c, ok, P + ":caller-context-modified", "the caller's context no longer holds its own span / values after Extract");
    } else {
      VFP_CHECK(c, nostd::holds_alternative<nostd::monostate>(v), P + ":caller-context-modified", "the caller's empty context holds a span after Extract");
    }
  }
  Extracted e;
  if (ret == caller) return e;  // rejected: the returned context IS the caller's context
  context::ContextValue v = ret.GetValue(trace::kSpanKey);
  VFP_CHECK(c, nostd::holds_alternative<nostd::shared_ptr<trace::Span>>(v), P + ":new-context-without-span",
            "Extract returned a context that is not the caller's and holds no span; carrier " + car.show());
  nostd::shared_ptr<trace::Span> sp = nostd::get<nostd::shared_ptr<trace::Span>>(v);
  trace::SpanContext sc = sp->GetContext();
  VFP_CHECK(c, sp.get() != own.get() && sc.IsValid(), P + ":installed-invalid-context",
            "Extract did not return the caller's context although no valid span context was decoded (ids " + tid_hex(sc) + "/" + sid_hex(sc) + ")");
  VFP_CHECK(c, sc.IsRemote(), P + ":installed-not-remote", "the extracted span context is not marked remote (ids " + tid_hex(sc) + "/" + sid_hex(sc) + ")");
  if (caller_kind == 1) {
    context::ContextValue o = ret.GetValue("vf.other");
    VFP_CHECK(c, nostd::holds_alternative<int64_t>(o) && nostd::get<int64_t>(o) == 42, P + ":caller-values-lost",
              "the context returned by Extract lost the caller's other values");
  }
  e.installed = true;
  e.tid = tid_hex(sc);
  e.sid = sid_hex(sc);
  e.flags = sc.trace_flags().flags();
  e.sampled = sc.IsSampled();
  e.ts = sc.trace_state()->ToHeader();
  return e;
}

}  // namespace vfp
