H("c12_sampling", "C12", "seq", ["harness/c12_sampling.cc"], sdk=["common", "version", "resource", "trace"], cxxflags=["-fno-access-control"],
  what="real TraceIdRatioBasedSampler over ~150 (thorough ~830) boundary ratios x trace ids located on every sampler's decision boundary by bisection (+-1, +-2, +-1024.., other byte orders, "
       "three low halves): never / always / independence per ratio, monotonicity over all ratio pairs; real ParentBasedSampler over 80 parents (validity shape x 5 flag "
       "bytes x remote x trace state) x 9 delegates incl. a recording sampler; AlwaysOn/AlwaysOff over the same parents; sampled flag of spans started through a real Tracer",
  design_ref="5/C12")
