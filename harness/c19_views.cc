// C19 (b): a registered view applies to exactly the instruments its selectors describe and shapes the
// exported stream with exactly its name / description / aggregation / attribute filter (Engine B).
// Every set of <= 2 views over a selector alphabet {instrument type} x {exact name, pattern, "*", no
// match} x {unit "", exact} x {meter selectors} x {view specs} is registered on a real MeterProvider;
// seven instruments (one of every type the ABI v1 API creates, two counters) on two meters (one of them
// unversioned and schema-less, same name) each make one measurement with two attributes; a pull reader
// collects. Oracle: the exported streams are exactly {stream shaped by each matching view} U {default
// stream of every instrument no view matches}. View specs include a histogram aggregation with its own
// configuration (bucket boundaries, no min/max) and a rename onto another instrument's name.
#include <algorithm>
#include <regex>

#include <opentelemetry/sdk/metrics/aggregation/aggregation_config.h>
#include <opentelemetry/sdk/metrics/view/attributes_processor.h>
#include <opentelemetry/sdk/metrics/view/instrument_selector.h>
#include <opentelemetry/sdk/metrics/view/meter_selector.h>
#include <opentelemetry/sdk/metrics/view/view.h>
#include <opentelemetry/sdk/metrics/view/view_registry.h>

#include "c19_common.h"

namespace {
using namespace c19;

// ---- fixture ---------------------------------------------------------------------------------------
struct MeterId { const char *name, *version, *schema; };
const MeterId kMeters[2] = {{"m", "1.0", "https://s/1"}, {"m", "", ""}};
struct Inst {
  int meter;
  sm::InstrumentType type;
  const char *name, *unit, *desc;
  int value;  // the one measurement; distinct per instrument so that a stream names its source
};
constexpr int kNumInst = 7;
const Inst kInst[kNumInst] = {
    {0, sm::InstrumentType::kCounter, "abc", "ms", "d0", 3},                  // UInt64Counter
    {0, sm::InstrumentType::kHistogram, "axy", "", "d1", 5},                  // DoubleHistogram
    {1, sm::InstrumentType::kCounter, "abc", "ms", "d2", 11},                 // UInt64Counter
    {1, sm::InstrumentType::kObservableGauge, "aobs", "ms", "d3", 13},        // Int64ObservableGauge
    {1, sm::InstrumentType::kUpDownCounter, "axy", "", "d4", 17},             // Int64UpDownCounter; the name of the other meter's histogram
    {0, sm::InstrumentType::kObservableCounter, "abd", "ms", "d5", 19},       // Int64ObservableCounter
    {1, sm::InstrumentType::kObservableUpDownCounter, "aud", "s", "d6", 23},  // DoubleObservableUpDownCounter; the only unit 's'
};
bool is_async(const Inst &i) {
  return i.type == sm::InstrumentType::kObservableGauge || i.type == sm::InstrumentType::kObservableCounter || i.type == sm::InstrumentType::kObservableUpDownCounter;
}

// ---- selector / view alphabet -------------------------------------------------------------------------
constexpr int kNumTypes = 6;
const sm::InstrumentType kTypes[kNumTypes] = {sm::InstrumentType::kCounter, sm::InstrumentType::kHistogram, sm::InstrumentType::kObservableGauge, sm::InstrumentType::kUpDownCounter,
                                              sm::InstrumentType::kObservableCounter, sm::InstrumentType::kObservableUpDownCounter};
const char *const kTypeName[kNumTypes] = {"Counter", "Histogram", "ObservableGauge", "UpDownCounter", "ObservableCounter", "ObservableUpDownCounter"};
// instrument-name selectors are regular expressions in this version ("*" = everything); only patterns
// whose meaning is not in doubt
const char *const kNamePat[] = {"abc", "a.*", "*", "zzz", "ab", "a[bx].", ".*s"};
const char *const kUnitSel[] = {"", "ms", "s"};
const MeterId kMeterSel[] = {{"", "", ""}, {"m", "1.0", "https://s/1"}, {"m", "", ""}, {"m", "2.0", ""}, {"n", "", ""}, {"m", "", "https://s/2"}, {"", "1.0", ""}};
struct Spec { const char *name, *desc; sm::AggregationType agg; const char *keep; /* nullptr: no filter */ bool cfg; /* histogram configuration: boundaries {0,10}, no min/max */ };
const Spec kSpecs[] = {
    {"", "", sm::AggregationType::kDefault, nullptr, false},
    {"renamed", "newdesc", sm::AggregationType::kSum, nullptr, false},
    {"", "", sm::AggregationType::kLastValue, "k1", false},
    {"hview", "", sm::AggregationType::kHistogram, "k2", false},
    {"dropped", "", sm::AggregationType::kDrop, nullptr, false},
    {"hb", "", sm::AggregationType::kHistogram, nullptr, true},  // the view's aggregation comes with its own bucket boundaries
    {"axy", "", sm::AggregationType::kDefault, nullptr, false},  // renames onto the name of another instrument (the histogram of MA / the up-down counter of MB)
};
const char *const kCfgKind = "hist[0,10]-nominmax";  // how a stream shaped by the configured histogram is named below
struct ViewDef { int type, name, unit, meter, spec; };
std::vector<ViewDef> g_single, g_pair, g_pair_b, g_triple;

std::string show(const ViewDef &v) {
  const MeterId &ms = kMeterSel[v.meter];
  const Spec &sp = kSpecs[v.spec];
  return vf::sfmt("view{select %s name~'%s' unit'%s' meter('%s','%s','%s') -> name'%s' desc'%s' agg%d%s keep:%s}", kTypeName[v.type], kNamePat[v.name], kUnitSel[v.unit], ms.name,
                  ms.version, ms.schema, sp.name, sp.desc, (int)sp.agg, sp.cfg ? "(boundaries 0,10; no min/max)" : "", sp.keep ? sp.keep : "*");
}

void setup(vf::Options &o) {
  o.split_depth = 2;
  o.deadline_s = o.thorough ? 1200 : 120;
  o.table_bits = 23;
  quiet_sdk_log();
  auto fill = [](std::vector<ViewDef> &out, int nt, int nn, int nu, int nm, int ns) {
    for (int t = 0; t < nt; ++t)
      for (int n = 0; n < nn; ++n)
        for (int u = 0; u < nu; ++u)
          for (int m = 0; m < nm; ++m)
            for (int s = 0; s < ns; ++s) out.push_back({t, n, u, m, s});
  };
  auto fill_from = [](std::vector<ViewDef> &out, std::vector<int> ts, std::vector<int> ns, std::vector<int> us, std::vector<int> ms, std::vector<int> ss) {
    for (int t : ts) for (int n : ns) for (int u : us) for (int m : ms) for (int s : ss) out.push_back({t, n, u, m, s});
  };
  // (types, name patterns, unit selectors, meter selectors, view specs): prefixes of the tables above
  fill(g_single, kNumTypes, 7, 3, 7, 7);
  if (o.thorough) { fill(g_pair, 4, 4, 2, 5, 5); fill(g_triple, 2, 2, 1, 3, 4); }
  else fill(g_pair, 3, 3, 1, 4, 4);
  // second pair alphabet: the instrument types and view specs that are not in the first one (up-down counter, observable
  // counter / up-down counter; configured histogram, rename onto another instrument's name) next to a few of the first
  if (o.thorough) fill_from(g_pair_b, {0, 1, 2, 3, 4, 5}, {0, 1, 2}, {0}, {0, 1}, {0, 1, 2, 3, 4, 5, 6});
  else fill_from(g_pair_b, {0, 1, 3, 4}, {0, 1}, {0}, {0}, {0, 2, 5, 6});
}

// ---- reference ---------------------------------------------------------------------------------------
bool sel_eq(const char *sel, const char *actual) { return !*sel || !strcmp(sel, actual); }
bool name_matches(const char *pat, const std::string &name) {
  if (!strcmp(pat, "*")) return true;
  static std::map<std::string, std::regex> cache;  // immutable once filled
  auto it = cache.find(pat);
  if (it == cache.end()) it = cache.emplace(pat, std::regex(pat)).first;
  return std::regex_match(name.begin(), name.end(), it->second);
}
// lenient = the reading in which a meter without version / schema matches every version / schema selector
bool meter_matches(const MeterId &sel, const MeterId &m, bool lenient) {
  return sel_eq(sel.name, m.name) && ((lenient && !*m.version) || sel_eq(sel.version, m.version)) && ((lenient && !*m.schema) || sel_eq(sel.schema, m.schema));
}
bool view_matches(const ViewDef &v, const Inst &i, bool lenient) {
  return kTypes[v.type] == i.type && name_matches(kNamePat[v.name], i.name) && sel_eq(kUnitSel[v.unit], i.unit) && meter_matches(kMeterSel[v.meter], kMeters[i.meter], lenient);
}
const char *default_kind(sm::InstrumentType t) {
  switch (t) {
    case sm::InstrumentType::kHistogram: return "hist";
    case sm::InstrumentType::kObservableGauge: case sm::InstrumentType::kGauge: return "last";
    default: return "sum";
  }
}
// how an exported stream's aggregation is named for the comparison: the point kind; a histogram with exactly the
// boundaries / min-max setting of the configured view spec is told apart from every other histogram (which
// boundaries a histogram without configuration has is not part of the statement)
std::string got_kind(const Stream &s) {
  std::string kind = s.kind == "sum-nonmono" ? "sum" : s.kind;
  if (kind == "hist" && s.bounds == "[0,10]") kind += "[0,10]";
  if (kind.compare(0, 4, "hist") == 0 && !s.minmax) kind += "-nominmax";
  return kind;
}
// What a reader must see for instrument `i` shaped by view spec `sp` (nullptr: no view matched).
struct Want { std::string name, desc, unit, kind, attrs; };
Want shaped(const Inst &i, const Spec *sp, bool filter_applies) {
  Want w;
  w.name = sp && *sp->name ? sp->name : i.name;
  w.desc = sp && *sp->desc ? sp->desc : i.desc;
  w.unit = i.unit;
  sm::AggregationType a = sp ? sp->agg : sm::AggregationType::kDefault;
  w.kind = a == sm::AggregationType::kDefault ? default_kind(i.type) : a == sm::AggregationType::kSum ? "sum" : a == sm::AggregationType::kHistogram ? (sp->cfg ? kCfgKind : "hist") : a == sm::AggregationType::kLastValue ? "last" : "drop";
  const char *keep = sp && filter_applies ? sp->keep : nullptr;
  w.attrs = !keep ? "{k1=v1,k2=v2}" : !strcmp(keep, "k1") ? "{k1=v1}" : "{k2=v2}";
  return w;
}
std::string want_canon(const Want &w) { return w.name + "/" + w.desc + "/" + w.unit + "/" + w.kind + "/" + (w.kind == "drop" ? "" : w.attrs); }

// hypotheses about the implementation, bit set of known deviations
enum { LENIENT_METER = 1, LAST_VIEW_ONLY = 2, ASYNC_FILTER_IGNORED = 4 };
std::vector<std::string> expected_for(const Inst &i, const std::vector<ViewDef> &views, int dev) {
  std::vector<const Spec *> m;
  for (auto &v : views)
    if (view_matches(v, i, dev & LENIENT_METER)) m.push_back(&kSpecs[v.spec]);
  std::vector<std::string> out;
  bool filter = !(is_async(i) && (dev & ASYNC_FILTER_IGNORED));
  if (m.empty()) out.push_back(want_canon(shaped(i, nullptr, filter)));
  else if (dev & LAST_VIEW_ONLY) out.push_back(want_canon(shaped(i, m.back(), filter)));
  else
    for (auto *sp : m) out.push_back(want_canon(shaped(i, sp, filter)));
  // a Drop aggregation exports no data: whether an empty stream is still listed is not stated; both
  // sides are normalised by removing dropped streams
  out.erase(std::remove_if(out.begin(), out.end(), [](const std::string &s) { return s.find("/drop/") != std::string::npos; }), out.end());
  std::sort(out.begin(), out.end());
  return out;
}
// Two matching views that shape the stream identically: whether one or two identical streams are exported
// is not stated; identical streams of one instrument are compared as one.
void dedupe(std::vector<std::string> &v) { v.erase(std::unique(v.begin(), v.end()), v.end()); }

// state: the Inst whose value is observed
void observe_value(mapi::ObserverResult r, void *state) {
  const Inst *inst = static_cast<const Inst *>(state);
  std::map<std::string, std::string> attrs = {{"k1", "v1"}, {"k2", "v2"}};
  ot::common::KeyValueIterableView<std::map<std::string, std::string>> view(attrs);
  if (nostd::holds_alternative<nostd::shared_ptr<mapi::ObserverResultT<int64_t>>>(r)) nostd::get<nostd::shared_ptr<mapi::ObserverResultT<int64_t>>>(r)->Observe(inst->value, view);
  else nostd::get<nostd::shared_ptr<mapi::ObserverResultT<double>>>(r)->Observe((double)inst->value, view);
}

std::string join(const std::vector<std::string> &v) {
  std::string s;
  for (auto &x : v) s += (s.empty() ? "" : "  ") + x;
  return "[" + s + "]";
}

void run(vf::Ctx &c) {
  std::vector<ViewDef> views;
  // 0: no view, 1: one view, 2: ordered pair (first alphabet), 3: ordered pair (second alphabet), 4: ordered triple (thorough)
  int mode = c.pick("nviews", g_triple.empty() ? 4 : 5);
  if (mode == 1) views.push_back(c.pick_from("view", g_single));
  if (mode == 2) { views.push_back(c.pick_from("view", g_pair)); views.push_back(c.pick_from("view2", g_pair)); }
  if (mode == 3) { views.push_back(c.pick_from("view", g_pair_b)); views.push_back(c.pick_from("view2", g_pair_b)); }
  if (mode == 4) { views.push_back(c.pick_from("view", g_triple)); views.push_back(c.pick_from("view2", g_triple)); views.push_back(c.pick_from("view3", g_triple)); }
  // Quick tier, first pair alphabet: its views select Counter / Histogram / ObservableGauge only, so the three instruments of
  // the other types could only get their default stream; they are left out there (cost) - every single view and the second
  // pair alphabet run against all seven, the thorough tier always does.
  const int ninst = (mode == 2 && !c.thorough()) ? 4 : kNumInst;

  c.stage("setup");
  auto reader = std::make_shared<PullReader>();
  sm::MeterProvider mp(std::unique_ptr<sm::ViewRegistry>(new sm::ViewRegistry()), ot::sdk::resource::Resource::GetEmpty());
  mp.AddMetricReader(reader);
  for (auto &v : views) {
    const MeterId &ms = kMeterSel[v.meter];
    const Spec &sp = kSpecs[v.spec];
    std::unique_ptr<sm::AttributesProcessor> proc;
    if (sp.keep) proc.reset(new sm::FilteringAttributesProcessor(std::unordered_map<std::string, bool>{{sp.keep, true}}));
    else proc.reset(new sm::DefaultAttributesProcessor());
    std::shared_ptr<sm::AggregationConfig> cfg;
    if (sp.cfg) {
      auto h = std::make_shared<sm::HistogramAggregationConfig>();
      h->boundaries_ = {0.0, 10.0};
      h->record_min_max_ = false;
      cfg = h;
    }
    mp.AddView(std::unique_ptr<sm::InstrumentSelector>(new sm::InstrumentSelector(kTypes[v.type], kNamePat[v.name], kUnitSel[v.unit])),
               std::unique_ptr<sm::MeterSelector>(new sm::MeterSelector(ms.name, ms.version, ms.schema)),
               std::unique_ptr<sm::View>(new sm::View(sp.name, sp.desc, "", sp.agg, cfg, std::move(proc))));
    c.step();
  }
  c.stage("instruments");
  nostd::shared_ptr<mapi::Meter> meters[2];
  for (int m = 0; m < 2; ++m) meters[m] = mp.GetMeter(kMeters[m].name, kMeters[m].version, kMeters[m].schema);
  std::map<std::string, std::string> attrs = {{"k1", "v1"}, {"k2", "v2"}};
  auto c0 = meters[0]->CreateUInt64Counter(kInst[0].name, kInst[0].desc, kInst[0].unit);
  auto h1 = meters[0]->CreateDoubleHistogram(kInst[1].name, kInst[1].desc, kInst[1].unit);
  auto c2 = meters[1]->CreateUInt64Counter(kInst[2].name, kInst[2].desc, kInst[2].unit);
  auto o3 = meters[1]->CreateInt64ObservableGauge(kInst[3].name, kInst[3].desc, kInst[3].unit);
  nostd::unique_ptr<mapi::UpDownCounter<int64_t>> u4;
  nostd::shared_ptr<mapi::ObservableInstrument> o5, o6;
  if (ninst == kNumInst) {
    u4 = meters[1]->CreateInt64UpDownCounter(kInst[4].name, kInst[4].desc, kInst[4].unit);
    o5 = meters[0]->CreateInt64ObservableCounter(kInst[5].name, kInst[5].desc, kInst[5].unit);
    o6 = meters[1]->CreateDoubleObservableUpDownCounter(kInst[6].name, kInst[6].desc, kInst[6].unit);
  }
  c0->Add(kInst[0].value, attrs);
  h1->Record((double)kInst[1].value, attrs, ot::context::Context{});
  c2->Add(kInst[2].value, attrs);
  o3->AddCallback(observe_value, const_cast<Inst *>(&kInst[3]));
  if (ninst == kNumInst) {
    u4->Add(kInst[4].value, attrs);
    o5->AddCallback(observe_value, const_cast<Inst *>(&kInst[5]));
    o6->AddCallback(observe_value, const_cast<Inst *>(&kInst[6]));
  }
  c.step(ninst);
  c.stage("collect");
  std::vector<Stream> streams = collect(*reader);
  c.step();

  // attribute every exported stream to its source instrument through (meter, measured value)
  std::vector<std::string> got[kNumInst];
  // the export order follows an unordered_map whose keys contain a heap address: sorted for the canonical form
  std::vector<std::string> lines;
  for (auto &s : streams) lines.push_back(s.canon());
  std::sort(lines.begin(), lines.end());
  std::string all;
  for (auto &l : lines) all += l + "\n";
  for (auto &s : streams) {
    std::string kind = got_kind(s);
    if (kind == "drop" || kind == "empty") continue;  // see expected_for
    int src = -1;
    for (int i = 0; i < ninst; ++i) {
      const MeterId &m = kMeters[kInst[i].meter];
      std::string scope = std::string(m.name) + "|" + m.version + "|" + m.schema;
      std::string v = vf::sfmt("%d;", kInst[i].value);
      if (s.scope == scope && s.npoints == 1 && (s.points.size() >= v.size() + 1 && s.points.compare(s.points.size() - v.size(), v.size(), v) == 0) &&
          (s.points[s.points.size() - v.size() - 1] == ':' || s.points[s.points.size() - v.size() - 1] == 's') && s.type == (int)kInst[i].type)
        src = i;
    }
    if (src < 0) {
      std::string desc_views;
      for (auto &v : views) desc_views += show(v) + " ";
      c.fail("C19:view:unattributable-stream", "exported stream " + s.canon() + " belongs to no instrument; views: " + desc_views);
    }
    std::string attrs_part = s.points.substr(0, s.points.find('}') + 1);
    got[src].push_back(s.name + "/" + s.desc + "/" + s.unit + "/" + kind + "/" + attrs_part);
  }
  std::string desc_views;
  for (auto &v : views) desc_views += show(v) + " ";
  for (int i = 0; i < ninst; ++i) {
    std::sort(got[i].begin(), got[i].end());
    std::vector<std::string> want = expected_for(kInst[i], views, 0);
    dedupe(want); dedupe(got[i]);
    if (got[i] == want) continue;
    std::string where = vf::sfmt("instrument %s '%s' unit '%s' on meter ('%s','%s','%s'): exported %s, expected %s; views: ", kTypeName[std::find(kTypes, kTypes + kNumTypes, kInst[i].type) - kTypes],
                                 kInst[i].name, kInst[i].unit, kMeters[kInst[i].meter].name, kMeters[kInst[i].meter].version, kMeters[kInst[i].meter].schema, join(got[i]).c_str(),
                                 join(want).c_str()) + desc_views;
    // is the exported set explained by a combination of already characterised deviations? (fewest first)
    // (an ignored filter can make two views' streams identical, which then also looks like "last view only":
    // the filter hypothesis is tried first)
    static const int order[] = {1, 4, 2, 5, 3, 6, 7};
    int explained = 0;
    for (int dev : order) {
      std::vector<std::string> alt = expected_for(kInst[i], views, dev);
      dedupe(alt);
      if (alt == got[i]) { explained = dev; break; }
    }
    if (explained) {
      bool known = true;
      if (explained & LENIENT_METER) known &= c.report("C19:view:versioned-selector-matches-unversioned-meter", "a view whose meter selector names a version/schema was applied to a meter without version/schema: " + where);
      if (explained & LAST_VIEW_ONLY) known &= c.report("C19:view:only-last-matching-view-exported", "several views match one instrument but only the stream of the last one is exported: " + where);
      if (explained & ASYNC_FILTER_IGNORED) known &= c.report("C19:view:attribute-filter-ignored:observable", "the view's attribute filter is not applied to an observable instrument: " + where);
      (void)known;
      continue;
    }
    if (got[i].size() < want.size()) c.fail("C19:view:stream-missing", where);
    if (got[i].size() > want.size()) c.fail("C19:view:unexpected-stream", where);
    // same number of streams: name the first field that differs
    static const char *const field[] = {"name", "description", "unit", "aggregation", "attributes"};
    for (size_t k = 0; k < want.size(); ++k) {
      if (got[i][k] == want[k]) continue;
      size_t ga = 0, wa = 0;
      for (int f = 0; f < 5; ++f) {
        size_t ge = got[i][k].find('/', ga), we = want[k].find('/', wa);
        if (f == 4) { ge = got[i][k].size(); we = want[k].size(); }
        if (got[i][k].substr(ga, ge - ga) != want[k].substr(wa, we - wa)) c.fail(std::string("C19:view:stream-shape-differs:") + field[f], where);
        ga = ge + 1; wa = we + 1;
      }
    }
    c.fail("C19:view:streams-differ", where);
  }
  c.state(all);
  c.outcome(all);
  if (c.tracing()) c.trace("exported:\n%s", all.c_str());
  if (views.size() <= 1 || c.tracing()) {
    std::string brief;
    for (auto &s : streams) brief += " " + s.scope.substr(0, s.scope.find('|', 2)) + ":" + s.name + "(" + s.kind + s.points.substr(0, s.points.find('}') + 1) + ")";
    c.sample((views.empty() ? std::string("no view ") : desc_views) + "=>" + brief);
  }
}

}  // namespace

VF_MAIN("c19_views", "C19", setup, run)
