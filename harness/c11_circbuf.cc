// C11 (queue part): the real CircularBuffer / AtomicUniquePtr headers, compiled with the shim, under
// every interleaving of 1..3 producers and one consumer (DESIGN.md section 5, C11).
#include <opentelemetry/sdk/common/circular_buffer.h>

#include "vf_core.h"

using opentelemetry::sdk::common::AtomicUniquePtr;
using opentelemetry::sdk::common::CircularBuffer;
using opentelemetry::sdk::common::CircularBufferRange;

namespace {

struct Cfg { int cap, P, n, cons; };  // capacity, producers, adds per producer, consumer program
std::vector<Cfg> g_cfgs;

constexpr int MAXP = 4, MAXN = 3;  // producer id MAXP-1 is never a thread: it labels the elements of a sequential pre-rotation
enum Where { WITH_PRODUCER = 0, TAKEN = 1, DROPPED = 2, DISCARDED = 3 };

struct G {
  int live = 0;
  int destroyed[MAXP][MAXN] = {};
  int where[MAXP][MAXN] = {};
  int started = 0, consumed = 0;
  std::vector<int> log;  // consumption order: p*16+i
  std::string evs;       // debug: order of harness events
  bool final_cleanup = false;
  CircularBuffer<struct Elem> *buf = nullptr;
  size_t cap = 0;
} *g;

struct Elem {
  int p, i;
  Elem(int p_, int i_) : p(p_), i(i_) { g->live++; }
  ~Elem() {
    g->live--;
    if (++g->destroyed[p][i] > 1) vfs::fail("C11:double-free", vf::sfmt("element (%d,%d) destroyed twice", p, i));
    if (!g->final_cleanup && vfs::self() == p + 1) {
      // destroyed inside the producer's own Add(&&): the rvalue overload discards the element on failure
      if (g->where[p][i] != WITH_PRODUCER) vfs::fail("C11:consumed-twice", vf::sfmt("element (%d,%d) destroyed by its producer after it had been consumed", p, i));
      g->where[p][i] = DISCARDED;
    } else if (!g->final_cleanup) {  // destroyed by the buffer itself (Clear / Consume(n) / Reset)
      if (g->where[p][i] != WITH_PRODUCER) vfs::fail("C11:consumed-twice", vf::sfmt("element (%d,%d) dropped by the buffer after it had been consumed", p, i));
      g->where[p][i] = DROPPED;
      g->consumed++;
      g->log.push_back(p * 16 + i);
      vfs::note("drop", p, i);
    }
  }
};

void invariant() {
  uint64_t h = g->buf->head_.val_, t = g->buf->tail_.val_;
  if (h < t || h - t > g->cap)
    vfs::fail("C11:overfull", vf::sfmt("head=%llu tail=%llu capacity=%zu", (unsigned long long)h, (unsigned long long)t, g->cap));
}

void take_all(CircularBuffer<Elem> &buf, size_t n, std::vector<std::unique_ptr<Elem>> &taken) {
  buf.Consume(n, [&](CircularBufferRange<AtomicUniquePtr<Elem>> range) noexcept {
    range.ForEach([&](AtomicUniquePtr<Elem> &ptr) noexcept {
      std::unique_ptr<Elem> e;
      ptr.Swap(e);
      if (!e) vfs::fail("C11:null-slot", "a slot inside the consumed range was empty");
      if (g->where[e->p][e->i] != WITH_PRODUCER) vfs::fail("C11:consumed-twice", vf::sfmt("element (%d,%d) consumed twice", e->p, e->i));
      g->where[e->p][e->i] = TAKEN;
      g->consumed++;
      g->log.push_back(e->p * 16 + e->i);
      vfs::note("take", e->p, e->i); g->evs += vf::sfmt("t%d ", e->p);
      taken.push_back(std::move(e));
      return true;
    });
  });
}

void setup(vf::Options &o) {
  o.fork_per_exec = true;
  o.split_depth = 6;
  o.horizon = 4000;
  bool th = o.thorough;
  o.cap[vf::PREEMPT] = atoi(o.get("k", th ? "4" : "3").c_str());
  o.cap[vf::CAS] = atoi(o.get("c", "1").c_str());
  o.table_bits = th ? 25 : 23;
  o.deadline_s = th ? 1200 : 100;
  // --set=small: capacities 1..2, 1..2 producers (explored to the deepest preemption bound);
  // --set=big: the configurations with capacity 3 or 3 producers (explored with a smaller bound)
  std::string set = o.get("set", "small");
  for (int cap = 1; cap <= 3; ++cap)
    for (int P = 1; P <= 3; ++P)
      for (int n = 1; n <= 2; ++n)
        for (int cons = 0; cons < 4; ++cons) {
          if (P == 1 && n == 1 && cons > 1) continue;
          bool big = cap == 3 || P == 3;
          if (big != (set == "big")) continue;
          if (big && P == 3 && n == 2 && cap == 3) continue;  // largest corner: does not finish at any useful bound
          g_cfgs.push_back({cap, P, n, cons});
        }
  // consumer program 4: the buffer is first rotated (capacity adds and takes by the main thread) so that the queued
  // elements straddle the end of the slot array, then consumed two at a time: Consume(n) with 1 < n < size across
  // the wrap-around seam (CircularBufferRange::Take's second branch with a partial second span)
  if (set == "big") { g_cfgs.push_back({3, 2, 2, 4}); g_cfgs.push_back({3, 3, 1, 4}); }
  if (!o.get("cfg").empty()) {
    Cfg c;
    sscanf(o.get("cfg").c_str(), "%d,%d,%d,%d", &c.cap, &c.P, &c.n, &c.cons);
    g_cfgs.assign(1, c);
  }
}

void run(vf::Ctx &c) {
  const Cfg cfg = g_cfgs[c.pick("config", (int)g_cfgs.size())];
  G gg;
  g = &gg;
  c.stage("run");
  vfs::begin(c);
  {
    CircularBuffer<Elem> buf(cfg.cap);
    gg.buf = &buf;
    gg.cap = cfg.cap;
    vfs::set_invariant(invariant);
    bool result[MAXP][MAXN] = {};
    bool violation_fail[MAXP][MAXN] = {};
    std::vector<std::unique_ptr<Elem>> kept[MAXP], taken;
    if (cfg.cons == 4) {
      for (int i = 0; i < cfg.cap; ++i) {
        std::unique_ptr<Elem> e(new Elem(MAXP - 1, i));
        gg.started++;
        if (!buf.Add(e)) vfs::fail("C11:spurious-full", "a sequential Add into an empty buffer failed");
      }
      take_all(buf, buf.size(), taken);
    }
    std::vector<std::thread> prod;
    for (int p = 0; p < cfg.P; ++p)
      prod.emplace_back([&, p] {
        for (int i = 0; i < cfg.n; ++i) {
          std::unique_ptr<Elem> e(new Elem(p, i));
          int c0 = gg.consumed;
          gg.started++;
          vfs::note("add-call", p, i); gg.evs += vf::sfmt("c%d ", p);
          bool ok = (i % 2 == 0) ? buf.Add(e) : buf.Add(std::move(e));
          vfs::note("add-ret", p * 16 + i, ok); gg.evs += vf::sfmt("r%d%s ", p, ok ? "" : "F");
          result[p][i] = ok;
          if (!ok) {
            vfs::ctx().counted("failed_adds");
            int others_started = gg.started - 1;
            if (others_started - c0 < cfg.cap)
              vfs::fail("C11:spurious-full", vf::sfmt("Add(%d,%d) failed although only %d other adds had started and %d elements had been consumed before it began (capacity %d)",
                                                       p, i, others_started, c0, cfg.cap));
            if (i % 2 == 0) {
              if (!e) vfs::fail("C11:failed-add-took-element", vf::sfmt("Add(%d,%d) reported failure but the caller's pointer is empty", p, i));
              kept[p].push_back(std::move(e));
            }
          } else if (e) {
            vfs::fail("C11:success-left-element", vf::sfmt("Add(%d,%d) reported success but the caller still owns the element", p, i));
          }
          (void)violation_fail;
        }
      });
    std::thread cons([&] {
      for (int round = 0; round < 2; ++round) {
        switch (cfg.cons) {
          case 0: take_all(buf, buf.size(), taken); break;
          case 1: if (!buf.empty()) take_all(buf, 1, taken); break;
          case 2: { auto r = buf.Peek(); take_all(buf, r.size(), taken); break; }
          case 3: if (round == 0) buf.Clear(); else take_all(buf, buf.size(), taken); break;
          case 4: { size_t sz = buf.size(); take_all(buf, sz < 2 ? sz : 2, taken); break; }
        }
      }
    });
    for (auto &t : prod) t.join();
    cons.join();
    take_all(buf, buf.size(), taken);  // quiescent final drain (single consumer at a time)
    vfs::set_invariant(nullptr);
    c.stage("oracle");
    // every element: success <=> consumed exactly once (taken or dropped), failure <=> still with the producer
    std::string outcome;
    for (int p = 0; p < cfg.P; ++p)
      for (int i = 0; i < cfg.n; ++i) {
        int w = gg.where[p][i];
        outcome += vf::sfmt("%d%d", (int)result[p][i], w);
        if (result[p][i] && w == WITH_PRODUCER) vfs::fail("C11:lost", vf::sfmt("Add(%d,%d) succeeded but the element was never consumed", p, i));
        if (!result[p][i] && w == DISCARDED && i % 2 == 1) continue;  // failed Add(&&) discards its argument
        if (result[p][i] && w == DISCARDED) vfs::fail("C11:lost", vf::sfmt("Add(%d,%d) succeeded but the element was destroyed by the producer", p, i));
        if (!result[p][i] && w != WITH_PRODUCER) vfs::fail("C11:failed-add-consumed", vf::sfmt("Add(%d,%d) failed but the element was consumed", p, i));
      }
    // per-producer order
    int last[MAXP] = {-1, -1, -1, -1};
    outcome += "|";
    for (int t : gg.log) {
      int p = t / 16, i = t % 16;
      outcome += vf::sfmt("%d%d,", p, i);
      if (i <= last[p]) vfs::fail("C11:order", vf::sfmt("producer %d: element %d consumed after element %d", p, i, last[p]));
      last[p] = i;
    }
    if (buf.size() != 0) vfs::fail("C11:size", "buffer not empty after the final drain");
    c.outcome(vf::sfmt("%d.%d.%d.%d:", cfg.cap, cfg.P, cfg.n, cfg.cons) + outcome);
    if (getenv("VF_C11_DEBUG")) { FILE *f = fopen("/tmp/c11_evs.txt", "a"); fprintf(f, "%s\n", gg.evs.c_str()); fclose(f); }
    c.sample(vf::sfmt("capacity=%d producers=%d adds=%d consumer=%d results/where=%s", cfg.cap, cfg.P, cfg.n, cfg.cons, outcome.c_str()));
    gg.final_cleanup = true;
    taken.clear();
    for (auto &k : kept) k.clear();
    if (gg.live != 0) vfs::fail("C11:leak", vf::sfmt("%d elements still alive after everything was released", gg.live));
  }
  vfs::end();
}

}  // namespace

VF_MAIN("c11_circbuf", "C11", setup, run)
