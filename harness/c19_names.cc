// C19 (a): instrument names and units are validated exactly as documented (Engine B).
// Every candidate name / unit of a deviation-bounded generator (boundary lengths x every byte value at
// the first, second, middle and last position; two mutations in the thorough tier) is passed to the
// real Meter::Create* of every instrument kind, in several storage shapes of the string_view
// (NUL-terminated std::string, slice of a longer buffer with a valid / an invalid tail, exact-size heap
// block), one measurement is made and a pull reader collects. Oracle: valid <=> exactly one stream
// with exactly that name and unit; invalid => no stream at all (inert instrument).
// A second part holds the code of a build WITHOUT working std::regex (compiled from the unchanged sources
// under other class names in c19_noregex.cc) to the same reference: the hand-written validator on every
// sweep input (a wrong verdict on an input the statement decides is reported as C19:noregex:..., the
// disagreements with the regex variant are counted), and view selection (predicate.h's #else branch through
// the real ViewRegistry::FindViews) for exact-name / "*" / pattern selectors.
// Under ABI v2 (registry entry c19_names_abi2, --kinds=gauges) the same generator runs through
// CreateInt64Gauge / CreateDoubleGauge.
#include <opentelemetry/sdk/metrics/instrument_metadata_validator.h>

#include <opentelemetry/sdk/metrics/view/view_registry.h>

#include <algorithm>
#include <regex>
#include <fcntl.h>
#include <sys/syscall.h>
#include <unistd.h>
#if defined(__SANITIZE_ADDRESS__)
#  include <sanitizer/common_interface_defs.h>
#endif

#include "c19_kinds.h"

namespace c19 {
bool noregex_name(opentelemetry::nostd::string_view v);
bool noregex_unit(opentelemetry::nostd::string_view v);
bool noregex_view_applies(int instrument_type, const std::string &name_sel, const std::string &unit_sel, const std::string &name, const std::string &unit);
}  // namespace c19

#if defined(__SANITIZE_ADDRESS__)
// Exploration runs do not symbolize AddressSanitizer reports: the runtime starts an external symbolizer per
// report (about half a CPU second for this binary), and the exact-heap-block shape produces one report per
// input on a tree whose validator reads past the view. A replay (--replay=... on the command line) keeps
// symbolization. Called by the ASan runtime before main, hence raw system calls and no library functions.
extern "C" __attribute__((no_sanitize_address, used, visibility("default"))) const char *__asan_default_options() {
  static char buf[4096];
  long fd = syscall(SYS_openat, AT_FDCWD, "/proc/self/cmdline", O_RDONLY);
  if (fd < 0) return "";
  long n = syscall(SYS_read, fd, buf, sizeof buf - 1);
  syscall(SYS_close, fd);
  static const char needle[] = "--replay=";
  for (long i = 0; i + (long)sizeof needle - 1 <= n; ++i) {
    bool hit = true;
    for (size_t j = 0; j + 1 < sizeof needle; ++j)
      if (buf[i + (long)j] != needle[j]) { hit = false; break; }
    if (hit) return "";
  }
  return "symbolize=0";
}
#endif

namespace {
using namespace c19;
using nv = nostd::string_view;

// The exact-size-heap-block shape exists to turn a read past size() into an AddressSanitizer report, which
// the core records as C19:crash:<stage> with a replay file. During exploration the report text itself is
// muted for exactly that call (dozens of identical 70-line reports otherwise); a replay prints it.
struct MuteAsanReport {
  bool on;
  explicit MuteAsanReport(bool enable) : on(enable) {
#if defined(__SANITIZE_ADDRESS__)
    static int devnull = open("/dev/null", O_WRONLY);
    if (on && devnull >= 0) __sanitizer_set_report_fd(reinterpret_cast<void *>(static_cast<intptr_t>(devnull)));
#endif
  }
  ~MuteAsanReport() {
#if defined(__SANITIZE_ADDRESS__)
    if (on) __sanitizer_set_report_fd(reinterpret_cast<void *>(static_cast<intptr_t>(2)));
#endif
  }
};

// ---- reference ----------------------------------------------------------------------------------
enum Tri { MUST_ACCEPT, MUST_REJECT, DONT_CARE };
bool alpha(unsigned char c) { return (c >= 'a' && c <= 'z') || (c >= 'A' && c <= 'Z'); }
bool digit(unsigned char c) { return c >= '0' && c <= '9'; }
// nullptr: the name is valid; otherwise why it is not
const char *name_reject_reason(const std::string &s) {
  const char *why = nullptr;
  if (s.empty()) why = "empty";
  else if (s.size() > 255) why = "too-long";
  else if (!alpha((unsigned char)s[0])) why = "first-char";
  else
    for (size_t i = 1; i < s.size(); ++i) {
      unsigned char ch = (unsigned char)s[i];
      if (!(alpha(ch) || digit(ch) || ch == '_' || ch == '.' || ch == '-' || ch == '/')) { why = "char"; break; }
    }
  if (why && !s.empty() && s.find('\0') != std::string::npos) why = "embedded-nul";
  return why;
}
Tri unit_class(const std::string &s, const char **why) {
  bool nul = s.find('\0') != std::string::npos, high = false;
  for (unsigned char ch : s) high |= ch >= 0x80;
  *why = nullptr;
  if (s.size() > 63 || high) {
    *why = nul ? "embedded-nul" : s.size() > 63 ? "too-long" : "non-ascii";
    return MUST_REJECT;
  }
  return nul ? DONT_CARE : MUST_ACCEPT;  // whether NUL is an "ASCII character" is not said
}

// ---- inputs -----------------------------------------------------------------------------------------
std::string base_name(size_t len) {
  static const char fill[] = "b1_.-/Z9y";
  std::string s;
  for (size_t i = 0; i < len; ++i) s += i == 0 ? 'a' : fill[(i - 1) % 9];
  return s;
}
std::string base_unit(size_t len) {
  static const char fill[] = "ms/By {%}1\x01~\x7f";
  std::string s;
  for (size_t i = 0; i < len; ++i) s += fill[i % (sizeof fill - 1)];
  return s;
}
// one representative of every byte class the validators (either variant) distinguish, plus the
// neighbours of the range ends
const char kClassBytes[] = "azAZm095_.-/ !@[`{:,~+*\n\x01\x7f\x80\xff";
const std::string kClasses = std::string(kClassBytes, sizeof kClassBytes - 1) + std::string(1, '\0');
const char kFewClassBytes[] = "aZ9/! \x80";
const std::string kFewClasses = std::string(kFewClassBytes, sizeof kFewClassBytes - 1) + std::string(1, '\0');

enum Shape { CSTR = 0, SLICE_VALID_TAIL = 1, SLICE_INVALID_TAIL = 2, HEAP = 3 };
const char *const kShape[4] = {"std::string", "slice+valid-tail", "slice+invalid-tail", "exact-heap-block"};

struct Case {
  uint8_t what;  // 0 name, 1 unit, 2 validator differential (name), 3 validator differential (unit), 4 view selectors without regex
  uint8_t shape, kind;
  uint32_t input;
};
std::vector<std::string> g_names, g_units;
// view selectors for the part "view selection without working std::regex"
const char *const kNameSel[] = {"abc", "*", "a.c", "a.*", "ab", "abcd", "zzz", "", "a[bx]c", "a-b/c_d", ".*"};
constexpr uint32_t kNumNameSel = sizeof kNameSel / sizeof *kNameSel;
const char *const kUnitSel[] = {"", "ms", "s"};
constexpr uint32_t kNumUnitSel = sizeof kUnitSel / sizeof *kUnitSel;
std::vector<Case> g_cases;
constexpr int kBlock = 500;

uint32_t intern(std::vector<std::string> &tab, std::map<std::string, uint32_t> &idx, const std::string &s) {
  auto it = idx.find(s);
  if (it != idx.end()) return it->second;
  tab.push_back(s);
  idx[s] = (uint32_t)tab.size() - 1;
  return (uint32_t)tab.size() - 1;
}

// Which instrument kinds run which input set. Default: every kind of this ABI on the core sets, one kind per
// family (thorough: every kind) on the byte sweeps, two kinds on the double mutations and the exact heap
// blocks. --kinds=gauges (registry entry c19_names_abi2): the same for the two synchronous gauges only - the
// rest of that build is the code the ABI v1 entry already runs.
struct KindPlan { std::vector<int> core, sweep, twice, heap; bool diff = true; };
KindPlan plan_kinds(bool thorough, const std::string &which) {
  KindPlan p;
  if (which == "gauges") {
    for (int k = kFirstGaugeKind; k < kNumKinds; ++k) p.core.push_back(k);
    p.sweep = p.core;
    if (!thorough && p.sweep.size() > 1) p.sweep.resize(1);
    p.heap = p.core;
    p.diff = false;
    return p;
  }
  for (int k = 0; k < kNumKinds; ++k) p.core.push_back(k);
  p.sweep = p.core;
  if (!thorough) p.sweep = {0, 1, 2, 3};
  if (!thorough && kNumKinds > kFirstGaugeKind) p.sweep.push_back(kFirstGaugeKind);
  p.twice = {0, 1};
  p.heap = {0, 1};
  return p;
}

void build(bool thorough, const KindPlan &kp) {
  std::map<std::string, uint32_t> nidx, uidx;
  std::vector<uint32_t> sweep, core, heapset;
  const size_t lens[] = {0, 1, 2, 254, 255, 256, 300};
  auto positions = [](size_t len) {
    std::vector<size_t> p;
    for (size_t x : {(size_t)0, (size_t)1, len / 2, len - 1})
      if (x < len && std::find(p.begin(), p.end(), x) == p.end()) p.push_back(x);
    return p;
  };
  // --- names ---
  for (size_t len : lens) {
    std::string b = base_name(len);
    uint32_t id = intern(g_names, nidx, b);
    sweep.push_back(id); core.push_back(id); heapset.push_back(id);
    for (size_t pos : positions(len)) {
      for (int v = 0; v < 256; ++v) { std::string m = b; m[pos] = (char)v; sweep.push_back(intern(g_names, nidx, m)); }
      if (len == 1 || len == 2 || len == 255 || len == 256)
        if (pos == 0 || pos == len - 1) {
          for (char ch : kClasses) { std::string m = b; m[pos] = ch; core.push_back(intern(g_names, nidx, m)); }
          if (len == 1 || len == 255)
            for (char ch : kFewClasses) { std::string m = b; m[pos] = ch; heapset.push_back(intern(g_names, nidx, m)); }
        }
    }
  }
  // the probe input of the design document and relatives
  for (const std::string &s : {std::string("a\0!!", 4), std::string("a\0", 2), std::string("\0a", 2), base_name(255) + std::string("\0", 1), base_name(100) + std::string("\0", 1) + base_name(200)}) {
    uint32_t id = intern(g_names, nidx, s);
    sweep.push_back(id); core.push_back(id);
  }
  std::vector<uint32_t> sweep2;  // two mutations (thorough)
  if (thorough)
    for (size_t len : {(size_t)2, (size_t)3, (size_t)254, (size_t)255, (size_t)256}) {
      std::string b = base_name(len);
      auto ps = positions(len);
      // every byte value x every class representative at two positions for the short names and the longest
      // valid length; class x class at the neighbouring lengths (a 255-byte regex match costs ~0.5 ms under ASan)
      const bool full = len <= 3 || len == 255;
      for (size_t i = 0; i < ps.size(); ++i)
        for (size_t j = 0; j < ps.size(); ++j) {
          if (i == j) continue;
          if (full) {
            for (int v = 0; v < 256; ++v)
              for (char ch : kClasses) { std::string m = b; m[ps[i]] = (char)v; m[ps[j]] = ch; sweep2.push_back(intern(g_names, nidx, m)); }
          } else if (i < j) {
            for (char c1 : kClasses)
              for (char c2 : kClasses) { std::string m = b; m[ps[i]] = c1; m[ps[j]] = c2; sweep2.push_back(intern(g_names, nidx, m)); }
          }
        }
    }
  auto uniq = [](std::vector<uint32_t> &v) { std::sort(v.begin(), v.end()); v.erase(std::unique(v.begin(), v.end()), v.end()); };
  uniq(sweep); uniq(core); uniq(heapset); uniq(sweep2);
  for (uint32_t id : core)
    for (int k : kp.core)
      for (int sh = 0; sh < 3; ++sh) g_cases.push_back({0, (uint8_t)sh, (uint8_t)k, id});
  for (uint32_t id : sweep)
    for (int k : kp.sweep)
      for (int sh = 0; sh < 3; ++sh)
        if (!(std::binary_search(core.begin(), core.end(), id))) g_cases.push_back({0, (uint8_t)sh, (uint8_t)k, id});
  for (uint32_t id : sweep2)
    for (int k : kp.twice)
      for (int sh = 0; sh < 3; ++sh)
        if (!std::binary_search(sweep.begin(), sweep.end(), id)) g_cases.push_back({0, (uint8_t)sh, (uint8_t)k, id});
  for (uint32_t id : heapset)
    for (int k : kp.heap) g_cases.push_back({0, HEAP, (uint8_t)k, id});
  if (kp.diff)
    for (uint32_t id : sweep)
      for (int sh = 0; sh < 3; ++sh) g_cases.push_back({2, (uint8_t)sh, 0, id});

  // --- units ---
  std::vector<uint32_t> usweep, usweep2, ucore, uheap;
  for (size_t len : {(size_t)0, (size_t)1, (size_t)63, (size_t)64, (size_t)300}) {
    std::string b = base_unit(len);
    uint32_t id = intern(g_units, uidx, b);
    usweep.push_back(id); ucore.push_back(id); uheap.push_back(id);
    std::vector<size_t> ps;
    if (len > 0) ps.push_back(0);
    if (len > 1) ps.push_back(len - 1);
    if (thorough && len > 2) ps.push_back(len / 2);
    for (size_t pos : ps) {
      for (int v = 0; v < 256; ++v) { std::string m = b; m[pos] = (char)v; usweep.push_back(intern(g_units, uidx, m)); }
      for (char ch : kFewClasses) {
        std::string m = b; m[pos] = ch;
        ucore.push_back(intern(g_units, uidx, m));
        if (len == 1 || len == 63) uheap.push_back(intern(g_units, uidx, m));
      }
    }
    if (thorough && len >= 2 && len <= 64)
      for (int v = 0; v < 256; ++v)
        for (char ch : kClasses) {
          std::string m = b; m[0] = (char)v; m[len - 1] = ch; usweep2.push_back(intern(g_units, uidx, m));
          m = b; m[0] = ch; m[len - 1] = (char)v; usweep2.push_back(intern(g_units, uidx, m));
        }
  }
  for (const std::string &s : {std::string("m\0\x80", 3), base_unit(10) + std::string("\0", 1) + base_unit(60), std::string("\0", 1)}) {
    uint32_t id = intern(g_units, uidx, s);
    usweep.push_back(id); ucore.push_back(id);
  }
  uniq(usweep); uniq(usweep2); uniq(ucore); uniq(uheap);
  for (uint32_t id : ucore)
    for (int k : kp.core)
      for (int sh = 0; sh < 3; ++sh) g_cases.push_back({1, (uint8_t)sh, (uint8_t)k, id});
  for (uint32_t id : usweep)
    for (int k : kp.sweep)
      for (int sh = 0; sh < 3; ++sh)
        if (!std::binary_search(ucore.begin(), ucore.end(), id)) g_cases.push_back({1, (uint8_t)sh, (uint8_t)k, id});
  for (uint32_t id : usweep2)
    for (int k : kp.twice)
      for (int sh = 0; sh < 3; ++sh)
        if (!std::binary_search(usweep.begin(), usweep.end(), id)) g_cases.push_back({1, (uint8_t)sh, (uint8_t)k, id});
  for (uint32_t id : uheap) g_cases.push_back({1, HEAP, (uint8_t)kp.heap[0], id});
  if (kp.diff) {
    for (uint32_t id : usweep)
      for (int sh = 0; sh < 3; ++sh) g_cases.push_back({3, (uint8_t)sh, 0, id});
    // view selection in a build without working std::regex (c19_noregex.cc): every selector x every instrument
    for (uint32_t sel = 0; sel < kNumNameSel; ++sel)
      for (uint32_t usel = 0; usel < kNumUnitSel; ++usel) g_cases.push_back({4, 0, (uint8_t)usel, sel});
  }
}

void setup(vf::Options &o) {
  o.split_depth = 1;
  o.deadline_s = o.thorough ? 1200 : 120;
  o.table_bits = 23;
  quiet_sdk_log();
  build(o.thorough, plan_kinds(o.thorough, o.get("kinds", "")));
}

// A string_view over `s` in the requested storage shape; the storage lives in `st`.
struct Storage {
  std::string buf;
  std::unique_ptr<vfq::HeapStr> heap;
  nv view;
  char *mut = nullptr;
  size_t n = 0;
  void make(int shape, const std::string &s) {
    n = s.size();
    if (shape == CSTR) { buf = s; view = nv(buf.data(), buf.size()); }
    else if (shape == SLICE_VALID_TAIL) { buf = "aa" + s + "zz9"; view = nv(buf.data() + 2, s.size()); mut = &buf[2]; }
    else if (shape == SLICE_INVALID_TAIL) { buf = "#\x80" + s + "!\x80 "; view = nv(buf.data() + 2, s.size()); mut = &buf[2]; }
    else { heap.reset(new vfq::HeapStr(s)); view = heap->view(); }
  }
  // after the call returned: the SDK must not depend on the caller's buffer any more
  void scribble() {
    if (mut) memset(mut, '#', n);
    if (heap) heap->scribble();
  }
};

void run_create(vf::Ctx &c, const Case &k) {
  const bool is_name = k.what == 0;
  const std::string name = is_name ? g_names[k.input] : std::string("unit.probe");
  const std::string unit = is_name ? std::string("ms") : g_units[k.input];
  const std::string &in = is_name ? name : unit;
  const char *what = is_name ? "name" : "unit";
  const char *why = nullptr;
  Tri t;
  if (is_name) { why = name_reject_reason(name); t = why ? MUST_REJECT : MUST_ACCEPT; }
  else t = unit_class(unit, &why);
  const std::string shape_sfx = (k.shape == SLICE_VALID_TAIL || k.shape == SLICE_INVALID_TAIL) && !(why && !strcmp(why, "embedded-nul")) ? ":in-longer-buffer" : "";
  const size_t nul_at = in.find('\0');
  const std::string desc = vf::sfmt("%s '%s' (%zu bytes%s, %s) through Create%s", what, vfq::printable(in, 48).c_str(), in.size(),
                                    nul_at == std::string::npos ? "" : vf::sfmt(", NUL at offset %zu", nul_at).c_str(), kShape[k.shape], kKinds[k.kind].label);

  auto reader = std::make_shared<PullReader>();
  sm::MeterProvider mp(std::unique_ptr<sm::ViewRegistry>(new sm::ViewRegistry()), ot::sdk::resource::Resource::GetEmpty());
  mp.AddMetricReader(reader);
  auto meter = mp.GetMeter("c19", "1", "");
  Storage sn, su;
  sn.make(is_name ? k.shape : CSTR, name);
  su.make(is_name ? CSTR : k.shape, unit);
  Holder h;
  c.stage(k.shape == HEAP ? (is_name ? "create-name-in-exact-block" : "create-unit-in-exact-block") : "create");
  {
    MuteAsanReport mute(k.shape == HEAP && !c.tracing());
    create(k.kind, *meter, sn.view, "d", su.view, h);
  }
  sn.scribble(); su.scribble();
  c.step();
  c.check(!h.null_returned, "C19:create-returned-null", "null instrument for " + desc);
  c.stage("measure");
  measure(k.kind, h);
  c.stage("collect");
  std::vector<Stream> streams = collect(*reader);
  c.step();

  std::string canon;
  for (auto &s : streams) canon += s.canon() + "\n";
  if (streams.empty()) {
    if (t == MUST_ACCEPT)
      c.fail(std::string("C19:") + what + ":valid-rejected" + shape_sfx, "no stream appeared for the valid " + desc);
  } else {
    if (t == MUST_REJECT)
      c.fail(std::string("C19:") + what + ":invalid-accepted:" + why + shape_sfx,
             vf::sfmt("a stream '%s' (name length %zu, unit '%s') appeared for the invalid (%s) ", vfq::printable(streams[0].name, 48).c_str(), streams[0].name.size(),
                      vfq::printable(streams[0].unit, 24).c_str(), why) + desc);
    c.check(streams.size() == 1, "C19:create:extra-streams", vf::sfmt("%zu streams for one instrument: ", streams.size()) + desc);
    const Stream &s = streams[0];
    c.check(s.name == name, std::string("C19:") + what + ":stream-name-differs", "stream name '" + vfq::printable(s.name, 48) + vf::sfmt("' (%zu bytes) for ", s.name.size()) + desc);
    c.check(s.unit == unit, std::string("C19:") + what + ":stream-unit-differs", "stream unit '" + vfq::printable(s.unit, 48) + vf::sfmt("' (%zu bytes) for ", s.unit.size()) + desc);
    c.check(s.type == (int)kKinds[k.kind].type && s.value_type == (int)kKinds[k.kind].vt && s.desc == "d" && s.scope == "c19|1|", "C19:create:descriptor-differs", "stream " + s.canon() + " for " + desc);
    c.check(s.npoints == 1, "C19:create:measurement-lost", vf::sfmt("%zu points for ", s.npoints) + desc);
    // no view is registered: the stream carries the default aggregation of the instrument type
    const sm::InstrumentType ty = kKinds[k.kind].type;
    const char *want_kind = default_point_kind(ty);
    c.check((s.kind == "sum-nonmono" ? std::string("sum") : s.kind) == want_kind, std::string("C19:default-aggregation:") + kKinds[k.kind].label,
            "point kind " + s.kind + " for the view-less " + desc);
  }
  c.state(canon);
  c.outcome(vf::sfmt("%s|%d|%d|%d|", what, (int)t, (int)streams.empty(), k.kind) + (streams.empty() ? std::string() : vfq::printable(streams[0].name, 300) + "|" + vfq::printable(streams[0].unit, 300)));
  if (in.size() <= 4 || c.tracing()) c.sample(desc + (streams.empty() ? " => inert, no stream" : " => stream " + streams[0].canon()));
}

// regex variant (linked into the SDK by this build) vs hand-written variant of the same source file
void run_diff(vf::Ctx &c, const Case &k) {
  static const sm::InstrumentMetaDataValidator regex_variant;
  const bool is_name = k.what == 2;
  const std::string &in = is_name ? g_names[k.input] : g_units[k.input];
  Storage st;
  st.make(k.shape, in);
  c.stage(is_name ? "ValidateName" : "ValidateUnit");
  bool r = is_name ? regex_variant.ValidateName(st.view) : regex_variant.ValidateUnit(st.view);
  c.stage(is_name ? "ValidateName(hand-written)" : "ValidateUnit(hand-written)");
  bool h = is_name ? noregex_name(st.view) : noregex_unit(st.view);
  c.step(2);
  const char *why = nullptr;
  Tri t = is_name ? (name_reject_reason(in) ? MUST_REJECT : MUST_ACCEPT) : unit_class(in, &why);
  bool want = t == MUST_ACCEPT;
  const char *cls = is_name ? name_reject_reason(in) : why;
  const bool slice = k.shape == SLICE_VALID_TAIL || k.shape == SLICE_INVALID_TAIL;
  if (t != DONT_CARE && h != want) {
    // The statement decides this input and the hand-written variant (the code a build without working
    // std::regex uses) decides it the other way. The regex variant is held to the same reference through
    // Meter::Create* above.
    std::string sig = std::string("C19:noregex:") + (is_name ? "name" : "unit") + (want ? ":valid-rejected" : std::string(":invalid-accepted:") + cls) +
                      (slice && !(cls && !strcmp(cls, "embedded-nul")) ? ":in-longer-buffer" : "");
    c.report(sig, vf::sfmt("hand-written Validate%s (OPENTELEMETRY_HAVE_WORKING_REGEX == 0) %s the %s %s '%s' (%zu bytes, %s)", is_name ? "Name" : "Unit", h ? "accepts" : "rejects",
                           want ? "valid" : "invalid", is_name ? "name" : "unit", vfq::printable(in, 48).c_str(), in.size(), kShape[k.shape]) +
                      (in.empty() && slice ? ": it evaluates name[0] of an empty view, i.e. the byte behind it" : ""));
  }
  if (r != h) {
    c.counted(vf::sfmt("vd:%s:%s:s%d:re%d,hw%d", is_name ? "name" : "unit", t == DONT_CARE ? "dont-care" : cls ? cls : "valid", (int)k.shape, (int)r, (int)h).c_str());
    if (t == DONT_CARE) c.counted("variants-disagree:dont-care-input");
    else c.counted(r == want ? "variants-disagree:hand-written-wrong" : "variants-disagree:regex-wrong");
    c.sample(vf::sfmt("%s '%s' (%zu bytes, %s): regex variant %d, hand-written variant %d, reference %s", is_name ? "name" : "unit", vfq::printable(in, 40).c_str(), in.size(),
                      kShape[k.shape], (int)r, (int)h, t == DONT_CARE ? "don't-care" : want ? "accept" : "reject"));
  } else {
    c.counted("variants-agree");
  }
  c.state(vf::sfmt("diff|%d|%d|%d|%d|", (int)is_name, (int)r, (int)h, (int)t) + in);
  c.outcome(vf::sfmt("diff|%d|%d|%d|%d", (int)is_name, (int)r, (int)h, (int)t));
}

// View selection with and without working std::regex. The SDK of this build uses the regex branch of
// view/predicate.h; c19_noregex.cc compiles the unchanged ViewRegistry / InstrumentSelector / MeterSelector /
// PredicateFactory / PatternPredicate headers a second time with OPENTELEMETRY_HAVE_WORKING_REGEX == 0 under
// other class names. One registered view (type Counter, name selector, unit selector, any meter) is asked
// about every instrument of a small set; the statement decides: "*" selects every name, a selector equal to
// the name selects it, a selector without pattern characters selects nothing else; a real pattern is held to
// std::regex_match over the whole name in the regex build and is don't-care in the other one (that build
// documents patterns as unsupported).
bool regex_view_applies(int type, const std::string &name_sel, const std::string &unit_sel, const std::string &name, const std::string &unit) {
  sm::ViewRegistry reg;
  reg.AddView(std::unique_ptr<sm::InstrumentSelector>(new sm::InstrumentSelector(sm::InstrumentType::kCounter, name_sel, unit_sel)),
              std::unique_ptr<sm::MeterSelector>(new sm::MeterSelector("", "", "")), std::unique_ptr<sm::View>(new sm::View("picked")));
  sm::InstrumentDescriptor d = {name, "d", unit, (sm::InstrumentType)type, sm::InstrumentValueType::kLong};
  auto scope = ot::sdk::instrumentationscope::InstrumentationScope::Create("m", "1", "");
  bool applied = false;
  reg.FindViews(d, *scope, [&](const sm::View &v) { applied |= v.GetName() == "picked"; return true; });
  return applied;
}
void run_selectors(vf::Ctx &c, const Case &k) {
  const std::string sel = kNameSel[k.input], usel = kUnitSel[k.kind];
  static const char *const names[] = {"abc", "ab", "a.c", "abcd", "a-b/c_d", "a"};
  static const char *const units[] = {"ms", ""};
  bool plain = true;  // no character with a meaning in a pattern
  for (char ch : sel) plain &= alpha((unsigned char)ch) || digit((unsigned char)ch) || ch == '_' || ch == '-' || ch == '/';
  std::string canon;
  for (const char *name : names)
    for (const char *unit : units)
      for (int type : {(int)sm::InstrumentType::kCounter, (int)sm::InstrumentType::kHistogram}) {
        Tri name_t = sel == "*" || sel == name ? MUST_ACCEPT : plain ? MUST_REJECT : DONT_CARE;
        bool pattern_says = false;
        if (name_t == DONT_CARE) { std::string n = name; pattern_says = std::regex_match(n.begin(), n.end(), std::regex(sel)); }
        const bool others = (usel.empty() || usel == unit) && type == (int)sm::InstrumentType::kCounter;
        const std::string desc = vf::sfmt("view {Counter, name selector '%s', unit selector '%s'} asked about %s '%s' unit '%s'", sel.c_str(), usel.c_str(),
                                          type == (int)sm::InstrumentType::kCounter ? "Counter" : "Histogram", name, unit);
        c.stage("FindViews");
        bool re = regex_view_applies(type, sel, usel, name, unit);
        bool want_re = others && (name_t == MUST_ACCEPT || (name_t == DONT_CARE && pattern_says));
        c.check(re == want_re, re ? "C19:view-selector:applied-to-unselected-instrument" : "C19:view-selector:selected-instrument-not-matched", desc + vf::sfmt(": applied=%d", (int)re));
        c.stage("FindViews(no-regex)");
        bool hw = noregex_view_applies(type, sel, usel, name, unit);
        c.step(2);
        if (!others || name_t == MUST_REJECT) {
          if (hw) c.report("C19:noregex:view-selector:applied-to-unselected-instrument", "without working std::regex: " + desc + ": applied");
        } else if (name_t == MUST_ACCEPT && !hw) {
          c.report(sel == "*" ? "C19:noregex:view-selector:wildcard-not-matched" : "C19:noregex:view-selector:exact-name-not-matched",
                   "without working std::regex (PatternPredicate::Match returns false for every input): " + desc + ": not applied");
        }
        if (name_t == DONT_CARE && others) c.counted(hw == pattern_says ? "noregex-selector:pattern:as-regex" : "noregex-selector:pattern:unsupported");
        canon += vf::sfmt("%d%d", (int)re, (int)hw);
      }
  c.state("sel|" + sel + "|" + usel + "|" + canon);
  c.outcome("sel|" + canon);
  c.sample(vf::sfmt("name selector '%s' unit selector '%s' over 6 names x 2 units x {Counter,Histogram}: applied (regex build, no-regex build) = ", sel.c_str(), usel.c_str()) + canon);
}

void run(vf::Ctx &c) {
  int nblocks = (int)((g_cases.size() + kBlock - 1) / kBlock);
  int b = c.pick("block", nblocks);
  int left = (int)g_cases.size() - b * kBlock;
  int i = c.pick("case", left < kBlock ? left : kBlock);
  const Case &k = g_cases[(size_t)b * kBlock + i];
  if (k.what <= 1) run_create(c, k);
  else if (k.what <= 3) run_diff(c, k);
  else run_selectors(c, k);
}

}  // namespace

VF_MAIN("c19_names", "C19", setup, run)
