H("c05_span_identity", "C05", "seq", ["harness/c05_span_identity.cc"], sdk=["common", "version", "resource", "trace"],
  what="real TracerProvider/Tracer with a custom deterministic IdGenerator (one part: the real RandomIdGenerator): every program up to the depth bound over "
       "{StartSpan with 13+ parenting variants (none, explicit remote SpanContext with flags 00/01/02/03/ff and trace state, invalid SpanContext, Context holding "
       "a local / remote / invalid span, empty Context, root-marked Context), WithActiveSpan push, scope pop, End} x 19 sampler configurations (20 thorough), "
       "against a scope-stack model with the statement's precedence rule; oracle on GetContext() of every span and on the exported SpanData",
  design_ref="5/C05")
