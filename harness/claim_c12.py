CLAIMS["C12"] = dict(
    engine="seq",
    technique="exhaustive input enumeration on the real samplers over boundary alphabets (ratios: floating-point boundary values; trace ids: located on every sampler's "
              "decision boundary by bisection on the real ShouldSample), all ratio pairs, all parent shapes x delegates, against the statement's implications",
    text="TraceIdRatioBasedSampler: 153 boundary ratios (thorough: plus k/64, 10^-k and the two nearest doubles on each side of every one, 827) from -inf over -0.0, 0, denormals, DBL_MIN, "
         "2^-66..2^-62, 2^-54..2^-52, 2^-33..2^-31 with both neighbours, j/(2^32-1) and j/2^32 with neighbours, decimals, 0.5+-ulp, 1-2^-32, 1-2^-52, 1-2^-53, 1, 1+ulp, 2, "
         "2^32, 2^64, DBL_MAX, +inf; trace-id prefixes on each ratio's own decision boundary (bisection on the real ShouldSample) with +-1, +-2, +-1024, +-2048, +-4096 "
         "neighbours, their byte-reversed (thorough: and half-swapped) forms and fixed extremes, each with three low halves. Per ratio: r<=0 never, r>=1 always, decision "
         "independent of the low 8 bytes, of parent context / name / kind / attributes / links (all 180 argument combinations next to the boundary, one per id elsewhere), "
         "of repetition and of the sampler instance. Per pair r1<r2 (all pairs) and every prefix: sampled(r1,id) implies sampled(r2,id). ParentBasedSampler: 80 parents "
         "(valid / zero trace id / zero span id / all zero x flags 00,01,02,03,ff x remote/local x default/non-empty trace state) x 9 delegates (recording wrappers around "
         "AlwaysOn, AlwaysOff, ratio 0 / 0.5 / 1, nested ParentBased, fixed DROP / RECORD_ONLY / RECORD_AND_SAMPLE with attributes and own or null trace state) x 10 ids x "
         "30 name/kind/attribute/link combinations: valid parent => sampled iff the parent is, the parent's trace state, delegate not consulted; otherwise the delegate is "
         "consulted with the caller's arguments and its result is returned. AlwaysOn / AlwaysOff constant over the same parents and all ids. Through a real Tracer "
         "(custom id generator): the sampled flag of the new span context equals the sampler's decision for 7 sampler configurations x boundary ids x 80 parents.",
    note=SEQ_NOTE)
