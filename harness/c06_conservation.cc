// C06: counter / up-down-counter measurements are conserved across readers, temporalities,
// instrument handles and view streams; delta intervals abut, cumulative starts at SDK start
// (Engine B, sequential part; record/collect races are decided by the Engine-A harness).
//
// Every history of  Create(same name) | Add(handle, value, attrs) | Collect(reader)  up to the depth
// bound, on the real MeterProvider / MeterContext / Meter / SyncMetricStorage / TemporalMetricStorage
// with 1..3 harness pull readers of mixed temporality and 0..2 views on the instrument, in lock-step
// with a reference model (per reader and stream: pending delta per attribute set, running total,
// end of the previous interval).
//
// Extension parts (one feature each, reduced alphabet): a MetricFilter on reader 0; a reader registered
// late (AddMetricReader after measurements); a second meter with an instrument of the same name; handles
// destroyed before the next collection; instruments created from a meter whose provider is gone.
#include <algorithm>
#include <array>
#include <chrono>
#include <map>
#include <memory>
#include <string>
#include <vector>

#include <opentelemetry/context/context.h>
#include <opentelemetry/sdk/common/global_log_handler.h>
#include <opentelemetry/sdk/metrics/export/metric_filter.h>
#include <opentelemetry/sdk/metrics/meter.h>
#include <opentelemetry/sdk/metrics/meter_context.h>
#include <opentelemetry/sdk/metrics/meter_provider.h>
#include <opentelemetry/sdk/metrics/metric_reader.h>
#include <opentelemetry/sdk/metrics/state/multi_metric_storage.h>
#include <opentelemetry/sdk/metrics/state/sync_metric_storage.h>
#include <opentelemetry/sdk/metrics/sync_instruments.h>
#include <opentelemetry/sdk/metrics/view/instrument_selector.h>
#include <opentelemetry/sdk/metrics/view/meter_selector.h>
#include <opentelemetry/sdk/metrics/view/view.h>
#include <opentelemetry/sdk/metrics/view/view_registry.h>
#include <opentelemetry/sdk/resource/resource.h>

#include "seq/vf_seq.h"
#include "vf_clock.h"

namespace sdkm = opentelemetry::sdk::metrics;
namespace api = opentelemetry::metrics;
namespace nostd = opentelemetry::nostd;
namespace common = opentelemetry::common;

namespace {

constexpr int NATTR = 3;  // attribute sets: {} , {a=1}, {a=2}
const char *const kAttrName[NATTR] = {"{}", "{a=1}", "{a=2}"};
constexpr int NSTREAM = 3;  // at most: two view streams of meter "m" + the stream of meter "m2"

enum Kind { K_U64 = 0, K_DBL = 1, K_UPDOWN = 2, K_DBL_UPDOWN = 3 };
constexpr int NKIND = 4;
const char *const kKindName[NKIND] = {"UInt64Counter", "DoubleCounter", "Int64UpDownCounter", "DoubleUpDownCounter"};
// value alphabets in model units (doubles: 4 units per 1.0, i.e. multiples of 0.25, so that every sum
// is exact whatever the association order)
const int kNVal[NKIND] = {2, 2, 3, 3};
const int64_t kUnits[NKIND][3] = {{1, 2, 0}, {2, 9, 0}, {1, 2, -1}, {2, 9, -1}};
inline bool is_dbl(Kind k) { return k == K_DBL || k == K_DBL_UPDOWN; }
inline bool is_updown(Kind k) { return k == K_UPDOWN || k == K_DBL_UPDOWN; }

int64_t now_ns() { return common::SystemTimestamp(std::chrono::system_clock::now()).time_since_epoch().count(); }
int64_t ts_ns(const common::SystemTimestamp &t) { return t.time_since_epoch().count(); }

// A pull reader whose temporality selector depends on the instrument type it is asked about, as the
// selectors of real exporters do: it answers its configured temporality for the type of the instrument
// of this run and the opposite one for every other type. (For a counter run the delta flavour is the
// usual "delta for counters, cumulative otherwise" preference; for an up-down run the cumulative flavour
// is.) A storage that asks with the wrong type therefore gets the wrong temporality.
class PullReader : public sdkm::MetricReader {
 public:
  PullReader(bool delta, sdkm::InstrumentType expect) : delta_(delta), expect_(expect) {}
  sdkm::AggregationTemporality GetAggregationTemporality(sdkm::InstrumentType t) const noexcept override {
    bool d = delta_;
    if (t != expect_) { wrong_type_ = (int)t; asked_wrong_ = true; d = !d; }
    return d ? sdkm::AggregationTemporality::kDelta : sdkm::AggregationTemporality::kCumulative;
  }
  mutable bool asked_wrong_ = false;
  mutable int wrong_type_ = 0;

 private:
  bool OnForceFlush(std::chrono::microseconds) noexcept override { return true; }
  bool OnShutDown(std::chrono::microseconds) noexcept override { return true; }
  bool delta_;
  sdkm::InstrumentType expect_;
};

// -1: not one of the three attribute sets of the alphabet
int attr_id(const std::map<std::string, opentelemetry::sdk::common::OwnedAttributeValue> &m) {
  if (m.empty()) return 0;
  if (m.size() != 1 || m.begin()->first != "a") return -1;
  const auto &v = m.begin()->second;
  if (!nostd::holds_alternative<int32_t>(v)) return -1;
  int32_t x = nostd::get<int32_t>(v);
  return x == 1 ? 1 : x == 2 ? 2 : -1;
}

const char *const kOverloadName[4] = {"Add(V)", "Add(V,A)", "Add(V,C)", "Add(V,A,C)"};

struct Handle {
  Kind kind;
  int meter = 0;   // 0: meter "m", 1: meter "m2"
  int serial = 0;  // for the history text
  nostd::unique_ptr<api::Counter<uint64_t>> u64;
  nostd::unique_ptr<api::Counter<double>> dbl;
  nostd::unique_ptr<api::UpDownCounter<int64_t>> ud;
  nostd::unique_ptr<api::UpDownCounter<double>> dud;
  // The four overloads of every instrument class are separate hand-written bodies: the harness rotates
  // through them (with_ctx: the overloads taking an explicit, non-empty Context).
  template <class I, class V>
  static void call(I &inst, V v, int attr, bool with_ctx) {
    if (!with_ctx) {
      if (attr == 0) inst->Add(v);
      else inst->Add(v, {{"a", (int32_t)attr}});
    } else {
      opentelemetry::context::Context ctx{"k", (int64_t)7};
      if (attr == 0) inst->Add(v, ctx);
      else inst->Add(v, {{"a", (int32_t)attr}}, ctx);
    }
  }
  void add_units(int64_t u, int attr, bool with_ctx) {
    if (kind == K_U64) call(u64, (uint64_t)u, attr, with_ctx);
    else if (kind == K_DBL) call(dbl, (double)u / 4.0, attr, with_ctx);
    else if (kind == K_UPDOWN) call(ud, (int64_t)u, attr, with_ctx);
    else call(dud, (double)u / 4.0, attr, with_ctx);
  }
  void create(api::Meter &meter_ref, Kind k) {
    kind = k;
    if (k == K_U64) u64 = meter_ref.CreateUInt64Counter("c");
    else if (k == K_DBL) dbl = meter_ref.CreateDoubleCounter("c");
    else if (k == K_UPDOWN) ud = meter_ref.CreateInt64UpDownCounter("c");
    else dud = meter_ref.CreateDoubleUpDownCounter("c");
  }
  sdkm::Synchronous *sync() {
    if (kind == K_U64) return static_cast<sdkm::LongCounter *>(u64.get());
    if (kind == K_DBL) return static_cast<sdkm::DoubleCounter *>(dbl.get());
    if (kind == K_UPDOWN) return static_cast<sdkm::LongUpDownCounter *>(ud.get());
    return static_cast<sdkm::DoubleUpDownCounter *>(dud.get());
  }
};

// one point value of the real code -> model units; false if the point is not an exact multiple of the unit
bool point_units(Kind kind, const sdkm::PointType &pt, int64_t *units, std::string *why) {
  if (!nostd::holds_alternative<sdkm::SumPointData>(pt)) { *why = "point is not a SumPointData"; return false; }
  const auto &sp = nostd::get<sdkm::SumPointData>(pt);
  if (is_dbl(kind)) {
    if (!nostd::holds_alternative<double>(sp.value_)) { *why = "double instrument reports a non-double value"; return false; }
    double v = nostd::get<double>(sp.value_) * 4.0;
    if (!(v > -1e15 && v < 1e15) || (double)(int64_t)v != v) { *why = vf::sfmt("value %.17g is not a sum of the recorded values", v / 4.0); return false; }
    *units = (int64_t)v;
  } else {
    if (!nostd::holds_alternative<int64_t>(sp.value_)) { *why = "integer instrument reports a non-integer value"; return false; }
    *units = nostd::get<int64_t>(sp.value_);
  }
  return true;
}

std::string show_units(Kind kind, int64_t u) {
  if (is_dbl(kind)) return vf::sfmt("%g", (double)u / 4.0);
  return vf::sfmt("%lld", (long long)u);
}

struct ReaderCfg { int n; bool delta[3]; };
// A run is split into parts with different bounds: (depth, alphabet, reader configurations, feature).
//   n_attr: attribute sets {} and {a=1} (2) or also {a=2} (3)
//   one_value: one value per instrument (up-down: +1 and -1) instead of two (up-down: three)
//   readers: ALL14 = every ordered configuration of 1..3 readers; REP8 = one per multiset of
//            temporalities (readers are interchangeable up to their position in the collector list)
//            plus one reordering; REP6 = REP8 without CC and CDD; TWO5 = at most two readers;
//            FEW3 = D, C, DC; FILT5 = D, C, DD, DC, CD (the filter sits on the first reader)
//   feat:    F_FILTER  reader 0 is registered with a MetricFilter (two filter configurations)
//            F_LATE    operation AddReader(delta|cumulative), offered once per history
//            F_METERS  a second meter "m2" with an instrument of the same name (one handle per meter)
//            F_DESTROY operation Destroy(handle); up to three Create in a history
//            F_ORPHAN  no history: every Add overload of every instrument class on an instrument that
//                      was created from a meter whose MeterProvider is gone
//   small_dud: the double up-down counter uses two values (+0.5, -0.25) instead of three
enum ReaderSet { ALL14 = 0, REP8 = 1, REP6 = 2, TWO5 = 3, FEW3 = 4, FILT5 = 5, NREADERSETS = 6 };
//            F_TWIN    the same meter also has an instrument of the same kind, name and unit but of the OTHER value type
//                      (uint64 <-> double), created first and given one measurement: two instruments, two streams;
//                      the twin's stream is recognised by its value type and left alone
enum Feature { F_NONE = 0, F_FILTER = 1, F_LATE = 2, F_METERS = 3, F_DESTROY = 4, F_ORPHAN = 5, F_TWIN = 6 };
const char *const kFeatName[7] = {"", "filter ", "late-reader ", "two-meters ", "destroy ", "orphan ", "twin "};
//   kinds / views: bit masks of the instrument kinds and view counts (0, 1, 2) the part runs over
struct Part { int depth; int n_attr; bool one_value; ReaderSet readers; Feature feat; bool small_dud; unsigned kinds; unsigned views; };
constexpr unsigned ALLK = 0xf, ALLV = 0x7;
constexpr unsigned TWOK = (1u << K_U64) | (1u << K_DBL_UPDOWN);  // one integer counter, one double up-down counter
std::vector<Part> g_parts;
std::vector<ReaderCfg> g_reader_sets[NREADERSETS];
int g_max_handles = 2;
const int kNValSmall[NKIND] = {1, 1, 2, 2};
const int kSmallVal[NKIND][2] = {{0, 0}, {0, 0}, {0, 2}, {0, 2}};  // indices into kUnits

void setup(vf::Options &o) {
  o.split_depth = 5;
  o.deadline_s = o.thorough ? 900 : 150;
  o.table_bits = o.thorough ? 25 : 23;
  opentelemetry::sdk::common::internal_log::GlobalLogHandler::SetLogLevel(opentelemetry::sdk::common::internal_log::LogLevel::None);
  const bool D = true, C = false;
  for (int n = 1; n <= 3; ++n)
    for (int m = 0; m < (1 << n); ++m) {
      ReaderCfg rc{n, {false, false, false}};
      for (int i = 0; i < n; ++i) rc.delta[i] = !((m >> i) & 1);
      g_reader_sets[ALL14].push_back(rc);
    }
  g_reader_sets[REP8] = {{1, {D}}, {1, {C}}, {2, {D, D}}, {2, {D, C}}, {2, {C, C}}, {3, {D, D, C}}, {3, {D, C, C}}, {3, {C, D, D}}};
  g_reader_sets[REP6] = {{1, {D}}, {1, {C}}, {2, {D, D}}, {2, {D, C}}, {3, {D, D, C}}, {3, {D, C, C}}};
  g_reader_sets[TWO5] = {{1, {D}}, {1, {C}}, {2, {D, D}}, {2, {D, C}}, {2, {C, C}}};
  g_reader_sets[FEW3] = {{1, {D}}, {1, {C}}, {2, {D, C}}};
  g_reader_sets[FILT5] = {{1, {D}}, {1, {C}}, {2, {D, D}}, {2, {D, C}}, {2, {C, D}}};
  if (o.thorough)
    g_parts = {{5, 3, false, REP8, F_NONE, false, ALLK, ALLV}, {5, 2, true, ALL14, F_NONE, false, ALLK, ALLV}, {6, 2, true, REP8, F_NONE, false, ALLK, ALLV},
               {7, 2, true, TWO5, F_NONE, false, ALLK, ALLV},
               {6, 2, true, FILT5, F_FILTER, false, TWOK, ALLV}, {6, 2, true, FEW3, F_LATE, false, TWOK, ALLV}, {6, 2, true, FEW3, F_METERS, false, TWOK, ALLV},
               {6, 2, true, FEW3, F_DESTROY, false, TWOK, ALLV}, {1, 2, true, FEW3, F_ORPHAN, false, ALLK, ALLV}, {5, 2, true, FEW3, F_TWIN, false, ALLK, 0x1}};
  else
    g_parts = {{5, 2, false, REP6, F_NONE, true, ALLK, ALLV}, {4, 2, true, FILT5, F_FILTER, false, TWOK, ALLV}, {5, 2, true, FEW3, F_LATE, false, TWOK, 0x1},
               {4, 2, true, FEW3, F_METERS, false, TWOK, 0x5}, {5, 2, true, FEW3, F_DESTROY, false, TWOK, 0x5}, {1, 2, true, FEW3, F_ORPHAN, false, ALLK, ALLV},
               {3, 2, true, FEW3, F_TWIN, false, ALLK, 0x1}};
  std::string d = o.get("depth");
  if (!d.empty())
    g_parts = {{atoi(d.c_str()), atoi(o.get("nattr", "3").c_str()), o.get("onevalue") == "1", (ReaderSet)atoi(o.get("readers", "1").c_str()),
                (Feature)atoi(o.get("feat", "0").c_str()), o.get("smalldud") == "1", (unsigned)atoi(o.get("kinds", "15").c_str()), (unsigned)atoi(o.get("views", "7").c_str())}};
}

typedef std::array<int64_t, NATTR> Totals;

struct ReaderStream {
  int64_t pending[NATTR] = {0, 0, 0};
  bool touched[NATTR] = {false, false, false};
  bool emitted = false;       // a MetricData for this stream was handed to this reader before
  int64_t prev_emit_end = 0;  // its end_ts
  // reader registered late: what it is given is counted from a point in time no later than its
  // registration; that point (base = the totals then) is read off its first collection
  bool first_done = false;
  int64_t base[NATTR] = {0, 0, 0};
  bool since_reg[NATTR] = {false, false, false};  // recorded after the registration
};
struct ReaderModel {
  bool delta = false;
  bool collected = false;
  int64_t prev_a = 0, prev_b = 0;  // harness clock readings around this reader's previous Collect
  bool late = false;               // registered by an AddReader operation
  int64_t reg_b = 0;               // harness clock reading after the registration
  bool filtered = false;           // registered with a MetricFilter
  ReaderStream rs[NSTREAM];
};
struct StreamModel {
  std::string scope, name;
  int64_t total[NATTR] = {0, 0, 0};
  bool ever[NATTR] = {false, false, false};
  std::vector<Totals> cuts;  // F_LATE: the totals at SDK start, at every collection and at the registration
};

struct GotStream {
  bool present = false;
  bool has[NATTR] = {false, false, false};
  int64_t val[NATTR] = {0, 0, 0};
  int64_t start = 0, end = 0;
  sdkm::AggregationTemporality temp = sdkm::AggregationTemporality::kUnspecified;
};

void hash_map(vf::H128 &h, Kind kind, const sdkm::AttributesHashMap *m) {
  if (!m) { h.add(0xdead); return; }
  int64_t v[NATTR + 1] = {0, 0, 0, 0};
  bool has[NATTR + 1] = {false, false, false, false};
  uint64_t other = 0;
  m->GetAllEnteries([&](const sdkm::MetricAttributes &a, sdkm::Aggregation &agg) {
    int id = attr_id(a);
    int64_t u = 0;
    std::string why;
    sdkm::PointType pt = agg.ToPoint();
    if (!point_units(kind, pt, &u, &why)) {
      // not representable in units: hash the raw bits so that the state is still distinguished
      if (nostd::holds_alternative<sdkm::SumPointData>(pt) && nostd::holds_alternative<double>(nostd::get<sdkm::SumPointData>(pt).value_)) {
        double d = nostd::get<double>(nostd::get<sdkm::SumPointData>(pt).value_);
        memcpy(&u, &d, sizeof u);
      }
      other += 0x9e3779b97f4a7c15ull;
    }
    if (id < 0) { other += vf::H128::mix((uint64_t)u + 77); return true; }
    has[id] = true; v[id] = u;
    return true;
  });
  for (int i = 0; i < NATTR; ++i) { h.add(has[i] ? 1 : 0); h.add((uint64_t)v[i]); }
  h.add(other);
}

// F_ORPHAN: the MeterProvider (and with it the MeterContext) is destroyed while the application still
// holds the Meter; instruments created from then on have no storage and every Add must be a no-op.
void run_orphan(vf::Ctx &c, int part) {
  const Kind kind = (Kind)c.pick("kind", NKIND);
  const int ov = c.pick("overload", 4);
  c.stage("setup");
  nostd::shared_ptr<api::Meter> meter;
  {
    sdkm::MeterProvider provider(std::unique_ptr<sdkm::ViewRegistry>(new sdkm::ViewRegistry()), opentelemetry::sdk::resource::Resource::GetEmpty());
    meter = provider.GetMeter("m");
  }
  Handle h;
  h.create(*meter, kind);
  c.step();
  // the stage names the overload: a crash is reported as C06:crash:<stage>
  c.stage(vf::sfmt("%s::%s:meter-outlived-provider", kKindName[kind], kOverloadName[ov]).c_str());
  h.add_units(kUnits[kind][0], (ov & 1) ? 1 : 0, (ov & 2) != 0);
  c.stage("done");
  std::string s = vf::sfmt("part%d orphan %s::%s returned", part, kKindName[kind], kOverloadName[ov]);
  vf::H128 st;
  st.add(0x0c06); st.add((uint64_t)kind); st.add((uint64_t)ov);
  c.state(st);
  c.outcome(s);
  c.sample(s);
}

void run(vf::Ctx &c) {
  vf::clock_reset();
  vf::clock_set_autostep_ns(1000);
  const int part = c.pick("part", (int)g_parts.size());
  const Part &P = g_parts[part];
  if (P.feat == F_ORPHAN) { run_orphan(c, part); return; }
  const int g_depth = P.depth;
  int kind_list[NKIND], n_kinds = 0, view_list[3], n_viewcfg = 0;
  for (int k = 0; k < NKIND; ++k) if (P.kinds & (1u << k)) kind_list[n_kinds++] = k;
  for (int v = 0; v < 3; ++v) if (P.views & (1u << v)) view_list[n_viewcfg++] = v;
  const Kind kind = (Kind)kind_list[c.pick("kind", n_kinds)];
  const int nviews = view_list[c.pick("views", n_viewcfg)];
  const std::vector<ReaderCfg> &g_readers = g_reader_sets[P.readers];
  const int rcfg = c.pick("readers", (int)g_readers.size());
  const ReaderCfg &RC = g_readers[rcfg];
  const int fcfg = P.feat == F_FILTER ? c.pick("filter", 2) : -1;
  const int n_attr = P.n_attr;
  const bool small_vals = P.one_value || (P.small_dud && kind == K_DBL_UPDOWN);
  const int n_val = small_vals ? kNValSmall[kind] : kNVal[kind];
  int R = RC.n;
  const int S0 = nviews == 2 ? 2 : 1;                 // streams of meter "m"
  const int S = S0 + (P.feat == F_METERS ? 1 : 0);  // + the stream of meter "m2"

  c.stage("setup");
  const int64_t t0 = now_ns();
  sdkm::MeterProvider provider(std::unique_ptr<sdkm::ViewRegistry>(new sdkm::ViewRegistry()), opentelemetry::sdk::resource::Resource::GetEmpty());
  const int64_t t1 = now_ns();
  const sdkm::InstrumentType itype = is_updown(kind) ? sdkm::InstrumentType::kUpDownCounter : sdkm::InstrumentType::kCounter;
  StreamModel streams[NSTREAM];
  streams[0].name = "c";
  for (int s = 0; s < S0; ++s) streams[s].scope = "m";
  for (int v = 0; v < nviews; ++v) {
    streams[v].name = v == 0 ? "va" : "vb";
    provider.AddView(std::unique_ptr<sdkm::InstrumentSelector>(new sdkm::InstrumentSelector(itype, "c", "")),
                     std::unique_ptr<sdkm::MeterSelector>(new sdkm::MeterSelector("m", "", "")),
                     // the second view names the instrument type's own aggregation explicitly (kSum) instead of kDefault:
                     // same statement, other code path (DefaultAggregation::CreateAggregation(type, descriptor, config))
                     std::unique_ptr<sdkm::View>(v == 1 ? new sdkm::View(streams[v].name, "", "", sdkm::AggregationType::kSum) : new sdkm::View(streams[v].name)));
  }
  if (P.feat == F_METERS) { streams[S0].scope = "m2"; streams[S0].name = "c"; }
  // F_FILTER: which points reader 0 is allowed to see.
  //   filter 0: first stream of the instrument accepted partially (only {a=1} passes), second stream dropped
  //   filter 1: first stream dropped, second stream accepted
  auto visible = [&](int s, int x) { return fcfg < 0 ? true : fcfg == 0 ? (s == 0 && x == 1) : s == 1; };
  std::vector<std::shared_ptr<PullReader>> readers;
  ReaderModel rm[3];
  for (int r = 0; r < R; ++r) {
    readers.push_back(std::make_shared<PullReader>(RC.delta[r], itype));
    if (r == 0 && fcfg >= 0) {
      const std::string first = streams[0].name;
      provider.AddMetricReader(readers.back(),
                               sdkm::MetricFilter::Create(
                                   [first, fcfg](const opentelemetry::sdk::instrumentationscope::InstrumentationScope &, nostd::string_view name, const sdkm::InstrumentType &,
                                                 nostd::string_view) {
                                     bool is_first = std::string(name.data(), name.size()) == first;
                                     if (fcfg == 0) return is_first ? sdkm::MetricFilter::MetricFilterResult::kAcceptPartial : sdkm::MetricFilter::MetricFilterResult::kDrop;
                                     return is_first ? sdkm::MetricFilter::MetricFilterResult::kDrop : sdkm::MetricFilter::MetricFilterResult::kAccept;
                                   },
                                   [](const opentelemetry::sdk::instrumentationscope::InstrumentationScope &, nostd::string_view, const sdkm::InstrumentType &, nostd::string_view,
                                      const sdkm::PointAttributes &attrs) {
                                     return attr_id(attrs) == 1 ? sdkm::MetricFilter::AttributesFilterResult::kAccept : sdkm::MetricFilter::AttributesFilterResult::kDrop;
                                   }));
      rm[r].filtered = true;
    } else {
      provider.AddMetricReader(readers.back());
    }
    rm[r].delta = RC.delta[r];
  }
  nostd::shared_ptr<api::Meter> meter = provider.GetMeter("m");
  nostd::shared_ptr<api::Meter> meter2;
  if (P.feat == F_METERS) meter2 = provider.GetMeter("m2");
  sdkm::Meter *sdk_meter[2] = {static_cast<sdkm::Meter *>(meter.get()), meter2 ? static_cast<sdkm::Meter *>(meter2.get()) : nullptr};
  std::vector<std::unique_ptr<Handle>> handles;
  // all storages ever created, found through the handles that write to them (creation order); they
  // stay registered with their meter when the handle goes away
  std::vector<sdkm::SyncMetricStorage *> all_storages;
  int created_total = 0;
  int created_m0 = 0;  // handles obtained for the instrument of meter "m" so far
  auto create = [&](int on_meter) {
    std::unique_ptr<Handle> h(new Handle());
    h->meter = on_meter;
    h->serial = created_total++;
    if (on_meter == 0) created_m0++;
    h->create(on_meter == 0 ? *meter : *meter2, kind);
    auto *multi = static_cast<sdkm::SyncMultiMetricStorage *>(h->sync()->storage_.get());
    for (auto &s : multi->storages_) {
      auto *p = static_cast<sdkm::SyncMetricStorage *>(s.get());
      if (std::find(all_storages.begin(), all_storages.end(), p) == all_storages.end()) all_storages.push_back(p);
    }
    handles.push_back(std::move(h));
  };
  Handle twin;
  const sdkm::InstrumentValueType main_vt = (kind == K_U64 || kind == K_UPDOWN) ? sdkm::InstrumentValueType::kLong : sdkm::InstrumentValueType::kDouble;
  if (P.feat == F_TWIN) {
    twin.meter = 0;
    twin.serial = -1;
    twin.create(*meter, kind == K_U64 ? K_DBL : kind == K_DBL ? K_U64 : kind == K_UPDOWN ? K_DBL_UPDOWN : K_UPDOWN);
    twin.add_units(1, 0, false);
  }
  create(0);
  if (P.feat == F_METERS) create(1);

  std::string cfgs = vf::sfmt("part%d %s%s views=%d readers=", part, kFeatName[P.feat], kKindName[kind], nviews);
  for (int r = 0; r < R; ++r) cfgs += RC.delta[r] ? 'D' : 'C';
  if (fcfg >= 0) cfgs += fcfg == 0 ? " filter(r0)=partial{a=1}/drop" : " filter(r0)=drop/accept";
  std::string hist;
  std::string outlog;
  bool sdk_start_known = false;
  int64_t sdk_start = 0;
  bool late_added = false;
  for (int s = 0; s < S; ++s) streams[s].cuts.push_back(Totals{{0, 0, 0}});
  auto snapshot_cuts = [&]() {
    for (int s = 0; s < S; ++s) {
      Totals t{{streams[s].total[0], streams[s].total[1], streams[s].total[2]}};
      if (std::find(streams[s].cuts.begin(), streams[s].cuts.end(), t) == streams[s].cuts.end()) streams[s].cuts.push_back(t);
    }
  };

  auto real_state = [&](vf::H128 &h) {
    h.add(0xc06);
    h.add((uint64_t)part); h.add((uint64_t)kind); h.add((uint64_t)nviews); h.add((uint64_t)rcfg); h.add((uint64_t)(fcfg + 1));
    h.add((uint64_t)handles.size()); h.add((uint64_t)created_total);
    for (auto &hd : handles) h.add((uint64_t)hd->meter);
    h.add((uint64_t)(ts_ns(provider.context_->sdk_start_ts_) - vf::clock_system_base_ns()));
    auto collectors = provider.context_->GetCollectors();
    h.add((uint64_t)collectors.size());
    for (auto *s : all_storages) {
      h.add_str(s->instrument_descriptor_.name_);
      hash_map(h, kind, s->attributes_hashmap_.get());
      sdkm::TemporalMetricStorage &t = s->temporal_metric_storage_;
      for (auto &col : collectors) {
        auto u = t.unreported_metrics_.find(col.get());
        if (u == t.unreported_metrics_.end()) h.add(0xa0);
        else {
          h.add(0xa1 + u->second.size());
          for (auto &m : u->second) hash_map(h, kind, m.get());
        }
        auto l = t.last_reported_metrics_.find(col.get());
        if (l == t.last_reported_metrics_.end()) h.add(0xb0);
        else {
          h.add(0xb1);
          h.add((uint64_t)(ts_ns(l->second.collection_ts) - vf::clock_system_base_ns()));
          hash_map(h, kind, l->second.attributes_map.get());
        }
      }
    }
    // which storages each meter collects (the key strings are not hashed: the registry puts
    // addresses into them; what a key collides with is a function of the configuration)
    for (int mi = 0; mi < 2; ++mi) {
      if (!sdk_meter[mi]) continue;
      std::vector<int> reg;
      for (auto &kv : sdk_meter[mi]->storage_registry_) {
        int idx = -1;
        for (size_t i = 0; i < all_storages.size(); ++i)
          if (static_cast<sdkm::MetricStorage *>(all_storages[i]) == kv.second.get()) { idx = (int)i; break; }
        reg.push_back(idx);
      }
      std::sort(reg.begin(), reg.end());
      h.add(0x7e9 + reg.size());
      for (int e : reg) h.add((uint64_t)e);
    }
    h.add((uint64_t)vf::clock_virtual_ns());  // position of the (deterministic) clock
  };
  auto model_state = [&](vf::H128 &h) {
    h.add(sdk_start_known ? 1 : 0);
    h.add((uint64_t)R); h.add(late_added);
    for (int s = 0; s < S; ++s) {
      for (int x = 0; x < NATTR; ++x) { h.add((uint64_t)streams[s].total[x]); h.add(streams[s].ever[x]); }
      if (P.feat == F_LATE) {
        // the points in time a late reader may count from: needed until every late reader has reported once
        h.add(0xc0 + streams[s].cuts.size());
        for (auto &t : streams[s].cuts) for (int x = 0; x < NATTR; ++x) h.add((uint64_t)t[x]);
      }
    }
    for (int r = 0; r < R; ++r) {
      h.add(rm[r].delta); h.add(rm[r].collected); h.add((uint64_t)rm[r].prev_a); h.add(rm[r].late); h.add((uint64_t)rm[r].reg_b);
      for (int s = 0; s < S; ++s) {
        const ReaderStream &q = rm[r].rs[s];
        h.add(q.emitted); h.add((uint64_t)q.prev_emit_end); h.add(q.first_done);
        for (int x = 0; x < NATTR; ++x) { h.add((uint64_t)q.pending[x]); h.add(q.touched[x]); h.add((uint64_t)q.base[x]); h.add(q.since_reg[x]); }
      }
    }
  };

  vf::H128 cur;  // hash of the real objects' state after the operations so far
  real_state(cur);
  for (int d = 0; d < g_depth; ++d) {
    const bool last = d == g_depth - 1;
    const int nh = (int)handles.size();
    const int n_add = last ? 0 : nh * n_attr * n_val;
    int n_create = 0;
    if (!last) {
      if (P.feat == F_METERS) n_create = 0;
      else if (P.feat == F_DESTROY) n_create = (nh < g_max_handles && created_m0 < 3) ? 1 : 0;
      else n_create = nh < g_max_handles ? 1 : 0;
    }
    const int n_late = (!last && P.feat == F_LATE && !late_added && R < 3) ? 2 : 0;  // AddReader(delta), AddReader(cumulative)
    const int n_destroy = (!last && P.feat == F_DESTROY) ? nh : 0;
    const int n_ops = n_add + R + n_create + n_late + n_destroy;
    {
      // Sound pruning: the hash covers every field of the real objects that a later Add / Create /
      // Collect reads (per-storage interval map, per-collector stashes and last reports with their
      // timestamps, the meters' registries, the SDK start time, the clock position) plus the model.
      // The Add overload used at a step is a function of the remaining depth, which is hashed.
      vf::H128 h = cur;
      h.add((uint64_t)(g_depth - d));
      model_state(h);
      // (a forced pick is not a recorded choice, so pruning in front of it would also prune the
      // confirmation replay of a violation found behind it)
      if (n_ops > 1) c.prune_point(h);
    }
    // the final operation of a history is always a Collect: an Add or Create that nothing observes checks nothing
    int op = c.pick("op", n_ops);
    c.step();
    if (op < n_add) {
      int hi = op / (n_attr * n_val), rest = op % (n_attr * n_val);
      int attr = rest / n_val, vi = small_vals ? kSmallVal[kind][rest % n_val] : rest % n_val;
      const bool with_ctx = (d & 1) != 0;  // odd steps use the overloads that take an explicit Context
      c.stage("Add");
      hist += vf::sfmt(" Add(h%d,%s,%s%s)", handles[hi]->serial, show_units(kind, kUnits[kind][vi]).c_str(), kAttrName[attr], with_ctx ? ",ctx" : "");
      const int64_t u = kUnits[kind][vi];
      handles[hi]->add_units(u, attr, with_ctx);
      const int s_lo = handles[hi]->meter == 0 ? 0 : S0, s_hi = handles[hi]->meter == 0 ? S0 : S;
      for (int s = s_lo; s < s_hi; ++s) {
        streams[s].total[attr] += u;
        streams[s].ever[attr] = true;
        for (int r = 0; r < R; ++r) {
          rm[r].rs[s].pending[attr] += u;
          rm[r].rs[s].touched[attr] = true;
          if (rm[r].late) rm[r].rs[s].since_reg[attr] = true;
        }
      }
    } else if (op < n_add + R) {
      const int r = op - n_add;
      c.stage("Collect");
      hist += vf::sfmt(" Collect(r%d)", r);
      GotStream got[NSTREAM];
      std::string problem_sig, problem_msg;
      auto problem = [&](const char *sig, const std::string &msg) { if (problem_sig.empty()) { problem_sig = sig; problem_msg = msg; } };
      const int64_t a = now_ns();
      readers[r]->Collect([&](sdkm::ResourceMetrics &rmx) {
        for (auto &sm : rmx.scope_metric_data_) {
          const std::string scope = sm.scope_ ? sm.scope_->GetName() : std::string("<null scope>");
          for (auto &md : sm.metric_data_) {
            int s = -1;
            if (P.feat == F_TWIN && md.instrument_descriptor.value_type_ != main_vt) continue;  // the twin instrument's own stream
            for (int i = 0; i < S; ++i) if (md.instrument_descriptor.name_ == streams[i].name && scope == streams[i].scope) s = i;
            if (s < 0) { problem("C06:unknown-stream", "a stream named '" + md.instrument_descriptor.name_ + "' of scope '" + scope + "' was collected"); continue; }
            if (got[s].present) { problem("C06:duplicate-stream", "stream '" + streams[s].name + "' was handed to the reader twice in one collection"); continue; }
            got[s].present = true;
            got[s].start = ts_ns(md.start_ts);
            got[s].end = ts_ns(md.end_ts);
            got[s].temp = md.aggregation_temporality;
            for (auto &p : md.point_data_attr_) {
              int id = attr_id(p.attributes);
              if (id < 0) { problem("C06:unexpected-attributes", "a point with an attribute set that was never recorded"); continue; }
              if (got[s].has[id]) { problem("C06:duplicate-point", vf::sfmt("two points for attribute set %s in one collection of stream '%s'", kAttrName[id], streams[s].name.c_str())); continue; }
              std::string why;
              int64_t u = 0;
              if (!point_units(kind, p.point_data, &u, &why)) { problem("C06:point-type", why); continue; }
              got[s].has[id] = true;
              got[s].val[id] = u;
            }
          }
        }
        return true;
      });
      const int64_t b = now_ns();
      std::string where = " [" + cfgs + ";" + hist + "]";
      for (int q = 0; q < R; ++q)
        c.check(!readers[q]->asked_wrong_, "C06:temporality-asked-for-wrong-type",
                vf::sfmt("reader r%d was asked for its temporality with instrument type %d, the instrument's type is %d", q, readers[q]->wrong_type_, (int)itype) + where);
      if (!problem_sig.empty()) c.fail(problem_sig, problem_msg + where);
      const char *hctx = created_m0 > 1 ? ":multi-handle" : "";
      ReaderModel &M = rm[r];
      for (int s = 0; s < S; ++s) {
        ReaderStream &q = M.rs[s];
        const GotStream &g = got[s];
        const std::string sname = (P.feat == F_METERS ? streams[s].scope + "/" : std::string()) + streams[s].name;
        const bool first_late = M.late && !q.first_done;
        outlog += vf::sfmt("|r%d.%d:", r, s);
        if (first_late) {
          // Reader registered late, first collection of this stream. What it counts from is not stated
          // (reader registration is not part of the histories the statement quantifies over): any point
          // in time at which the SDK did something, from SDK start to the registration, is accepted; the
          // measurements recorded after the registration must all be there.
          Totals base;
          for (int x = 0; x < NATTR; ++x) base[x] = streams[s].total[x] - (g.present && g.has[x] ? g.val[x] : 0);
          bool match = std::find(streams[s].cuts.begin(), streams[s].cuts.end(), base) != streams[s].cuts.end();
          if (!match) {
            std::string gots;
            for (int x = 0; x < NATTR; ++x) gots += vf::sfmt("%s%s=%s", x ? ", " : "", kAttrName[x], g.present && g.has[x] ? show_units(kind, g.val[x]).c_str() : "-");
            if (c.report("C06:late-reader:first-collection-not-a-suffix-of-the-measurements",
                         vf::sfmt("reader r%d (%s, registered late), stream '%s': its first collection (%s) is not the sum of everything recorded since SDK start, since a "
                                  "collection before its registration, or since its registration",
                                  r, M.delta ? "delta" : "cumulative", sname.c_str(), gots.c_str()) + where))
              return;
          }
          for (int x = 0; x < NATTR; ++x) q.base[x] = base[x];
        }
        if (!g.present) {
          bool required = false;
          for (int x = 0; x < NATTR; ++x) {
            if (M.filtered && !visible(s, x)) continue;
            required |= M.late && !M.delta ? q.since_reg[x] : M.delta ? q.pending[x] != 0 : streams[s].ever[x];
          }
          outlog += "-";
          if (required) {
            std::string sig = std::string("C06:stream-absent") + (created_m0 > 1 ? ":multi-handle" : nviews == 2 ? ":multi-view" : "");
            std::string msg = vf::sfmt("reader r%d (%s) received no data for stream '%s' although measurements are due", r, M.delta ? "delta" : "cumulative", sname.c_str()) + where;
            if (c.report(sig, msg)) {
              if (created_m0 > 1) return;  // known finding: the registry lost a storage, the model cannot follow
            }
          }
        } else {
          c.check(g.temp == (M.delta ? sdkm::AggregationTemporality::kDelta : sdkm::AggregationTemporality::kCumulative), "C06:temporality",
                  vf::sfmt("reader r%d asked for %s but stream '%s' came with temporality %d", r, M.delta ? "delta" : "cumulative", sname.c_str(), (int)g.temp) + where);
          for (int x = 0; x < NATTR; ++x) {
            if (g.has[x]) outlog += vf::sfmt("%d=%lld,", x, (long long)g.val[x]);
            if (first_late && M.delta) continue;  // decided above (the value defines the base)
            int64_t want = M.delta ? q.pending[x] : streams[s].total[x] - (M.late ? q.base[x] : 0);
            bool ok;
            // an absent point is acceptable exactly when it would carry no information: a delta of 0,
            // or (cumulative) an attribute set that was never recorded (late reader: not since its
            // registration); a reader with a filter need not see what its filter rejects
            if (g.has[x]) ok = g.val[x] == want;
            else if (M.filtered && !visible(s, x)) ok = true;
            else ok = M.delta ? want == 0 : M.late ? !q.since_reg[x] : !streams[s].ever[x];
            if (!ok) {
              std::string sig = std::string(M.delta ? "C06:delta-point-value" : "C06:cumulative-point-value") + hctx;
              std::string msg = vf::sfmt("reader r%d (%s), stream '%s', attributes %s: got %s, expected %s (%s)", r, M.delta ? "delta" : "cumulative", sname.c_str(), kAttrName[x],
                                         g.has[x] ? show_units(kind, g.val[x]).c_str() : "no point", show_units(kind, want).c_str(),
                                         M.delta ? "sum of what was added since this reader's previous collection" : M.late ? "running total since the point this late reader counts from" : "running total since SDK start") + where;
              if (c.report(sig, msg)) return;  // known finding: real state and model have parted
            }
          }
          // interval bounds
          c.check(g.end > a && g.end < b, "C06:end-ts", vf::sfmt("end_ts of stream '%s' is not the time of the collection (offset %lld ns, collection between %lld and %lld)", sname.c_str(),
                                                                   (long long)(g.end - vf::clock_system_base_ns()), (long long)(a - vf::clock_system_base_ns()), (long long)(b - vf::clock_system_base_ns())) + where);
          bool start_is_sdk_start = sdk_start_known ? g.start == sdk_start : (g.start > t0 && g.start < t1);
          if (!M.delta) {
            c.check(start_is_sdk_start, "C06:cumulative-start-ts", vf::sfmt("cumulative stream '%s' for reader r%d starts at offset %lld ns, not at SDK start", sname.c_str(), r,
                                                                            (long long)(g.start - vf::clock_system_base_ns())) + where);
          } else if (!M.filtered) {
            // (a reader with a filter does not see the intervals its filter swallowed, so the ones it does
            // see need not abut)
            // allowed: the end of this reader's previous interval for the stream (SDK start if there
            // was none), or the time of this reader's previous collection if that one produced no
            // interval for the stream (the statement does not say which of the two "previous" means);
            // first interval of a late reader: anything from SDK start to its registration
            bool ok = q.emitted ? g.start == q.prev_emit_end : start_is_sdk_start;
            if (!ok && M.collected && g.start > M.prev_a && g.start < M.prev_b) ok = true;
            if (!ok && M.late && !q.emitted && g.start > t0 && g.start < M.reg_b) ok = true;
            if (!ok) {
              bool overlap = q.emitted && g.start < q.prev_emit_end;
              // one reader / several readers: the two code paths of TemporalMetricStorage::buildMetrics;
              // after a second Create the stream may come from another storage altogether
              std::string sig = std::string(overlap ? "C06:delta-start-ts:overlaps-previous-interval" : "C06:delta-start-ts:does-not-abut") + (created_m0 > 1 ? ":multi-handle" : R == 1 ? ":single-reader" : ":multi-reader");
              std::string msg = vf::sfmt("delta stream '%s' for reader r%d covers (%lld, %lld] ns but this reader's previous interval ended at %lld ns%s", sname.c_str(), r,
                                         (long long)(g.start - vf::clock_system_base_ns()), (long long)(g.end - vf::clock_system_base_ns()),
                                         (long long)((q.emitted ? q.prev_emit_end : sdk_start) - vf::clock_system_base_ns()), start_is_sdk_start ? " (it starts at SDK start again)" : "") + where;
              c.report(sig, msg);  // a timestamp only: if known, the values can still be followed
            }
          }
          if (!sdk_start_known && start_is_sdk_start && g.start > t0 && g.start < t1) { sdk_start_known = true; sdk_start = g.start; }
          q.emitted = true;
          q.prev_emit_end = g.end;
        }
        q.first_done = true;
        for (int x = 0; x < NATTR; ++x) { q.pending[x] = 0; q.touched[x] = false; }
      }
      M.collected = true;
      M.prev_a = a;
      M.prev_b = b;
      if (P.feat == F_LATE && !late_added) snapshot_cuts();
    } else if (op < n_add + R + n_create) {
      c.stage("Create");
      hist += " Create";
      create(0);
    } else if (op < n_add + R + n_create + n_late) {
      const bool delta = op - (n_add + R + n_create) == 0;
      c.stage("AddReader");
      hist += vf::sfmt(" AddReader(r%d:%s)", R, delta ? "delta" : "cumulative");
      snapshot_cuts();
      readers.push_back(std::make_shared<PullReader>(delta, itype));
      provider.AddMetricReader(readers.back());
      rm[R].delta = delta;
      rm[R].late = true;
      rm[R].reg_b = now_ns();
      cfgs += delta ? "+d" : "+c";
      R++;
      late_added = true;
    } else {
      const int hi = op - (n_add + R + n_create + n_late);
      c.stage("Destroy");
      hist += vf::sfmt(" Destroy(h%d)", handles[hi]->serial);
      handles.erase(handles.begin() + hi);
    }
    cur = vf::H128();
    real_state(cur);
    c.state(cur);
  }
  c.outcome(cfgs + outlog);
  c.sample(cfgs + ":" + hist + " =>" + outlog);
}

}  // namespace

VF_MAIN("c06_conservation", "C06", setup, run)
