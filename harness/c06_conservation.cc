// C06: counter / up-down-counter measurements are conserved across readers, temporalities,
// instrument handles and view streams; delta intervals abut, cumulative starts at SDK start
// (Engine B, sequential part; record/collect races are decided by the Engine-A harness).
//
// Every history of  Create(same name) | Add(handle, value, attrs) | Collect(reader)  up to the depth
// bound, on the real MeterProvider / MeterContext / Meter / SyncMetricStorage / TemporalMetricStorage
// with 1..3 harness pull readers of mixed temporality and 0..2 views on the instrument, in lock-step
// with a reference model (per reader and stream: pending delta per attribute set, running total,
// end of the previous interval).
#include <algorithm>
#include <chrono>
#include <map>
#include <memory>
#include <string>
#include <vector>

#include <opentelemetry/sdk/common/global_log_handler.h>
#include <opentelemetry/sdk/metrics/meter.h>
#include <opentelemetry/sdk/metrics/meter_context.h>
#include <opentelemetry/sdk/metrics/meter_provider.h>
#include <opentelemetry/sdk/metrics/metric_reader.h>
#include <opentelemetry/sdk/metrics/state/multi_metric_storage.h>
#include <opentelemetry/sdk/metrics/state/sync_metric_storage.h>
#include <opentelemetry/sdk/metrics/sync_instruments.h>
#include <opentelemetry/sdk/metrics/view/instrument_selector.h>
#include <opentelemetry/sdk/metrics/view/meter_selector.h>
#include <opentelemetry/sdk/metrics/view/view.h>
#include <opentelemetry/sdk/metrics/view/view_registry.h>
#include <opentelemetry/sdk/resource/resource.h>

#include "seq/vf_seq.h"
#include "vf_clock.h"

namespace sdkm = opentelemetry::sdk::metrics;
namespace api = opentelemetry::metrics;
namespace nostd = opentelemetry::nostd;
namespace common = opentelemetry::common;

namespace {

constexpr int NATTR = 3;  // attribute sets: {} , {a=1}, {a=2}
const char *const kAttrName[NATTR] = {"{}", "{a=1}", "{a=2}"};

enum Kind { K_U64 = 0, K_DBL = 1, K_UPDOWN = 2 };
const char *const kKindName[3] = {"UInt64Counter", "DoubleCounter", "Int64UpDownCounter"};
// value alphabets in model units (scale = units per 1.0): doubles are multiples of 0.25 so that every
// sum is exact whatever the association order
const int kNVal[3] = {2, 2, 3};
const int64_t kUnits[3][3] = {{1, 2, 0}, {2, 9, 0}, {1, 2, -1}};
const int64_t kScale[3] = {1, 4, 1};

int64_t now_ns() { return common::SystemTimestamp(std::chrono::system_clock::now()).time_since_epoch().count(); }
int64_t ts_ns(const common::SystemTimestamp &t) { return t.time_since_epoch().count(); }

class PullReader : public sdkm::MetricReader {
 public:
  explicit PullReader(bool delta) : delta_(delta) {}
  sdkm::AggregationTemporality GetAggregationTemporality(sdkm::InstrumentType) const noexcept override {
    return delta_ ? sdkm::AggregationTemporality::kDelta : sdkm::AggregationTemporality::kCumulative;
  }

 private:
  bool OnForceFlush(std::chrono::microseconds) noexcept override { return true; }
  bool OnShutDown(std::chrono::microseconds) noexcept override { return true; }
  bool delta_;
};

// -1: not one of the three attribute sets of the alphabet
int attr_id(const std::map<std::string, opentelemetry::sdk::common::OwnedAttributeValue> &m) {
  if (m.empty()) return 0;
  if (m.size() != 1 || m.begin()->first != "a") return -1;
  const auto &v = m.begin()->second;
  if (!nostd::holds_alternative<int32_t>(v)) return -1;
  int32_t x = nostd::get<int32_t>(v);
  return x == 1 ? 1 : x == 2 ? 2 : -1;
}

struct Handle {
  Kind kind;
  nostd::unique_ptr<api::Counter<uint64_t>> u64;
  nostd::unique_ptr<api::Counter<double>> dbl;
  nostd::unique_ptr<api::UpDownCounter<int64_t>> ud;
  void add(int vi, int attr) {
    int64_t u = kUnits[kind][vi];
    if (kind == K_U64) {
      if (attr == 0) u64->Add((uint64_t)u);
      else u64->Add((uint64_t)u, {{"a", (int32_t)attr}});
    } else if (kind == K_DBL) {
      double v = (double)u / 4.0;
      if (attr == 0) dbl->Add(v);
      else dbl->Add(v, {{"a", (int32_t)attr}});
    } else {
      if (attr == 0) ud->Add(u);
      else ud->Add(u, {{"a", (int32_t)attr}});
    }
  }
  sdkm::Synchronous *sync() {
    if (kind == K_U64) return static_cast<sdkm::LongCounter *>(u64.get());
    if (kind == K_DBL) return static_cast<sdkm::DoubleCounter *>(dbl.get());
    return static_cast<sdkm::LongUpDownCounter *>(ud.get());
  }
};

// one point value of the real code -> model units; false if the point is not an exact multiple of the unit
bool point_units(Kind kind, const sdkm::PointType &pt, int64_t *units, std::string *why) {
  if (!nostd::holds_alternative<sdkm::SumPointData>(pt)) { *why = "point is not a SumPointData"; return false; }
  const auto &sp = nostd::get<sdkm::SumPointData>(pt);
  if (kind == K_DBL) {
    if (!nostd::holds_alternative<double>(sp.value_)) { *why = "double instrument reports a non-double value"; return false; }
    double v = nostd::get<double>(sp.value_) * 4.0;
    if (!(v > -1e15 && v < 1e15) || (double)(int64_t)v != v) { *why = vf::sfmt("value %.17g is not a sum of the recorded values", v / 4.0); return false; }
    *units = (int64_t)v;
  } else {
    if (!nostd::holds_alternative<int64_t>(sp.value_)) { *why = "integer instrument reports a non-integer value"; return false; }
    *units = nostd::get<int64_t>(sp.value_);
  }
  return true;
}

std::string show_units(Kind kind, int64_t u) {
  if (kind == K_DBL) return vf::sfmt("%g", (double)u / 4.0);
  return vf::sfmt("%lld", (long long)u);
}

struct ReaderCfg { int n; bool delta[3]; };
// A run is split into parts with different bounds: (depth, alphabet, reader configurations).
//   n_attr: attribute sets {} and {a=1} (2) or also {a=2} (3)
//   one_value: one value per instrument (up-down: +1 and -1) instead of two (up-down: three)
//   readers: ALL14 = every ordered configuration of 1..3 readers; REP8 = one per multiset of
//            temporalities (readers are interchangeable up to their position in the collector list)
//            plus one reordering; REP6 = REP8 without CC and CDD; TWO5 = at most two readers
enum ReaderSet { ALL14 = 0, REP8 = 1, REP6 = 2, TWO5 = 3 };
struct Part { int depth; int n_attr; bool one_value; ReaderSet readers; };
std::vector<Part> g_parts;
std::vector<ReaderCfg> g_reader_sets[4];
int g_max_handles = 2;
const int kNValSmall[3] = {1, 1, 2};
const int kSmallVal[3][2] = {{0, 0}, {0, 0}, {0, 2}};  // indices into kUnits

void setup(vf::Options &o) {
  o.split_depth = 5;
  o.deadline_s = o.thorough ? 900 : 150;
  o.table_bits = o.thorough ? 25 : 23;
  opentelemetry::sdk::common::internal_log::GlobalLogHandler::SetLogLevel(opentelemetry::sdk::common::internal_log::LogLevel::None);
  const bool D = true, C = false;
  for (int n = 1; n <= 3; ++n)
    for (int m = 0; m < (1 << n); ++m) {
      ReaderCfg rc{n, {false, false, false}};
      for (int i = 0; i < n; ++i) rc.delta[i] = !((m >> i) & 1);
      g_reader_sets[ALL14].push_back(rc);
    }
  g_reader_sets[REP8] = {{1, {D}}, {1, {C}}, {2, {D, D}}, {2, {D, C}}, {2, {C, C}}, {3, {D, D, C}}, {3, {D, C, C}}, {3, {C, D, D}}};
  g_reader_sets[REP6] = {{1, {D}}, {1, {C}}, {2, {D, D}}, {2, {D, C}}, {3, {D, D, C}}, {3, {D, C, C}}};
  g_reader_sets[TWO5] = {{1, {D}}, {1, {C}}, {2, {D, D}}, {2, {D, C}}, {2, {C, C}}};
  if (o.thorough) g_parts = {{5, 3, false, REP8}, {5, 2, true, ALL14}, {6, 2, true, REP8}, {7, 2, true, TWO5}};
  else g_parts = {{5, 2, false, REP6}};
  std::string d = o.get("depth");
  if (!d.empty()) g_parts = {{atoi(d.c_str()), atoi(o.get("nattr", "3").c_str()), o.get("onevalue") == "1", (ReaderSet)atoi(o.get("readers", "1").c_str())}};
}

struct ReaderStream {
  int64_t pending[NATTR] = {0, 0, 0};
  bool touched[NATTR] = {false, false, false};
  bool emitted = false;      // a MetricData for this stream was handed to this reader before
  int64_t prev_emit_end = 0;  // its end_ts
};
struct ReaderModel {
  bool delta = false;
  bool collected = false;
  int64_t prev_a = 0, prev_b = 0;  // harness clock readings around this reader's previous Collect
  ReaderStream rs[2];
};
struct StreamModel {
  std::string name;
  int64_t total[NATTR] = {0, 0, 0};
  bool ever[NATTR] = {false, false, false};
};

struct GotStream {
  bool present = false;
  bool has[NATTR] = {false, false, false};
  int64_t val[NATTR] = {0, 0, 0};
  int64_t start = 0, end = 0;
  sdkm::AggregationTemporality temp = sdkm::AggregationTemporality::kUnspecified;
};

void hash_map(vf::H128 &h, Kind kind, const sdkm::AttributesHashMap *m) {
  if (!m) { h.add(0xdead); return; }
  int64_t v[NATTR + 1] = {0, 0, 0, 0};
  bool has[NATTR + 1] = {false, false, false, false};
  uint64_t other = 0;
  m->GetAllEnteries([&](const sdkm::MetricAttributes &a, sdkm::Aggregation &agg) {
    int id = attr_id(a);
    int64_t u = 0;
    std::string why;
    sdkm::PointType pt = agg.ToPoint();
    if (!point_units(kind, pt, &u, &why)) {
      // not representable in units: hash the raw bits so that the state is still distinguished
      if (nostd::holds_alternative<sdkm::SumPointData>(pt) && nostd::holds_alternative<double>(nostd::get<sdkm::SumPointData>(pt).value_)) {
        double d = nostd::get<double>(nostd::get<sdkm::SumPointData>(pt).value_);
        memcpy(&u, &d, sizeof u);
      }
      other += 0x9e3779b97f4a7c15ull;
    }
    if (id < 0) { other += vf::H128::mix((uint64_t)u + 77); return true; }
    has[id] = true; v[id] = u;
    return true;
  });
  for (int i = 0; i < NATTR; ++i) { h.add(has[i] ? 1 : 0); h.add((uint64_t)v[i]); }
  h.add(other);
}

void run(vf::Ctx &c) {
  vf::clock_reset();
  vf::clock_set_autostep_ns(1000);
  const int part = c.pick("part", (int)g_parts.size());
  const Part &P = g_parts[part];
  const int g_depth = P.depth;
  const Kind kind = (Kind)c.pick("kind", 3);
  const int nviews = c.pick("views", 3);
  const std::vector<ReaderCfg> &g_readers = g_reader_sets[P.readers];
  const int rcfg = c.pick("readers", (int)g_readers.size());
  const ReaderCfg &RC = g_readers[rcfg];
  const int n_attr = P.n_attr;
  const int n_val = P.one_value ? kNValSmall[kind] : kNVal[kind];
  const int R = RC.n;
  const int S = nviews == 2 ? 2 : 1;

  c.stage("setup");
  const int64_t t0 = now_ns();
  sdkm::MeterProvider provider(std::unique_ptr<sdkm::ViewRegistry>(new sdkm::ViewRegistry()), opentelemetry::sdk::resource::Resource::GetEmpty());
  const int64_t t1 = now_ns();
  const sdkm::InstrumentType itype = kind == K_UPDOWN ? sdkm::InstrumentType::kUpDownCounter : sdkm::InstrumentType::kCounter;
  StreamModel streams[2];
  streams[0].name = "c";
  for (int v = 0; v < nviews; ++v) {
    streams[v].name = v == 0 ? "va" : "vb";
    provider.AddView(std::unique_ptr<sdkm::InstrumentSelector>(new sdkm::InstrumentSelector(itype, "c", "")),
                     std::unique_ptr<sdkm::MeterSelector>(new sdkm::MeterSelector("m", "", "")),
                     std::unique_ptr<sdkm::View>(new sdkm::View(streams[v].name)));
  }
  std::vector<std::shared_ptr<PullReader>> readers;
  ReaderModel rm[3];
  for (int r = 0; r < R; ++r) {
    readers.push_back(std::make_shared<PullReader>(RC.delta[r]));
    provider.AddMetricReader(readers.back());
    rm[r].delta = RC.delta[r];
  }
  nostd::shared_ptr<api::Meter> meter = provider.GetMeter("m");
  sdkm::Meter *sdk_meter = static_cast<sdkm::Meter *>(meter.get());
  std::vector<std::unique_ptr<Handle>> handles;
  auto create = [&]() {
    std::unique_ptr<Handle> h(new Handle());
    h->kind = kind;
    if (kind == K_U64) h->u64 = meter->CreateUInt64Counter("c");
    else if (kind == K_DBL) h->dbl = meter->CreateDoubleCounter("c");
    else h->ud = meter->CreateInt64UpDownCounter("c");
    handles.push_back(std::move(h));
  };
  create();

  std::string cfgs = vf::sfmt("part%d %s views=%d readers=", part, kKindName[kind], nviews);
  for (int r = 0; r < R; ++r) cfgs += RC.delta[r] ? 'D' : 'C';
  std::string hist;
  std::string outlog;
  bool sdk_start_known = false;
  int64_t sdk_start = 0;
  uint64_t model_fold = 0;  // nothing of the model is history dependent beyond the fields hashed below

  // all storages ever created, through the handles that write to them (creation order)
  auto storages = [&]() {
    std::vector<sdkm::SyncMetricStorage *> out;
    for (auto &h : handles) {
      auto *multi = static_cast<sdkm::SyncMultiMetricStorage *>(h->sync()->storage_.get());
      for (auto &s : multi->storages_) out.push_back(static_cast<sdkm::SyncMetricStorage *>(s.get()));
    }
    return out;
  };
  auto collectors = provider.context_->GetCollectors();

  auto real_state = [&](vf::H128 &h) {
    h.add(0xc06);
    h.add((uint64_t)part); h.add((uint64_t)kind); h.add((uint64_t)nviews); h.add((uint64_t)rcfg); h.add((uint64_t)handles.size());
    h.add((uint64_t)(ts_ns(provider.context_->sdk_start_ts_) - vf::clock_system_base_ns()));
    std::vector<sdkm::SyncMetricStorage *> st = storages();
    for (auto *s : st) {
      h.add_str(s->instrument_descriptor_.name_);
      hash_map(h, kind, s->attributes_hashmap_.get());
      sdkm::TemporalMetricStorage &t = s->temporal_metric_storage_;
      for (auto &col : collectors) {
        auto u = t.unreported_metrics_.find(col.get());
        if (u == t.unreported_metrics_.end()) h.add(0xa0);
        else {
          h.add(0xa1 + u->second.size());
          for (auto &m : u->second) hash_map(h, kind, m.get());
        }
        auto l = t.last_reported_metrics_.find(col.get());
        if (l == t.last_reported_metrics_.end()) h.add(0xb0);
        else {
          h.add(0xb1);
          h.add((uint64_t)(ts_ns(l->second.collection_ts) - vf::clock_system_base_ns()));
          hash_map(h, kind, l->second.attributes_map.get());
        }
      }
    }
    // which storages the meter collects (the key strings are not hashed: a repaired registry may put
    // addresses into them; what a key collides with is a function of the configuration)
    std::vector<int> reg;
    for (auto &kv : sdk_meter->storage_registry_) {
      int idx = -1;
      for (size_t i = 0; i < st.size(); ++i)
        if (static_cast<sdkm::MetricStorage *>(st[i]) == kv.second.get()) { idx = (int)i; break; }
      reg.push_back(idx);
    }
    std::sort(reg.begin(), reg.end());
    h.add(0x7e9 + reg.size());
    for (int e : reg) h.add((uint64_t)e);
    h.add((uint64_t)vf::clock_virtual_ns());  // position of the (deterministic) clock
  };
  auto model_state = [&](vf::H128 &h) {
    h.add(sdk_start_known ? 1 : 0);
    for (int s = 0; s < S; ++s)
      for (int x = 0; x < NATTR; ++x) { h.add((uint64_t)streams[s].total[x]); h.add(streams[s].ever[x]); }
    for (int r = 0; r < R; ++r) {
      h.add(rm[r].collected); h.add((uint64_t)rm[r].prev_a);
      for (int s = 0; s < S; ++s) {
        const ReaderStream &q = rm[r].rs[s];
        h.add(q.emitted); h.add((uint64_t)q.prev_emit_end);
        for (int x = 0; x < NATTR; ++x) { h.add((uint64_t)q.pending[x]); h.add(q.touched[x]); }
      }
    }
    h.add(model_fold);
  };

  vf::H128 cur;  // hash of the real objects' state after the operations so far
  real_state(cur);
  for (int d = 0; d < g_depth; ++d) {
    const bool last = d == g_depth - 1;
    const int nh = (int)handles.size();
    const int n_add = last ? 0 : nh * n_attr * n_val;
    const int n_create = (!last && nh < g_max_handles) ? 1 : 0;
    {
      // Sound pruning: the hash covers every field of the real objects that a later Add / Create /
      // Collect reads (per-storage interval map, per-collector stashes and last reports with their
      // timestamps, the meter's registry, the SDK start time, the clock position) plus the model.
      vf::H128 h = cur;
      h.add((uint64_t)(g_depth - d));
      model_state(h);
      // (a forced pick is not a recorded choice, so pruning in front of it would also prune the
      // confirmation replay of a violation found behind it)
      if (n_add + R + n_create > 1) c.prune_point(h);
    }
    // the final operation of a history is always a Collect: an Add or Create that nothing observes checks nothing
    int op = c.pick("op", n_add + R + n_create);
    c.step();
    if (op < n_add) {
      int hi = op / (n_attr * n_val), rest = op % (n_attr * n_val);
      int attr = rest / n_val, vi = P.one_value ? kSmallVal[kind][rest % n_val] : rest % n_val;
      c.stage("Add");
      hist += vf::sfmt(" Add(h%d,%s,%s)", hi, show_units(kind, kUnits[kind][vi]).c_str(), kAttrName[attr]);
      handles[hi]->add(vi, attr);
      int64_t u = kUnits[kind][vi];
      for (int s = 0; s < S; ++s) {
        streams[s].total[attr] += u;
        streams[s].ever[attr] = true;
        for (int r = 0; r < R; ++r) { rm[r].rs[s].pending[attr] += u; rm[r].rs[s].touched[attr] = true; }
      }
    } else if (op < n_add + R) {
      const int r = op - n_add;
      c.stage("Collect");
      hist += vf::sfmt(" Collect(r%d)", r);
      GotStream got[2];
      std::string problem_sig, problem_msg;
      auto problem = [&](const char *sig, const std::string &msg) { if (problem_sig.empty()) { problem_sig = sig; problem_msg = msg; } };
      const int64_t a = now_ns();
      readers[r]->Collect([&](sdkm::ResourceMetrics &rmx) {
        for (auto &sm : rmx.scope_metric_data_)
          for (auto &md : sm.metric_data_) {
            int s = -1;
            for (int i = 0; i < S; ++i) if (md.instrument_descriptor.name_ == streams[i].name) s = i;
            if (s < 0) { problem("C06:unknown-stream", "a stream named '" + md.instrument_descriptor.name_ + "' was collected"); continue; }
            if (got[s].present) { problem("C06:duplicate-stream", "stream '" + streams[s].name + "' was handed to the reader twice in one collection"); continue; }
            got[s].present = true;
            got[s].start = ts_ns(md.start_ts);
            got[s].end = ts_ns(md.end_ts);
            got[s].temp = md.aggregation_temporality;
            for (auto &p : md.point_data_attr_) {
              int id = attr_id(p.attributes);
              if (id < 0) { problem("C06:unexpected-attributes", "a point with an attribute set that was never recorded"); continue; }
              if (got[s].has[id]) { problem("C06:duplicate-point", vf::sfmt("two points for attribute set %s in one collection of stream '%s'", kAttrName[id], streams[s].name.c_str())); continue; }
              std::string why;
              int64_t u = 0;
              if (!point_units(kind, p.point_data, &u, &why)) { problem("C06:point-type", why); continue; }
              got[s].has[id] = true;
              got[s].val[id] = u;
            }
          }
        return true;
      });
      const int64_t b = now_ns();
      std::string where = " [" + cfgs + ";" + hist + "]";
      if (!problem_sig.empty()) c.fail(problem_sig, problem_msg + where);
      const char *hctx = handles.size() > 1 ? ":multi-handle" : "";
      ReaderModel &M = rm[r];
      for (int s = 0; s < S; ++s) {
        ReaderStream &q = M.rs[s];
        const GotStream &g = got[s];
        outlog += vf::sfmt("|r%d.%d:", r, s);
        if (!g.present) {
          bool required = false;
          for (int x = 0; x < NATTR; ++x) required |= M.delta ? q.pending[x] != 0 : streams[s].ever[x];
          outlog += "-";
          if (required) {
            std::string sig = std::string("C06:stream-absent") + (handles.size() > 1 ? ":multi-handle" : nviews == 2 ? ":multi-view" : "");
            std::string msg = vf::sfmt("reader r%d (%s) received no data for stream '%s' although measurements are due", r, M.delta ? "delta" : "cumulative", streams[s].name.c_str()) + where;
            if (c.report(sig, msg)) {
              if (handles.size() > 1) return;  // known finding: the registry lost a storage, the model cannot follow
            }
          }
        } else {
          c.check(g.temp == (M.delta ? sdkm::AggregationTemporality::kDelta : sdkm::AggregationTemporality::kCumulative), "C06:temporality",
                  vf::sfmt("reader r%d asked for %s but stream '%s' came with temporality %d", r, M.delta ? "delta" : "cumulative", streams[s].name.c_str(), (int)g.temp) + where);
          for (int x = 0; x < NATTR; ++x) {
            int64_t want = M.delta ? q.pending[x] : streams[s].total[x];
            bool ok;
            // an absent point is acceptable exactly when it would carry no information: a delta of 0,
            // or (cumulative) an attribute set that was never recorded
            if (g.has[x]) ok = g.val[x] == want;
            else ok = M.delta ? want == 0 : !streams[s].ever[x];
            if (g.has[x]) outlog += vf::sfmt("%d=%lld,", x, (long long)g.val[x]);
            if (!ok) {
              std::string sig = std::string(M.delta ? "C06:delta-point-value" : "C06:cumulative-point-value") + hctx;
              std::string msg = vf::sfmt("reader r%d (%s), stream '%s', attributes %s: got %s, expected %s (%s)", r, M.delta ? "delta" : "cumulative", streams[s].name.c_str(), kAttrName[x],
                                         g.has[x] ? show_units(kind, g.val[x]).c_str() : "no point", show_units(kind, want).c_str(),
                                         M.delta ? "sum of what was added since this reader's previous collection" : "running total since SDK start") + where;
              if (c.report(sig, msg)) return;  // known finding: real state and model have parted
            }
          }
          // interval bounds
          c.check(g.end > a && g.end < b, "C06:end-ts", vf::sfmt("end_ts of stream '%s' is not the time of the collection (offset %lld ns, collection between %lld and %lld)", streams[s].name.c_str(),
                                                                   (long long)(g.end - vf::clock_system_base_ns()), (long long)(a - vf::clock_system_base_ns()), (long long)(b - vf::clock_system_base_ns())) + where);
          bool start_is_sdk_start = sdk_start_known ? g.start == sdk_start : (g.start > t0 && g.start < t1);
          if (!M.delta) {
            c.check(start_is_sdk_start, "C06:cumulative-start-ts", vf::sfmt("cumulative stream '%s' for reader r%d starts at offset %lld ns, not at SDK start", streams[s].name.c_str(), r,
                                                                            (long long)(g.start - vf::clock_system_base_ns())) + where);
          } else {
            // allowed: the end of this reader's previous interval for the stream (SDK start if there
            // was none), or the time of this reader's previous collection if that one produced no
            // interval for the stream (the statement does not say which of the two "previous" means)
            bool ok = q.emitted ? g.start == q.prev_emit_end : start_is_sdk_start;
            if (!ok && M.collected && g.start > M.prev_a && g.start < M.prev_b) ok = true;
            if (!ok) {
              bool overlap = q.emitted && g.start < q.prev_emit_end;
              // one reader / several readers: the two code paths of TemporalMetricStorage::buildMetrics;
              // after a second Create the stream may come from another storage altogether
              std::string sig = std::string(overlap ? "C06:delta-start-ts:overlaps-previous-interval" : "C06:delta-start-ts:does-not-abut") + (handles.size() > 1 ? ":multi-handle" : R == 1 ? ":single-reader" : ":multi-reader");
              std::string msg = vf::sfmt("delta stream '%s' for reader r%d covers (%lld, %lld] ns but this reader's previous interval ended at %lld ns%s", streams[s].name.c_str(), r,
                                         (long long)(g.start - vf::clock_system_base_ns()), (long long)(g.end - vf::clock_system_base_ns()),
                                         (long long)((q.emitted ? q.prev_emit_end : sdk_start) - vf::clock_system_base_ns()), start_is_sdk_start ? " (it starts at SDK start again)" : "") + where;
              c.report(sig, msg);  // a timestamp only: if known, the values can still be followed
            }
          }
          if (!sdk_start_known && start_is_sdk_start && g.start > t0 && g.start < t1) { sdk_start_known = true; sdk_start = g.start; }
          q.emitted = true;
          q.prev_emit_end = g.end;
        }
        for (int x = 0; x < NATTR; ++x) { q.pending[x] = 0; q.touched[x] = false; }
      }
      M.collected = true;
      M.prev_a = a;
      M.prev_b = b;
    } else {
      c.stage("Create");
      hist += " Create";
      create();
    }
    cur = vf::H128();
    real_state(cur);
    c.state(cur);
  }
  c.outcome(cfgs + outlog);
  c.sample(cfgs + ":" + hist + " =>" + outlog);
}

}  // namespace

VF_MAIN("c06_conservation", "C06", setup, run)
