H("c09_w3c_propagation", "C09", "seq", ["harness/c09_w3c_propagation.cc"], sdk=[],
  args={"quick": [], "thorough": []},
  what="real HttpTraceContext (header-only, API): Inject over all 256 flag bytes x every (position, nibble) one-hot / all-f / mixed / zero trace and span id x "
       "trace states with 0, 1, 32 and 32 maximal members against an independent encoder, followed by Extract (round trip); Extract over every <= 1 (thorough: <= 2) "
       "point mutation (22 byte classes, insert / delete / duplicate / truncate at every length / tails) of 14 well-formed and near-well-formed traceparent seeds "
       "(versions 00, 01, fe, cc, ff, 0f; exact and longer forms) and of 7 tracestate seeds, in exact-size heap blocks under ASan, against an independent W3C parser "
       "with a three-valued oracle; a rejected header must return the caller's context itself; absent headers answered with an empty block and with a null-data view; "
       "the public TraceIdFromHex / SpanIdFromHex / TraceFlagsFromHex on every length 0..2N+2 with every single-byte deviation over hex / non-hex classes (no crash / out-of-bounds, all-hex input that fits decodes left-padded)",
  design_ref="5/C09")
