// C16: B3 (single / multi header) and Jaeger propagation round-trip identity and the sampling decision (Engine B).
//  part 0  inject  : three propagators x (all 256 flag bytes x 4 id pairs, every (position, nibble) one-hot / all-f /
//                    mixed / zero trace and span id, no span at all) x local / remote original; oracle: Extract(Inject(x))
//                    is remote, has the same ids and IsSampled() == x.IsSampled() for every flags byte and no other flag
//                    bit; the injected text is a documented form under the reference decoders (same ids, same sampled
//                    decision); Fields() = the keys Inject wrote; whatever is written for an invalid context is never
//                    installed by Extract.
//  part 1  extract : deviation-bounded generator over documented and near-documented b3 / X-B3-* / uber-trace-id seeds
//                    (<= m point mutations per execution, over byte classes, truncation at every length, tails, any of
//                    the headers of the format) against independent reference decoders, three-valued oracle.
#include <algorithm>

#include <opentelemetry/trace/propagation/b3_propagator.h>
#include <opentelemetry/trace/propagation/jaeger.h>

#include "c09_propagation_common.h"

using namespace vfp;
namespace prop = opentelemetry::trace::propagation;

namespace {

const char *const kB3 = "b3", *const kBT = "X-B3-TraceId", *const kBS = "X-B3-SpanId", *const kBF = "X-B3-Sampled", *const kJ = "uber-trace-id";
const char *const kBFl = "X-B3-Flags", *const kBP = "X-B3-ParentSpanId";  // documented B3 multi headers the statement says nothing about
const char *const kPropName[3] = {"b3single", "b3multi", "jaeger"};

std::unique_ptr<context::propagation::TextMapPropagator> make_prop(int which) {
  if (which == 0) return std::unique_ptr<context::propagation::TextMapPropagator>(new prop::B3Propagator());
  if (which == 1) return std::unique_ptr<context::propagation::TextMapPropagator>(new prop::B3PropagatorMultiHeader());
  return std::unique_ptr<context::propagation::TextMapPropagator>(new prop::JaegerPropagator());
}

// ---- independent reference decoders ---------------------------------------------------------------------------
enum Cls { MUST_ACCEPT, MUST_REJECT, DONT_CARE };
struct Ref {
  Cls cls = MUST_REJECT;
  std::string tid, sid;  // 32 / 16 lower-case digits (valid unless MUST_REJECT)
  int sampled = -1;      // 1 / 0: the documented meaning of the sampling field; -1: not documented, unchecked
  bool debug = false;    // the sampling field is the B3 debug flag
  int other_bits = 0;    // Jaeger: the bits of the flags field other than bit 0 (debug 0x02, firehose 0x08, ...); valid when sampled >= 0
};

// 1..digits hex digits of either case, value non-zero -> left-padded lower-case
bool dec_id(const std::string &h, size_t digits, std::string *out) {
  if (h.empty() || h.size() > digits || !all_xhex(h)) return false;
  std::string v = std::string(digits - h.size(), '0') + fold_hex(h);
  if (all_zero_digits(v)) return false;
  *out = v;
  return true;
}
std::vector<std::string> split_all(const std::string &s, char sep) {
  std::vector<std::string> f;
  size_t a = 0;
  for (;;) {
    size_t b = s.find(sep, a);
    if (b == std::string::npos) { f.push_back(s.substr(a)); return f; }
    f.push_back(s.substr(a, b - a));
    a = b + 1;
  }
}
// documented id forms: lower-case hex, 32 or 16 digits for the trace id, 16 for the span id
bool doc_tid(const std::string &h) { return all_lhex(h) && (h.size() == 32 || h.size() == 16); }
bool doc_sid(const std::string &h) { return all_lhex(h) && h.size() == 16; }

Ref ref_b3_fields(const std::string &tid, const std::string &sid, bool has_flag, const std::string &flag, bool has_parent, const std::string &parent, bool extra) {
  Ref r;
  if (!dec_id(tid, 32, &r.tid) || !dec_id(sid, 16, &r.sid)) return r;  // nothing that decodes to non-zero ids
  bool doc = doc_tid(tid) && doc_sid(sid) && !extra;
  if (!has_flag) r.sampled = 0;  // missing sampling field: not sampled (the decision is deferred)
  else if (flag == "1") r.sampled = 1;
  else if (flag == "d") { r.sampled = 1; r.debug = true; }
  else if (flag == "0") r.sampled = 0;
  else doc = false;
  if (has_parent && !doc_sid(parent)) doc = false;
  r.cls = doc ? MUST_ACCEPT : DONT_CARE;
  return r;
}
Ref ref_b3(const MapCarrier &car) {
  std::string b3 = car.value(kB3), flag = car.value(kBF), dbg = car.value(kBFl), parent = car.value(kBP);
  Ref multi = ref_b3_fields(car.value(kBT), car.value(kBS), !flag.empty(), flag, !parent.empty(), parent, false);
  // X-B3-Flags: 1 is the multi-header spelling of the debug flag. The statement decides the debug flag only in
  // its 'd' spelling ("B3 debug flag 'd' as sampled"): the ids are judged as usual, the sampling decision is
  // unchecked unless X-B3-Sampled says "sampled" as well; a value other than 0 / 1 is not a documented form.
  if (!dbg.empty()) {
    if (dbg != "0" && dbg != "1" && multi.cls == MUST_ACCEPT) multi.cls = DONT_CARE;
    if (dbg != "0" && multi.sampled != 1) multi.sampled = -1;
  }
  if (b3.empty()) return multi;  // an empty value is indistinguishable from an absent header
  std::vector<std::string> f = split_all(b3, '-');
  Ref single;
  if (f.size() >= 2) single = ref_b3_fields(f[0], f[1], f.size() >= 3, f.size() >= 3 ? f[2] : "", f.size() >= 4, f.size() >= 4 ? f[3] : "", f.size() > 4);
  if (single.cls != MUST_REJECT) return single;  // the single header takes precedence
  // A single header without usable ids (including the sampling-only forms "0" / "1" / "d"): returning the caller's
  // context is what the statement describes; falling back to usable multi headers would also install non-zero ids.
  if (multi.cls != MUST_REJECT) { multi.cls = DONT_CARE; return multi; }
  return single;
}
Ref ref_jaeger(const std::string &raw) {
  Ref r;
  // Jaeger clients may URL-encode the value (':' written as %3A). The statement does not list that variant: such
  // a value is read with the separators decoded and is never must-accept (accept with these ids, or reject).
  std::string v;
  bool url_encoded = false;
  for (size_t i = 0; i < raw.size(); ++i) {
    if (raw[i] == '%' && i + 2 < raw.size() && raw[i + 1] == '3' && (raw[i + 2] == 'A' || raw[i + 2] == 'a')) { v += ':'; i += 2; url_encoded = true; }
    else v += raw[i];
  }
  std::vector<std::string> f = split_all(v, ':');
  if (f.size() < 2 || !dec_id(f[0], 32, &r.tid) || !dec_id(f[1], 16, &r.sid)) return r;
  bool doc = f.size() == 4 && doc_tid(f[0]) && doc_sid(f[1]) && !f[2].empty() && f[2].size() <= 16 && all_lhex(f[2]);
  if (f.size() >= 4 && (f[3].size() == 1 || f[3].size() == 2) && all_xhex(f[3])) {
    int val = 0;
    for (char ch : f[3]) val = val * 16 + nibble(ch);
    r.sampled = val & 1;
    r.other_bits = val & 0xfe;
  }
  if (!(f.size() == 4 && (f[3].size() == 1 || f[3].size() == 2) && all_lhex(f[3]))) doc = false;
  r.cls = doc && !url_encoded ? MUST_ACCEPT : DONT_CARE;
  if (url_encoded && f.size() != 4) r.sampled = -1;  // which field holds the flags depends on whether the separators are decoded
  return r;
}

const std::string T1 = "80f198ee56343ba864fe8b2a57d3eff7", S1 = "e457b5a2e4d86bd1", P1 = "05e3ac9a4f6e3b90";
const std::string T2 = "463ac35c9f6413ad48485a3953bb6124", S2 = "a2fb4a1d1a96d312", T64 = "64fe8b2a57d3eff7";

// ---- part 0: inject / round trip ---------------------------------------------------------------------------------
void run_inject(vf::Ctx &c) {
  const auto &tids = id_patterns<16>();
  const auto &sids = id_patterns<8>();
  static const std::array<uint8_t, 16> fixed_t[4] = {bytes_of_hex<16>(T1), bytes_of_hex<16>("00000000000000000000000000000001"),
                                                     bytes_of_hex<16>("ffffffffffffffffffffffffffffffff"), bytes_of_hex<16>("0000000000000000" + T64)};
  static const std::array<uint8_t, 8> fixed_s[4] = {bytes_of_hex<8>(S1), bytes_of_hex<8>("0000000000000001"), bytes_of_hex<8>("ffffffffffffffff"),
                                                    bytes_of_hex<8>("8000000000000000")};
  static const uint8_t few_flags[4] = {0x00, 0x01, 0x02, 0xfd};
  int which = c.pick("propagator", 3);
  const std::string P = std::string("C16:") + kPropName[which];
  std::array<uint8_t, 16> t{};
  std::array<uint8_t, 8> s{};
  uint8_t flags = 0;
  bool no_span = false, product = false;
  switch (c.pick("sweep", c.thorough() ? 5 : 4)) {
    case 0: {  // every flags byte
      flags = (uint8_t)c.pick("flags", 256);
      int p = c.pick("ids", 4);
      t = fixed_t[p]; s = fixed_s[p];
      break;
    }
    case 1:
      t = tids[c.pick("tid", (int)tids.size())];
      s = fixed_s[c.pick("sid", 3)];
      flags = few_flags[c.pick("flags", 4)];
      break;
    case 2:
      s = sids[c.pick("sid", (int)sids.size())];
      t = fixed_t[c.pick("tid", 3)];
      flags = few_flags[c.pick("flags", 4)];
      break;
    case 3:
      no_span = true;
      break;
    default:  // thorough: the full product of id patterns
      t = tids[c.pick("tid", (int)tids.size())];
      s = sids[c.pick("sid", (int)sids.size())];
      flags = few_flags[c.pick("flags", 2)];
      product = true;
      break;
  }
  bool remote = !no_span && !product && c.flip("original-is-remote");
  trace::SpanContext sc = make_sc(t, s, flags, remote);
  context::Context cx = no_span ? context::Context() : ctx_with_span(sc);
  std::string th = hex_lower(t.data(), 16), sh = hex_lower(s.data(), 8);
  bool valid = !no_span && !all_zero_digits(th) && !all_zero_digits(sh);
  std::string what = no_span ? std::string("context without span") : th + "/" + sh + vf::sfmt(" flags 0x%02x", flags) + (remote ? " remote" : " local");

  MapCarrier car;
  auto pr = make_prop(which);
  c.stage("Inject");
  pr->Inject(car, cx);
  c.step();
  VFP_CHECK(c, tid_hex(trace::GetSpan(cx)->GetContext()) == th, P + ":inject-modified-context", "Inject changed the context it read");
  std::string injected = car.show();
  // what the independent reference decoders make of the injected text (taken now: Extract's checker scribbles the carrier)
  const Ref rinj = which == 2 ? ref_jaeger(car.value(kJ)) : ref_b3(car);
  // Fields(): "Gets the fields set in the carrier by the `inject` method" (text_map_propagator.h)
  {
    std::vector<std::string> fields, keys = car.sets;
    pr->Fields([&](nostd::string_view k) noexcept { fields.emplace_back(k.data(), k.size()); return true; });
    std::sort(fields.begin(), fields.end());
    std::sort(keys.begin(), keys.end());
    keys.erase(std::unique(keys.begin(), keys.end()), keys.end());
    bool ok = valid ? fields == keys : std::includes(fields.begin(), fields.end(), keys.begin(), keys.end());
    if (!ok) {
      std::string shown_fields;
      for (auto &f : fields) shown_fields += f + " ";
      c.fail(P + ":fields-differ-from-inject", "Fields() reports { " + shown_fields + "}, Inject(" + what + ") wrote " + injected);
    }
  }

  c.stage("Extract(injected)");
  Extracted e = extract_checked(c, *pr, car, product ? 1 : c.pick("caller", 2), P);
  c.step();
  if (!valid) {
    VFP_CHECK(c, !e.installed, P + ":invalid-context-propagated", "Inject of an invalid span context (" + what + ") wrote " + injected + ", which Extract installs as " + e.canon());
    c.state(P + "|" + injected);
    c.outcome(P + "|invalid");
    c.sample(std::string(kPropName[which]) + ": Inject(" + what + ") => " + injected + " => Extract => rejected");
    return;
  }
  VFP_CHECK(c, e.installed, P + ":roundtrip-rejected", "Extract rejected what Inject wrote for " + what + ": " + injected);
  VFP_CHECK(c, e.tid == th, P + ":roundtrip-trace-id", "trace id " + th + " came back as " + e.tid + "; injected " + injected);
  VFP_CHECK(c, e.sid == sh, P + ":roundtrip-span-id", "span id " + sh + " came back as " + e.sid + "; injected " + injected);
  if (e.sampled != sc.IsSampled()) {
    // keep going when this is a listed finding
    c.report(P + ":roundtrip-sampled", vf::sfmt("flags byte 0x%02x (sampled=%d) came back with sampled=%d; injected %s", flags, (int)sc.IsSampled(), (int)e.sampled, injected.c_str()));
  }
  // The injected text is of the documented format: the reference decoder (which knows nothing of this Extract's
  // leniencies: upper case, short ids, ignored fields) classifies it must-accept, with the same ids and the same
  // sampled decision. Not judged: the B3 debug spelling 'd' for a sampled context, Jaeger flag bits other than bit 0.
  VFP_CHECK(c, rinj.cls == MUST_ACCEPT, P + ":inject-undocumented-format",
            "Inject(" + what + ") wrote " + injected + ", which is not a documented form of the header (lower-case hex, 32/16-digit trace id, 16-digit span id, " +
                (which == 2 ? "four ':'-separated fields, parent id of 1-16 hex digits, flags of 1-2 hex digits)" : "sampling field 0 / 1 / d or absent)"));
  VFP_CHECK(c, rinj.tid == th, P + ":inject-wrong-trace-id", "Inject(" + what + ") wrote " + injected + ", which encodes the trace id " + rinj.tid);
  VFP_CHECK(c, rinj.sid == sh, P + ":inject-wrong-span-id", "Inject(" + what + ") wrote " + injected + ", which encodes the span id " + rinj.sid);
  VFP_CHECK(c, rinj.sampled == (int)sc.IsSampled(), P + ":inject-wrong-sampled",
            vf::sfmt("Inject(%s) wrote %s, whose documented meaning is sampled=%d", what.c_str(), injected.c_str(), rinj.sampled));
  if (rinj.debug) c.counted("inject_writes_debug_flag");
  if (rinj.other_bits) c.counted("inject_writes_other_jaeger_flag_bits");
  // B3 defines no flag besides the sampling decision, and the injected Jaeger flags carry none here: the extracted
  // trace flags have no bit other than "sampled"
  if (which != 2 || rinj.other_bits == 0)
    VFP_CHECK(c, e.flags <= 1, P + ":extra-flag-bits", vf::sfmt("Extract(Inject(%s)) has trace flags 0x%02x; injected %s", what.c_str(), e.flags, injected.c_str()));
  c.state(P + "|" + injected);
  c.outcome(P + "|" + e.tid + e.sid + (e.sampled ? "1" : "0"));
  c.sample(std::string(kPropName[which]) + ": Inject(" + what + ") => " + injected + " => Extract => " + e.canon());
}

// ---- part 1: extraction from arbitrary bytes ----------------------------------------------------------------------
struct Seed {
  std::vector<std::pair<const char *, std::string>> h;
};

const MutSpec &spec(bool reduced) {
  static MutSpec full, small;
  if (full.classes.empty()) {
    // hex digits (zero / non-zero, the flag characters 0 1 d), both cases, the characters next to the hex ranges in
    // ASCII, both separators, whitespace, control, DEL, 0x80+, NUL
    full.classes = std::string("017adfADFgG/:@`- \t\x01\x7f\x80\xff", 22) + std::string(1, '\0');
    full.tails = {"-", "-1", "-d", ":", ":1", "-" + P1, " ", std::string("\0\0", 2), std::string(40, 'a')};
    small.classes = std::string("01dDg-: \x80", 9) + std::string(1, '\0');
    small.tails = {"-1", ":1", std::string(40, 'a')};
  }
  return reduced ? small : full;
}

const std::vector<Seed> &seeds(int format) {
  static std::vector<Seed> v[3];
  if (v[0].empty()) {
    const std::string one_t = "0000000000000000000000000000000a", one_s = "000000000000000b";
    // B3 single header
    for (const std::string &s : {T1 + "-" + S1 + "-1", T1 + "-" + S1 + "-0", T1 + "-" + S1 + "-d", T1 + "-" + S1, T1 + "-" + S1 + "-1-" + P1, T64 + "-" + S1 + "-1",
                                 one_t + "-" + one_s + "-1", std::string("0"), std::string("d"), std::string("80F198EE56343BA864FE8B2A57D3EFF7-E457B5A2E4D86BD1-1"),
                                 "0" + T1 + "-" + S1 + "-1", T1 + "-" + S1 + "-true"})
      v[0].push_back(Seed{{{kB3, s}}});
    // B3 multi header, and both kinds together
    v[1].push_back(Seed{{{kBT, T1}, {kBS, S1}, {kBF, "1"}}});
    v[1].push_back(Seed{{{kBT, T64}, {kBS, S1}, {kBF, "0"}}});
    v[1].push_back(Seed{{{kBT, T1}, {kBS, S1}}});
    v[1].push_back(Seed{{{kBT, T1}, {kBS, S1}, {kBF, "d"}}});
    v[1].push_back(Seed{{{kBT, one_t}, {kBS, one_s}, {kBF, "1"}}});
    v[1].push_back(Seed{{{kBT, T1}, {kBS, S1}, {kBF, "true"}}});
    v[1].push_back(Seed{{{kBS, S1}, {kBF, "1"}}});
    v[1].push_back(Seed{{{kB3, T2 + "-" + S2 + "-0"}, {kBT, T1}, {kBS, S1}, {kBF, "1"}}});  // the single header wins
    v[1].push_back(Seed{{{kB3, "0"}, {kBT, T1}, {kBS, S1}, {kBF, "1"}}});
    v[1].push_back(Seed{{{kB3, T2 + "-" + S2}, {kBT, T1}, {kBS, S1}, {kBF, "1"}}});
    // documented B3 multi headers outside the statement (appended: the indices above are used by `core`):
    // debug flag as X-B3-Flags: 1 without / against a sampling header, and a parent span id
    v[1].push_back(Seed{{{kBT, T1}, {kBS, S1}, {kBFl, "1"}}});
    v[1].push_back(Seed{{{kBT, T1}, {kBS, S1}, {kBF, "0"}, {kBFl, "1"}}});
    v[1].push_back(Seed{{{kBT, T1}, {kBS, S1}, {kBF, "1"}, {kBP, P1}}});
    // Jaeger
    for (const std::string &s : {T1 + ":" + S1 + ":0:01", T1 + ":" + S1 + ":0:00", T64 + ":" + S1 + ":0:1", T1 + ":" + S1 + ":" + P1 + ":03", T1 + ":" + S1 + ":0:02",
                                 one_t + ":" + one_s + ":0:1", T1 + ":" + S1 + ":0", std::string("80F198EE56343BA864FE8B2A57D3EFF7:E457B5A2E4D86BD1:0:1"), T1 + ":" + S1 + ":0:ff",
                                 std::string(),
                                 T1 + "%3A" + S1 + "%3A0%3A01" /* URL-encoded separators: outside the statement */})
      v[2].push_back(Seed{{{kJ, s}}});
  }
  return v[format];
}

void run_extract(vf::Ctx &c) {
  int format = c.pick("format", 3);
  const auto &sd = seeds(format);
  int si = c.pick("seed", (int)sd.size());
  static const std::vector<const char *> keys[3] = {{kB3, kBT, kBS, kBF, kBFl, kBP}, {kB3, kBT, kBS, kBF, kBFl, kBP}, {kJ}};
  std::map<std::string, std::string> hdr;
  for (auto &kv : sd[si].h) hdr[kv.first] = kv.second;
  std::string desc = vf::sfmt("%s seed%d", format == 0 ? "b3-single" : format == 1 ? "b3-multi" : "jaeger", si);
  // two mutations (thorough): on the core seeds only, second mutation over the reduced alphabet
  static const std::vector<int> core[3] = {{0, 5, 6}, {0}, {0, 5}};
  bool is_core = false;
  for (int k : core[format]) is_core |= (k == si);
  int nm = c.pick("mutations", (c.thorough() && is_core ? 2 : 1) + 1);
  int last_target = 0;
  size_t minpos = 0;
  for (int i = 0; i < nm; ++i) {
    // the second mutation goes to the same or a later header, and within the same header to the same or a later position
    int target = last_target + c.pick("mut-header", (int)keys[format].size() - last_target);
    if (target != last_target) minpos = 0;
    last_target = target;
    std::string d = mutate(c, hdr[keys[format][target]], &minpos, spec(i > 0));
    desc += std::string(" ") + keys[format][target] + ":" + (d.empty() ? "noop" : d);
  }
  int caller = nm <= 1 ? c.pick("caller", 2) : 1;
  MapCarrier car;
  for (auto &kv : hdr)
    if (!kv.second.empty() || (nm == 0 && c.flip("empty-header-present"))) car.put(kv.first, kv.second);
  auto pr = make_prop(format);
  c.stage(format == 2 ? "Extract(jaeger)" : "Extract(b3)");
  std::string shown = car.show() + " (" + desc + ")";
  Ref r = format == 2 ? ref_jaeger(car.value(kJ)) : ref_b3(car);
  const std::string P = std::string("C16:") + (format == 2 ? "jaeger" : car.value(kB3).empty() ? "b3multi" : "b3single");
  Extracted e = extract_checked(c, *pr, car, caller, P);
  c.step();
  if (r.cls == MUST_ACCEPT) {
    c.counted("must_accept");
    VFP_CHECK(c, e.installed, P + ":documented-form-rejected", "documented header form was rejected: " + shown);
  } else if (r.cls == MUST_REJECT) {
    c.counted("must_reject");
    VFP_CHECK(c, !e.installed, P + ":undecodable-accepted", "headers that do not decode to non-zero ids were accepted as " + e.canon() + ": " + shown);
  } else {
    c.counted(e.installed ? "dont_care_accepted" : "dont_care_rejected");
  }
  if (e.installed) {
    VFP_CHECK(c, e.tid == r.tid, P + ":wrong-trace-id", "decoded trace id " + e.tid + ", encoded " + r.tid + ": " + shown);
    VFP_CHECK(c, e.sid == r.sid, P + ":wrong-span-id", "decoded span id " + e.sid + ", encoded " + r.sid + ": " + shown);
    if (r.sampled >= 0)
      VFP_CHECK(c, (int)e.sampled == r.sampled, P + (r.debug ? ":debug-flag-not-sampled" : ":wrong-sampled"),
                vf::sfmt("decoded sampled=%d, the documented meaning is sampled=%d: %s", (int)e.sampled, r.sampled, shown.c_str()));
    // trace flags other than "sampled": the B3 formats define none, so none may appear. Jaeger defines debug (0x02)
    // and firehose (0x08): when the header's flags field carries a bit other than bit 0 the statement ("the same
    // sampled decision, whatever other flag bits ...") does not say whether it may show up in the trace flags -
    // counted only; when the field carries none, none may appear.
    if (format != 2 || (r.sampled >= 0 && r.other_bits == 0))
      VFP_CHECK(c, e.flags <= 1, P + ":extra-flag-bits", vf::sfmt("decoded trace flags 0x%02x carry bits that the header does not: %s", e.flags, shown.c_str()));
    else if (r.sampled >= 0)
      c.counted((e.flags & 0xfe) ? "jaeger_other_flag_bits_in_trace_flags" : "jaeger_other_flag_bits_dropped");
  }
  c.state(P + "|" + e.canon());
  c.outcome(P + "|" + e.canon());
  if (shown.size() < 200) c.sample("Extract(" + shown + ") => " + e.canon());
}

void setup(vf::Options &o) {
  o.split_depth = 3;
  o.deadline_s = o.thorough ? 900 : 100;
  o.table_bits = o.thorough ? 23 : 22;
}

void run(vf::Ctx &c) {
  static const int only = atoi(c.opt().get("part", "-1").c_str());  // development aid: --part=N runs one part
  if ((only >= 0 ? only : c.pick("part", 2)) == 0) run_inject(c);
  else run_extract(c);
}

}  // namespace

VF_MAIN("c16_b3_jaeger", "C16", setup, run)
