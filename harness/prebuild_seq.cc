// Links every SDK group once so that the object cache of the seq variant is warm.
#include "vf_core.h"
static void setup(vf::Options &) {}
static void run(vf::Ctx &c) { c.step(); c.state("x"); }
VF_MAIN("prebuild_seq", "SELF", setup, run)
