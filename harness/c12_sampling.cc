// C12: sampling is consistent - the ratio sampler is monotone in the ratio and depends only on
// (trace id, ratio); ParentBased follows a valid parent and consults its delegate only without one;
// AlwaysOn / AlwaysOff are constant (Engine B, input enumeration on the real samplers).
//
// Alphabet. Ratios: ~150 boundary values (negative, -0.0, 0, denormals, DBL_MIN, powers of two around
// 2^-64 / 2^-53 / 2^-32 with both neighbours, j/(2^32-1) and j/2^32 with neighbours, round decimals,
// 0.5 +- ulp, the largest doubles below 1, 1, 1+ulp, 2, huge, +inf; NaN is outside the quantifier).
// Trace ids: for every ratio the id prefix ON that sampler's decision boundary, found by bisection on
// the real ShouldSample, with its +-1, +-2, +-1024, +-2048, +-4096 neighbours (adjacent ids often map
// to one double), the byte-reversed and half-swapped forms of each, and 0, 1, 2^63, 2^64-1 ...; each
// prefix with three different low halves.
//
// Parts (first pick):
//   0 single : one pick per ratio, loop over all ids: r<=0 never, r>=1 always, decision independent
//              of the low 8 bytes, of parent/name/kind/attributes/links, of repetition and of the
//              sampler instance
//   1 pairs  : one pick per pair r1<r2, loop over all id prefixes: sampled(r1,id) => sampled(r2,id)
//   2 parent : ParentBased over parents x flags x remote x trace state x delegates
//   3 const  : AlwaysOn / AlwaysOff over the same parents and all ids
//   4 tracer : spans started through a real Tracer (custom id generator): the sampled flag of the new
//              span context equals the sampler's decision
#include <algorithm>
#include <cfloat>
#include <cmath>
#include <limits>
#include <map>

#include <opentelemetry/common/key_value_iterable_view.h>
#include <opentelemetry/sdk/trace/exporter.h>
#include <opentelemetry/sdk/trace/id_generator.h>
#include <opentelemetry/sdk/trace/processor.h>
#include <opentelemetry/sdk/trace/samplers/always_off.h>
#include <opentelemetry/sdk/trace/samplers/always_on.h>
#include <opentelemetry/sdk/trace/samplers/parent.h>
#include <opentelemetry/sdk/trace/samplers/trace_id_ratio.h>
#include <opentelemetry/sdk/resource/resource.h>
#include <opentelemetry/sdk/trace/simple_processor.h>
#include <opentelemetry/sdk/trace/span_data.h>
#include <opentelemetry/sdk/trace/tracer_provider.h>
#include <opentelemetry/trace/span_context_kv_iterable_view.h>

#include "seq/vf_seq.h"

namespace nostd = opentelemetry::nostd;
namespace tr = opentelemetry::trace;
namespace sdk = opentelemetry::sdk::trace;
namespace common = opentelemetry::common;
using sdk::Decision;

namespace {

// ---------------------------------------------------------------------------------------------
// alphabets
// ---------------------------------------------------------------------------------------------
std::vector<double> g_ratios;            // ascending (by value; -0.0 before +0.0)
std::vector<uint64_t> g_prefix;          // ascending id prefixes (as the native-endian integer of bytes 0..7)
std::vector<int> g_boundary_of_ratio;    // index into g_prefix of the largest sampled prefix, -1 never, -2 always
const uint64_t kLows[3] = {0, 0xffffffffffffffffull, 0x0123456789abcdefull};

uint64_t bits_of(double d) { uint64_t u; memcpy(&u, &d, 8); return u; }
std::string rname(double r) { return vf::sfmt("%.17g (0x%016llx)", r, (unsigned long long)bits_of(r)); }

tr::TraceId make_id(uint64_t prefix, uint64_t low) {
  uint8_t b[16];
  memcpy(b, &prefix, 8);  // the first 8 bytes of the id, in the byte order in which the sampler reads them
  memcpy(b + 8, &low, 8);
  return tr::TraceId(b);
}
std::string idname(uint64_t prefix, uint64_t low) {
  tr::TraceId id = make_id(prefix, low);
  char h[32];
  id.ToLowerBase16(h);
  return std::string(h, 32) + vf::sfmt(" (prefix value %llu)", (unsigned long long)prefix);
}

const common::NoopKeyValueIterable kNoAttrs;
const tr::NullSpanContext kNoLinks;

bool sampled(sdk::Sampler &s, uint64_t prefix, uint64_t low = 0) {
  return s.ShouldSample(tr::SpanContext::GetInvalid(), make_id(prefix, low), "", tr::SpanKind::kInternal, kNoAttrs, kNoLinks).decision == Decision::RECORD_AND_SAMPLE;
}

void build_ratios(bool thorough) {
  const double INF = std::numeric_limits<double>::infinity(), DEN = std::numeric_limits<double>::denorm_min();
  std::vector<double> R;
  auto add = [&](double r) { R.push_back(r); };
  auto add3 = [&](double r) { add(std::nextafter(r, -INF)); add(r); add(std::nextafter(r, INF)); };
  for (double r : {-INF, -1e300, -2.0, -1.0, -0.5, -1e-9, -DBL_MIN, -DEN, -0.0, 0.0, DEN, 2 * DEN, DBL_MIN / 2}) add(r);
  add3(DBL_MIN);
  for (double r : {1e-300, std::ldexp(1.0, -1000), 1e-100, std::ldexp(1.0, -128), std::ldexp(1.0, -96), std::ldexp(1.0, -70)}) add(r);
  for (int e : {-66, -65, -64, -63, -62}) add3(std::ldexp(1.0, e));
  for (double r : {std::ldexp(3.0, -65), std::ldexp(3.0, -64), std::ldexp(5.0, -64), std::ldexp(1.0, -60), std::ldexp(1.0, -56)}) add(r);
  for (int e : {-54, -53, -52}) add3(std::ldexp(1.0, e));
  for (double r : {std::ldexp(1.0, -48), std::ldexp(1.0, -40)}) add(r);
  for (int e : {-33, -32, -31, -16, -8}) add3(std::ldexp(1.0, e));
  for (double j : {255.0, 16777216.0, 1073741824.0}) add3(j / 4294967295.0);
  for (double r : {0.05, 0.7, 0.95}) add(r);
  for (double j : {1.0, 2.0, 3.0, 65536.0, 2147483647.0, 2147483648.0, 2147483649.0, 4294967293.0, 4294967294.0}) add3(j / 4294967295.0);
  for (double j : {3.0, 2147483649.0, 4294967295.0}) add3(j / 4294967296.0);
  for (double r : {1e-12, 1e-9, 1e-6, 1e-4, 0.001, 0.1, 0.2, 0.3, 1.0 / 3, 2.0 / 3, 0.9, 0.99, 0.999999, 1 - 1e-12}) add(r);
  for (double r : {0.01, 0.25, 0.5, 0.75}) add3(r);
  add3(1 - std::ldexp(1.0, -32));
  add3(1 - std::ldexp(1.0, -52));
  add(1 - std::ldexp(1.0, -53));
  for (double r : {1.0, std::nextafter(1.0, 2.0), 1 + 1e-9, 1.5, 2.0, 4294967295.0, 4294967296.0, 1.8446744073709552e19, 1e300, DBL_MAX, INF}) add(r);
  if (thorough) {
    // thorough tier: a grid k/64 and the powers of ten, then additionally both neighbours and second
    // neighbours of every finite ratio
    for (int k = 1; k < 64; ++k) add(k / 64.0);
    for (int k = 1; k <= 19; ++k) add(std::pow(10.0, -k));
    size_t n = R.size();
    for (size_t i = 0; i < n; ++i) {
      if (!std::isfinite(R[i])) continue;
      double up = std::nextafter(R[i], INF), dn = std::nextafter(R[i], -INF);
      add(up); add(dn); add(std::nextafter(up, INF)); add(std::nextafter(dn, -INF));
    }
  }
  std::sort(R.begin(), R.end(), [](double a, double b) { return a < b || (a == b && std::signbit(a) && !std::signbit(b)); });
  for (double r : R)
    if (g_ratios.empty() || bits_of(g_ratios.back()) != bits_of(r)) g_ratios.push_back(r);
}

uint64_t bswap(uint64_t x) { return __builtin_bswap64(x); }
uint64_t halfswap(uint64_t x) { return (x << 32) | (x >> 32); }

void build_ids(bool thorough) {
  std::vector<uint64_t> P = {0, 1, 2, 3, 255, 256, 0x7fffffffffffffffull, 0x8000000000000000ull, 0x8000000000000001ull, 0xfffffffffffffffeull, 0xffffffffffffffffull,
                             0x00000000ffffffffull, 0x0000000100000000ull, 0xffffffff00000000ull, 0x0123456789abcdefull};
  std::vector<uint64_t> boundary(g_ratios.size(), 0);
  std::vector<int> kind(g_ratios.size(), 0);
  std::vector<int64_t> offs = {-4096, -2048, -1024, -2, -1, 0, 1, 2, 1024, 2048, 4096};
  if (thorough) for (int64_t d : {3, 4, 512, 8192, 65536, 1 << 20}) { offs.push_back(d); offs.push_back(-d); }
  for (size_t i = 0; i < g_ratios.size(); ++i) {
    sdk::TraceIdRatioBasedSampler s(g_ratios[i]);
    if (!sampled(s, 0)) { kind[i] = -1; continue; }
    if (sampled(s, UINT64_MAX)) { kind[i] = -2; continue; }
    uint64_t lo = 0, hi = UINT64_MAX;  // sampled(lo) && !sampled(hi)
    while (hi - lo > 1) {
      uint64_t mid = lo + (hi - lo) / 2;
      if (sampled(s, mid)) lo = mid; else hi = mid;
    }
    boundary[i] = lo;
    for (int64_t d : offs) {
      uint64_t p = lo + (uint64_t)d;
      if ((d < 0 && p > lo) || (d > 0 && p < lo)) continue;  // wrapped
      P.push_back(p);
    }
  }
  size_t n0 = P.size();
  for (size_t i = 0; i < n0; ++i) {
    // other byte orders of the same prefixes (a sampler that read the id in another byte order, or
    // other bytes, would put its boundaries there); the thorough tier adds the 32-bit half swap
    P.push_back(bswap(P[i]));
    if (thorough) { P.push_back(halfswap(P[i])); P.push_back(bswap(halfswap(P[i]))); }
  }
  std::sort(P.begin(), P.end());
  P.erase(std::unique(P.begin(), P.end()), P.end());
  g_prefix = P;
  g_boundary_of_ratio.assign(g_ratios.size(), -1);
  for (size_t i = 0; i < g_ratios.size(); ++i) {
    if (kind[i] < 0) { g_boundary_of_ratio[i] = kind[i]; continue; }
    g_boundary_of_ratio[i] = (int)(std::lower_bound(P.begin(), P.end(), boundary[i]) - P.begin());
  }
}

// ---- argument variants that must not influence the ratio sampler ---------------------------------
struct Variants {
  std::vector<tr::SpanContext> parents;
  std::vector<std::string> names;
  std::vector<tr::SpanKind> kinds;
  std::map<std::string, std::string> attr_map;
  std::vector<std::pair<tr::SpanContext, std::map<std::string, std::string>>> link_vec;
  std::unique_ptr<common::KeyValueIterableView<std::map<std::string, std::string>>> attrs;
  std::unique_ptr<tr::SpanContextKeyValueIterableView<std::vector<std::pair<tr::SpanContext, std::map<std::string, std::string>>>>> links;
  Variants() {
    uint8_t t[16] = {1, 2, 3, 4, 5, 6, 7, 8, 9, 10, 11, 12, 13, 14, 15, 16}, sp[8] = {1, 1, 1, 1, 1, 1, 1, 1};
    parents.push_back(tr::SpanContext::GetInvalid());
    parents.push_back(tr::SpanContext(tr::TraceId(t), tr::SpanId(sp), tr::TraceFlags(1), true));
    parents.push_back(tr::SpanContext(tr::TraceId(t), tr::SpanId(sp), tr::TraceFlags(0), false, tr::TraceState::FromHeader("k=v")));
    names = {"", "span", std::string(300, 'n')};
    kinds = {tr::SpanKind::kInternal, tr::SpanKind::kServer, tr::SpanKind::kClient, tr::SpanKind::kProducer, tr::SpanKind::kConsumer};
    attr_map = {{"sampling.priority", "1"}, {"http.method", "GET"}};
    link_vec.emplace_back(parents[1], std::map<std::string, std::string>{{"l", "1"}});
    attrs.reset(new common::KeyValueIterableView<std::map<std::string, std::string>>(attr_map));
    links.reset(new tr::SpanContextKeyValueIterableView<std::vector<std::pair<tr::SpanContext, std::map<std::string, std::string>>>>(link_vec));
  }
  int count() const { return (int)(parents.size() * names.size() * kinds.size() * 2 * 2); }
  sdk::SamplingResult call(sdk::Sampler &s, const tr::TraceId &id, int v, std::string *desc = nullptr) const {
    int pi = v % (int)parents.size(); v /= (int)parents.size();
    int ni = v % (int)names.size(); v /= (int)names.size();
    int ki = v % (int)kinds.size(); v /= (int)kinds.size();
    int ai = v % 2; v /= 2;
    int li = v % 2;
    if (desc) *desc = vf::sfmt("parent#%d name#%d kind#%d attributes:%s links:%s", pi, ni, ki, ai ? "2" : "none", li ? "1" : "none");
    return s.ShouldSample(parents[pi], id, names[ni], kinds[ki], ai ? static_cast<const common::KeyValueIterable &>(*attrs) : kNoAttrs,
                          li ? static_cast<const tr::SpanContextKeyValueIterable &>(*links) : kNoLinks);
  }
};
const Variants &variants() { static Variants v; return v; }

void setup(vf::Options &o) {
  o.split_depth = 2;
  o.deadline_s = o.thorough ? 900 : 100;
  o.table_bits = 22;
  build_ratios(o.thorough);
  build_ids(o.thorough);
}

// ---------------------------------------------------------------------------------------------
// part 0: one ratio, all ids
// ---------------------------------------------------------------------------------------------
void run_single(vf::Ctx &c) {
  int ri = c.pick("ratio", (int)g_ratios.size());
  double r = g_ratios[ri];
  c.stage("ratio.single");
  c.counted("ratios");
  sdk::TraceIdRatioBasedSampler s(r), s2(r);
  const Variants &V = variants();
  const int NV = V.count();
  uint64_t threshold = s.threshold_;
  c.state(vf::sfmt("ratio %016llx threshold %016llx", (unsigned long long)bits_of(r), (unsigned long long)threshold));
  vf::H128 oh;
  uint64_t evals = 0, inversions = 0, nsampled = 0;
  bool prev = true;
  int bidx = g_boundary_of_ratio[ri];
  for (size_t pi = 0; pi < g_prefix.size(); ++pi) {
    uint64_t p = g_prefix[pi];
    bool d0 = sampled(s, p, kLows[0]);
    ++evals;
    oh.add(d0);
    nsampled += d0;
    if (d0 && !prev) ++inversions;
    prev = d0;
    if (r <= 0 && d0) c.fail("C12:ratio:nonpositive-ratio-sampled", "ratio " + rname(r) + " sampled trace id " + idname(p, 0));
    if (r >= 1 && !d0) c.fail("C12:ratio:ratio-ge-1-dropped", "ratio " + rname(r) + " dropped trace id " + idname(p, 0));
    for (int l = 1; l < 3; ++l) {
      bool d = sampled(s, p, kLows[l]);
      ++evals;
      if (d != d0) c.fail("C12:ratio:depends-on-low-bytes", "ratio " + rname(r) + vf::sfmt(": %d for ", (int)d0) + idname(p, kLows[0]) + vf::sfmt(" but %d for ", (int)d) + idname(p, kLows[l]));
    }
    // repeated call, second instance with the same ratio (another participant of the trace)
    bool d1 = sampled(s, p, kLows[0]), d2 = sampled(s2, p, kLows[0]);
    evals += 2;
    if (d1 != d0) c.fail("C12:ratio:repeated-call-differs", "ratio " + rname(r) + " id " + idname(p, 0) + vf::sfmt(": first %d then %d", (int)d0, (int)d1));
    if (d2 != d0) c.fail("C12:ratio:instances-disagree", "two samplers with ratio " + rname(r) + " disagree on id " + idname(p, 0) + vf::sfmt(": %d vs %d", (int)d0, (int)d2));
    // other arguments: one variant per id in rotation, all variants on and next to this ratio's boundary
    bool near = bidx >= 0 && (pi + 1 >= (size_t)bidx && pi <= (size_t)bidx + 1);
    int v0 = near ? 0 : (int)((pi * 7 + (size_t)ri) % (size_t)NV), v1 = near ? NV : v0 + 1;
    for (int v = v0; v < v1; ++v) {
      tr::TraceId id = make_id(p, kLows[v % 3]);
      sdk::SamplingResult res = V.call(s, id, v);
      ++evals;
      bool d = res.decision == Decision::RECORD_AND_SAMPLE;
      if (d != d0) {
        std::string what;
        V.call(s, id, v, &what);
        c.fail("C12:ratio:depends-on-other-arguments", "ratio " + rname(r) + " id " + idname(p, kLows[v % 3]) + vf::sfmt(": %d with an invalid parent and no attributes, %d with ", (int)d0, (int)d) + what);
      }
    }
  }
  c.step(evals);
  c.counted("ratio_id_order_inversions", inversions);  // the bisection assumes none (not part of the statement)
  if (bidx >= 0) {
    // the located boundary is a boundary: sampled at it, not sampled right after it
    bool at = sampled(s, g_prefix[bidx]), after = sampled(s, g_prefix[bidx] + 1);
    if (!(at && !after)) c.counted("boundary_not_sharp");
  }
  c.outcome(vf::sfmt("single %016llx%016llx", (unsigned long long)oh.a, (unsigned long long)oh.b));
  c.sample(vf::sfmt("ratio %s: threshold 0x%016llx, %llu of %zu id prefixes sampled", rname(r).c_str(), (unsigned long long)threshold, (unsigned long long)nsampled, g_prefix.size()));
}

// ---------------------------------------------------------------------------------------------
// part 1: all pairs r1 < r2, all id prefixes
// ---------------------------------------------------------------------------------------------
void run_pairs(vf::Ctx &c) {
  int i = c.pick("r1", (int)g_ratios.size());
  int rest = (int)g_ratios.size() - i - 1;
  if (rest <= 0) { c.outcome("last"); return; }
  int j = i + 1 + c.pick("r2", rest);
  double r1 = g_ratios[i], r2 = g_ratios[j];
  c.stage("ratio.pair");
  c.counted("ratio_pairs");
  sdk::TraceIdRatioBasedSampler s1(r1), s2(r2);
  vf::H128 oh;
  uint64_t only2 = 0;
  for (size_t pi = 0; pi < g_prefix.size(); ++pi) {
    uint64_t p = g_prefix[pi], low = kLows[pi % 3];
    bool d1 = sampled(s1, p, low), d2 = sampled(s2, p, low);
    if (d1 && !d2)
      c.fail("C12:ratio:not-monotone-in-ratio", "trace id " + idname(p, low) + " is sampled at ratio " + rname(r1) + " but not at the larger ratio " + rname(r2) +
                                                    vf::sfmt(" (thresholds 0x%016llx, 0x%016llx)", (unsigned long long)s1.threshold_, (unsigned long long)s2.threshold_));
    only2 += (!d1 && d2);
    oh.add((uint64_t)d1 * 2 + d2);
  }
  c.step(2 * g_prefix.size());
  c.state(vf::sfmt("pair %016llx %016llx", (unsigned long long)s1.threshold_, (unsigned long long)s2.threshold_));
  c.outcome(vf::sfmt("pair %016llx%016llx", (unsigned long long)oh.a, (unsigned long long)oh.b));
  if (only2 > 0 && only2 < 4) c.sample("ratios " + rname(r1) + " < " + rname(r2) + vf::sfmt(": %llu id prefixes sampled only at the larger one, none only at the smaller", (unsigned long long)only2));
}

// ---------------------------------------------------------------------------------------------
// parents
// ---------------------------------------------------------------------------------------------
const uint8_t kFlags[5] = {0x00, 0x01, 0x02, 0x03, 0xff};
constexpr int kParentShapes = 4;  // valid, zero trace id, zero span id, both zero
constexpr int kParents = kParentShapes * 5 * 2 * 2;

struct Parent {
  int shape, flags_i, remote, ts;
  tr::SpanContext ctx;
  nostd::shared_ptr<tr::TraceState> state;
  std::string name;
};
Parent make_parent(int code, uint64_t prefix) {
  Parent p{code % kParentShapes, (code / kParentShapes) % 5, (code / (kParentShapes * 5)) % 2, (code / (kParentShapes * 10)) % 2, tr::SpanContext::GetInvalid(), {}, ""};
  uint8_t z16[16] = {0}, z8[8] = {0}, s8[8] = {9, 8, 7, 6, 5, 4, 3, 2};
  tr::TraceId t = (p.shape == 1 || p.shape == 3) ? tr::TraceId(z16) : make_id(prefix ? prefix : 1, 5);
  tr::SpanId s = (p.shape == 2 || p.shape == 3) ? tr::SpanId(z8) : tr::SpanId(s8);
  p.state = p.ts ? tr::TraceState::FromHeader("vendor=parent,k=v") : tr::TraceState::GetDefault();
  p.ctx = tr::SpanContext(t, s, tr::TraceFlags(kFlags[p.flags_i]), p.remote != 0, p.state);
  const char *shapes[] = {"valid", "zero-trace-id", "zero-span-id", "all-zero"};
  p.name = vf::sfmt("parent{%s flags=%02x %s tracestate='%s'}", shapes[p.shape], kFlags[p.flags_i], p.remote ? "remote" : "local", p.state->ToHeader().c_str());
  return p;
}

// harness sampler: records how it was consulted, answers with a configured result
struct Recording : sdk::Sampler {
  Decision decision;
  nostd::shared_ptr<tr::TraceState> state;
  bool with_attrs;
  std::shared_ptr<sdk::Sampler> inner;  // if set, forwards to a real sampler instead
  int calls = 0;
  const tr::SpanContext *parent = nullptr;
  tr::TraceId id;
  std::string name;
  tr::SpanKind kind = tr::SpanKind::kInternal;
  const common::KeyValueIterable *attrs = nullptr;
  const tr::SpanContextKeyValueIterable *links = nullptr;
  Recording(Decision d, nostd::shared_ptr<tr::TraceState> st, bool a, std::shared_ptr<sdk::Sampler> in = nullptr) : decision(d), state(st), with_attrs(a), inner(std::move(in)) {}
  sdk::SamplingResult ShouldSample(const tr::SpanContext &parent_context, tr::TraceId trace_id, nostd::string_view n, tr::SpanKind k, const common::KeyValueIterable &a,
                                   const tr::SpanContextKeyValueIterable &l) noexcept override {
    ++calls; parent = &parent_context; id = trace_id; name = std::string(n.data(), n.size()); kind = k; attrs = &a; links = &l;
    if (inner) return inner->ShouldSample(parent_context, trace_id, n, k, a, l);
    std::unique_ptr<const std::map<std::string, common::AttributeValue>> am;
    if (with_attrs) am.reset(new std::map<std::string, common::AttributeValue>{{"sampler.tag", (int64_t)7}});
    return {decision, std::move(am), state};
  }
  nostd::string_view GetDescription() const noexcept override { return "Recording"; }
};

const char *dname(Decision d) { return d == Decision::DROP ? "DROP" : d == Decision::RECORD_ONLY ? "RECORD_ONLY" : "RECORD_AND_SAMPLE"; }

constexpr int kDelegates = 9;
std::shared_ptr<Recording> make_delegate(int i, std::string *name) {
  auto st = tr::TraceState::FromHeader("from=delegate");
  switch (i) {
    case 0: *name = "Recording(AlwaysOn)"; return std::make_shared<Recording>(Decision::DROP, st, false, std::make_shared<sdk::AlwaysOnSampler>());
    case 1: *name = "Recording(AlwaysOff)"; return std::make_shared<Recording>(Decision::DROP, st, false, std::make_shared<sdk::AlwaysOffSampler>());
    case 2: *name = "Recording(Ratio 0.5)"; return std::make_shared<Recording>(Decision::DROP, st, false, std::make_shared<sdk::TraceIdRatioBasedSampler>(0.5));
    case 3: *name = "Recording(Ratio 0)"; return std::make_shared<Recording>(Decision::DROP, st, false, std::make_shared<sdk::TraceIdRatioBasedSampler>(0.0));
    case 4: *name = "Recording(fixed DROP, own trace state)"; return std::make_shared<Recording>(Decision::DROP, st, false);
    case 5: *name = "Recording(fixed RECORD_ONLY, attributes, own trace state)"; return std::make_shared<Recording>(Decision::RECORD_ONLY, st, true);
    case 6: *name = "Recording(fixed RECORD_AND_SAMPLE, attributes, null trace state)"; return std::make_shared<Recording>(Decision::RECORD_AND_SAMPLE, nostd::shared_ptr<tr::TraceState>(), true);
    case 7: *name = "Recording(ParentBased(AlwaysOff))"; return std::make_shared<Recording>(Decision::DROP, st, false, std::make_shared<sdk::ParentBasedSampler>(std::make_shared<sdk::AlwaysOffSampler>()));
    default: *name = "Recording(Ratio 1)"; return std::make_shared<Recording>(Decision::DROP, st, false, std::make_shared<sdk::TraceIdRatioBasedSampler>(1.0));
  }
}

std::vector<uint64_t> parent_ids() {
  // both sides of the 0.5 boundary, the extremes, and a few others
  static std::vector<uint64_t> v;
  if (v.empty()) {
    v = {0, 1, 0x7fffffffffffffffull, 0x8000000000000000ull, 0xffffffffffffffffull, 0x0123456789abcdefull};
    for (size_t i = 0; i < g_ratios.size(); ++i)
      if (g_ratios[i] == 0.5 && g_boundary_of_ratio[i] >= 0) { uint64_t b = g_prefix[g_boundary_of_ratio[i]]; v.push_back(b); v.push_back(b + 1); v.push_back(b + 4096); v.push_back(b - 4096); }
  }
  return v;
}

std::string state_header(const nostd::shared_ptr<tr::TraceState> &s) { return s ? "'" + s->ToHeader() + "'" : std::string("(null)"); }

// ---------------------------------------------------------------------------------------------
// part 2: ParentBased
// ---------------------------------------------------------------------------------------------
void run_parent(vf::Ctx &c) {
  int pcode = c.pick("parent", kParents);
  int di = c.pick("delegate", kDelegates);
  c.stage("parentbased");
  c.counted("parentbased_configurations");
  const Variants &V = variants();
  std::string delegate_name;
  std::shared_ptr<Recording> rec = make_delegate(di, &delegate_name);
  sdk::ParentBasedSampler pb(rec);
  // a second, unwrapped copy of the delegate to compute what the delegate itself answers
  std::string dummy;
  std::shared_ptr<Recording> direct = make_delegate(di, &dummy);
  vf::H128 oh;
  uint64_t evals = 0;
  for (uint64_t prefix : parent_ids()) {
    Parent p = make_parent(pcode, prefix);
    bool valid = p.shape == 0;
    // the trace id of the new span: the parent's when there is one, otherwise a fresh one
    tr::TraceId id = valid ? p.ctx.trace_id() : make_id(prefix, 0x1111);
    for (size_t ni = 0; ni < V.names.size(); ++ni)
      for (size_t ki = 0; ki < V.kinds.size(); ++ki)
        for (int ai = 0; ai < 2; ++ai) {
          const common::KeyValueIterable &attrs = ai ? static_cast<const common::KeyValueIterable &>(*V.attrs) : kNoAttrs;
          const tr::SpanContextKeyValueIterable &links = (ai ^ (int)(ki & 1)) ? static_cast<const tr::SpanContextKeyValueIterable &>(*V.links) : kNoLinks;
          int before = rec->calls;
          sdk::SamplingResult res = pb.ShouldSample(p.ctx, id, V.names[ni], V.kinds[ki], attrs, links);
          ++evals;
          int consulted = rec->calls - before;
          auto where = [&]() { return "ParentBased{" + delegate_name + "} with " + p.name + " id " + idname(prefix, 0) + vf::sfmt(" name#%zu kind#%zu", ni, ki); };
          if (valid) {
            // "exactly the parent's sampled decision": sampled iff the parent is (RECORD_ONLY for an
            // unsampled parent would still agree with the statement)
            bool want_sampled = (kFlags[p.flags_i] & 1) != 0;
            if ((res.decision == Decision::RECORD_AND_SAMPLE) != want_sampled)
              c.fail("C12:parent:decision-differs-from-parent", where() + ": decision " + dname(res.decision) + vf::sfmt(", the parent's sampled flag is %d", (int)want_sampled));
            if (!(res.trace_state == p.state) && state_header(res.trace_state) != state_header(p.state))
              c.fail("C12:parent:trace-state-differs-from-parent", where() + ": trace state " + state_header(res.trace_state) + ", the parent's is " + state_header(p.state));
            if (consulted != 0) c.fail("C12:parent:delegate-consulted-with-valid-parent", where() + vf::sfmt(": the delegate was consulted %d times", consulted));
          } else {
            if (consulted < 1) c.fail("C12:parent:delegate-not-consulted", where() + ": the delegate was not consulted for a span without a valid parent");
            if (consulted > 1) c.counted("delegate_consulted_more_than_once");
            bool same_args = rec->parent && *rec->parent == p.ctx && rec->parent->IsRemote() == p.ctx.IsRemote() && rec->parent->trace_state() == p.ctx.trace_state() && rec->id == id &&
                             rec->name == V.names[ni] && rec->kind == V.kinds[ki] && rec->attrs == &attrs && rec->links == &links;
            if (!same_args) c.fail("C12:parent:delegate-arguments-changed", where() + ": the delegate saw different arguments than the caller passed");
            sdk::SamplingResult want = direct->ShouldSample(p.ctx, id, V.names[ni], V.kinds[ki], attrs, links);
            if (res.decision != want.decision) c.fail("C12:parent:root-decision-differs-from-delegate", where() + ": decision " + dname(res.decision) + ", the delegate answers " + dname(want.decision));
            if (state_header(res.trace_state) != state_header(want.trace_state))
              c.fail("C12:parent:root-trace-state-differs-from-delegate", where() + ": trace state " + state_header(res.trace_state) + ", the delegate answers " + state_header(want.trace_state));
            if ((res.attributes != nullptr) != (want.attributes != nullptr) || (res.attributes && res.attributes->size() != want.attributes->size()))
              c.fail("C12:parent:root-attributes-differ-from-delegate", where() + ": the delegate's attributes were not passed on");
          }
          oh.add((uint64_t)res.decision);
          oh.add_str(state_header(res.trace_state));
        }
  }
  c.step(evals);
  Parent p0 = make_parent(pcode, 1);
  c.state("parent|" + p0.name + "|" + delegate_name);
  c.outcome(vf::sfmt("parent %016llx%016llx", (unsigned long long)oh.a, (unsigned long long)oh.b));
  if (di == 5) c.sample("ParentBased{" + delegate_name + "} " + p0.name + vf::sfmt(": %llu evaluations agree with the %s", (unsigned long long)evals, p0.shape == 0 ? "parent" : "delegate"));
}

// ---------------------------------------------------------------------------------------------
// part 3: AlwaysOn / AlwaysOff
// ---------------------------------------------------------------------------------------------
void run_const(vf::Ctx &c) {
  int pcode = c.pick("parent", kParents);
  c.stage("always");
  const Variants &V = variants();
  sdk::AlwaysOnSampler on;
  sdk::AlwaysOffSampler off;
  uint64_t evals = 0;
  std::string pname;
  for (size_t pi = 0; pi < g_prefix.size(); ++pi) {
    uint64_t prefix = g_prefix[pi];
    Parent p = make_parent(pcode, prefix);
    if (pi == 0) pname = p.name;
    tr::TraceId id = p.shape == 0 ? p.ctx.trace_id() : make_id(prefix, kLows[pi % 3]);
    size_t ni = pi % V.names.size(), ki = pi % V.kinds.size();
    const common::KeyValueIterable &attrs = (pi & 1) ? static_cast<const common::KeyValueIterable &>(*V.attrs) : kNoAttrs;
    const tr::SpanContextKeyValueIterable &links = (pi & 2) ? static_cast<const tr::SpanContextKeyValueIterable &>(*V.links) : kNoLinks;
    Decision d_on = on.ShouldSample(p.ctx, id, V.names[ni], V.kinds[ki], attrs, links).decision;
    Decision d_off = off.ShouldSample(p.ctx, id, V.names[ni], V.kinds[ki], attrs, links).decision;
    evals += 2;
    if (d_on != Decision::RECORD_AND_SAMPLE) c.fail("C12:always-on:not-constant", "AlwaysOn answered " + std::string(dname(d_on)) + " for " + p.name + " id " + idname(prefix, 0));
    if (d_off != Decision::DROP) c.fail("C12:always-off:not-constant", "AlwaysOff answered " + std::string(dname(d_off)) + " for " + p.name + " id " + idname(prefix, 0));
  }
  c.step(evals);
  c.state("const|" + pname);
  c.outcome("const|" + pname);
}

// ---------------------------------------------------------------------------------------------
// part 4: through a Tracer
// ---------------------------------------------------------------------------------------------
struct FixedIds : sdk::IdGenerator {
  tr::TraceId next_trace;
  uint64_t span_counter = 0x1000;
  FixedIds() : sdk::IdGenerator(false) {}
  tr::SpanId GenerateSpanId() noexcept override { uint64_t v = ++span_counter; uint8_t b[8]; memcpy(b, &v, 8); return tr::SpanId(b); }
  tr::TraceId GenerateTraceId() noexcept override { return next_trace; }
};
struct NullExporter : sdk::SpanExporter {
  std::unique_ptr<sdk::Recordable> MakeRecordable() noexcept override { return std::unique_ptr<sdk::Recordable>(new sdk::SpanData()); }
  opentelemetry::sdk::common::ExportResult Export(const nostd::span<std::unique_ptr<sdk::Recordable>> &) noexcept override { return opentelemetry::sdk::common::ExportResult::kSuccess; }
  bool ForceFlush(std::chrono::microseconds) noexcept override { return true; }
  bool Shutdown(std::chrono::microseconds) noexcept override { return true; }
};

// a delegate with a fixed answer (the built-in samplers never answer RECORD_ONLY: recorded, but not sampled)
struct FixedDecision : sdk::Sampler {
  Decision d;
  explicit FixedDecision(Decision dd) : d(dd) {}
  sdk::SamplingResult ShouldSample(const tr::SpanContext &, tr::TraceId, nostd::string_view, tr::SpanKind, const opentelemetry::common::KeyValueIterable &,
                                   const tr::SpanContextKeyValueIterable &) noexcept override { return {d, nullptr, {}}; }
  nostd::string_view GetDescription() const noexcept override { return "FixedDecision"; }
};
constexpr int kTracerSamplers = 9;
std::unique_ptr<sdk::Sampler> tracer_sampler(int i, double ratio, std::string *name) {
  switch (i) {
    case 0: *name = "AlwaysOff"; return std::unique_ptr<sdk::Sampler>(new sdk::AlwaysOffSampler());
    case 1: *name = "AlwaysOn"; return std::unique_ptr<sdk::Sampler>(new sdk::AlwaysOnSampler());
    case 2: *name = "ParentBased{AlwaysOff}"; return std::unique_ptr<sdk::Sampler>(new sdk::ParentBasedSampler(std::make_shared<sdk::AlwaysOffSampler>()));
    case 3: *name = "ParentBased{AlwaysOn}"; return std::unique_ptr<sdk::Sampler>(new sdk::ParentBasedSampler(std::make_shared<sdk::AlwaysOnSampler>()));
    case 4: *name = "Ratio(0.5)"; return std::unique_ptr<sdk::Sampler>(new sdk::TraceIdRatioBasedSampler(0.5));
    case 5: *name = "Ratio(" + rname(ratio) + ")"; return std::unique_ptr<sdk::Sampler>(new sdk::TraceIdRatioBasedSampler(ratio));
    case 7: *name = "Fixed(RECORD_ONLY)"; return std::unique_ptr<sdk::Sampler>(new FixedDecision(Decision::RECORD_ONLY));
    case 8: *name = "ParentBased{Fixed(RECORD_ONLY)}"; return std::unique_ptr<sdk::Sampler>(new sdk::ParentBasedSampler(std::make_shared<FixedDecision>(Decision::RECORD_ONLY)));
    default: *name = "ParentBased{Ratio(" + rname(ratio) + ")}"; return std::unique_ptr<sdk::Sampler>(new sdk::ParentBasedSampler(std::make_shared<sdk::TraceIdRatioBasedSampler>(ratio)));
  }
}

void run_tracer(vf::Ctx &c) {
  // ratios with an interior boundary only (the others behave like AlwaysOn / AlwaysOff)
  static std::vector<int> interior;
  if (interior.empty())
    for (size_t i = 0; i < g_ratios.size(); ++i) if (g_boundary_of_ratio[i] >= 0) interior.push_back((int)i);
  int si = c.pick("sampler", kTracerSamplers);
  // (no interior boundary at all can only happen on a broken sampler: fall back to the fixed ids)
  int ri = ((si == 5 || si == 6) && !interior.empty()) ? interior[c.pick("ratio", (int)interior.size())] : -1;
  int pcode = c.pick("parent", kParents);
  double ratio = ri >= 0 ? g_ratios[ri] : 0.5;
  c.stage("tracer.setup");
  c.counted("tracer_configurations");
  std::string sname;
  std::unique_ptr<sdk::Sampler> sampler = tracer_sampler(si, ratio, &sname);
  std::unique_ptr<sdk::Sampler> reference = tracer_sampler(si, ratio, &sname);  // same configuration, asked directly
  FixedIds *gen = new FixedIds();
  std::unique_ptr<sdk::SpanProcessor> proc(new sdk::SimpleSpanProcessor(std::unique_ptr<sdk::SpanExporter>(new NullExporter())));
  auto provider = std::make_shared<sdk::TracerProvider>(std::move(proc), opentelemetry::sdk::resource::Resource::Create({}), std::move(sampler), std::unique_ptr<sdk::IdGenerator>(gen));
  auto tracer = provider->GetTracer("c12");
  // ids: this ratio's boundary and neighbours, or the 0.5 boundary and extremes
  std::vector<uint64_t> ids;
  if (ri >= 0) { uint64_t b = g_prefix[g_boundary_of_ratio[ri]]; ids = {b, b + 1, b - 1, b + 4096, b - 4096, 1, 0xffffffffffffffffull}; }
  else ids = parent_ids();
  uint64_t evals = 0;
  vf::H128 oh;
  std::string pname;
  for (uint64_t prefix : ids) {
    Parent p = make_parent(pcode, prefix);
    pname = p.name;
    bool valid = p.shape == 0;
    tr::TraceId fresh = make_id(prefix ? prefix : 1, 0x2222);
    gen->next_trace = fresh;
    tr::StartSpanOptions opts;
    opts.parent = p.ctx;
    c.stage("tracer.StartSpan");
    auto span = tracer->StartSpan("op", opts);
    tr::SpanContext sc = span->GetContext();
    span->End();
    ++evals;
    tr::TraceId want_id = valid ? p.ctx.trace_id() : fresh;
    // with an explicit invalid parent and no active span the tracer starts a root span
    tr::SpanContext seen_parent = valid ? p.ctx : tr::SpanContext::GetInvalid();
    sdk::SamplingResult want = reference->ShouldSample(seen_parent, want_id, "op", tr::SpanKind::kInternal, kNoAttrs, kNoLinks);
    auto where = [&]() {
      char h[32];
      want_id.ToLowerBase16(h);
      return "Tracer with sampler " + sname + ", StartSpan with " + p.name + (valid ? " (trace id " : " (root span, generated trace id ") + std::string(h, 32) + ")";
    };
    if (!(sc.trace_id() == want_id)) c.fail("C12:tracer:trace-id", where() + ": the span is not in the expected trace");
    if (sc.IsSampled() != want.IsSampled())
      c.report(valid && !want.IsSampled() ? "C12:tracer:sampled-flag-set-although-dropped" : "C12:tracer:sampled-flag-differs-from-decision",
               where() + vf::sfmt(": the new span context has sampled=%d (flags %02x) but the sampler's decision for it is %s", (int)sc.IsSampled(), sc.trace_flags().flags(), dname(want.decision)));
    oh.add((uint64_t)sc.IsSampled());
    // second generation: "all participants in a trace agree" - a child started from the new span's own context gets the
    // decision the same sampler configuration gives for that context
    {
      tr::StartSpanOptions copts;
      copts.parent = sc;
      gen->next_trace = make_id(prefix ? prefix : 1, 0x3333);
      auto child = tracer->StartSpan("child", copts);
      tr::SpanContext cc = child->GetContext();
      child->End();
      ++evals;
      sdk::SamplingResult cwant = reference->ShouldSample(sc, sc.trace_id(), "child", tr::SpanKind::kInternal, kNoAttrs, kNoLinks);
      if (!(cc.trace_id() == sc.trace_id())) c.fail("C12:tracer:trace-id", where() + ": a child of the new span is not in its trace");
      if (cc.IsSampled() != cwant.IsSampled())
        c.report("C12:tracer:child-sampled-flag-differs-from-decision",
                 where() + vf::sfmt(": a child started from the new span's context (flags %02x) has sampled=%d but the sampler's decision for it is %s", sc.trace_flags().flags(),
                                    (int)cc.IsSampled(), dname(cwant.decision)));
      oh.add((uint64_t)cc.IsSampled());
    }
  }
  c.step(evals);
  c.state("tracer|" + sname + "|" + pname);
  c.outcome(vf::sfmt("tracer %016llx%016llx", (unsigned long long)oh.a, (unsigned long long)oh.b));
}

void run(vf::Ctx &c) {
  switch (c.pick("part", 5)) {
    case 0: run_single(c); break;
    case 1: run_pairs(c); break;
    case 2: run_parent(c); break;
    case 3: run_const(c); break;
    default: run_tracer(c); break;
  }
}

}  // namespace

VF_MAIN("c12_sampling", "C12", setup, run)
