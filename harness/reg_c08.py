_C08_SDK = ["common", "version", "resource", "metrics"]
H("c08_attrs", "C08", "seq", ["harness/c08_attrs.cc"], sdk=_C08_SDK, cxxflags=["-fno-access-control"],
  args={"quick": ["--n1=3", "--n2=2"], "thorough": ["--n1=3", "--n2=3"]},
  what="real FilteredOrderedAttributeMap / hash / FilteringAttributesProcessor / AttributesHashMap / SyncMetricStorage (and MeterProvider + View, delta and cumulative reader): every pair of "
       "single-key lists over 47 typed values (every AttributeValue alternative), every pair of lists of <= n1 / <= n2 entries over keys {a,b,c} x 3 values "
       "(all orders, duplicates), keys with embedded NUL / common prefixes, every allow-list, 3 key storage shapes; all pairs of 13 ways to build the EMPTY set "
       "(default-constructed, empty iterable / initializer list, filtered to empty) and <= 3 records mixing the attribute-less overloads (Add(v), Record(v,ctx), "
       "RecordLong/RecordDouble(value,ctx)) with empty / filtered-to-empty / kept attribute sets over two cycles with delta and cumulative collectors; against a std::map reference "
       "(equal-as-maps <=> same series, equal => equal hash, filter removes exactly the disallowed keys, owned copies)",
  design_ref="5/C08")
H("c08_cardinality", "C08", "seq", ["harness/c08_cardinality.cc"], sdk=_C08_SDK, cxxflags=["-fno-access-control"],
  args={"quick": ["--depth=8", "--edepth=7", "--tdepth=4"], "thorough": ["--depth=9", "--edepth=8", "--tdepth=5"]},
  what="real SyncMetricStorage with cardinality limit 1..4: every history of depth `depth` over Record(one of limit+2 attribute sets, unique bit per record) and "
       "Collect(collector) for {delta}, {cumulative}, {delta,cumulative} collectors, every history of depth `edepth` that may also Record WITHOUT attributes (the empty set through "
       "the attribute-less overload), with the delta collector also under a filtering view whose records carry a unique dropped attribute; MeterProvider configurations at the default "
       "limit 2000 (1999/2001 sets, 2x1100, 2x2001, 3x1100, two readers with two pending interval tables); AttributesHashMap(1..3) directly: every sequence of depth `tdepth` over "
       "(attribute set, one of the 3 GetOrSetDefault + 3 Set overloads), only the addressed entry may change. After every collection: series <= limit, only recorded sets or "
       "the overflow set, no foreign measurements in a regular series and, within one interval table, all measurements of its set; total over series == everything recorded in scope",
  design_ref="5/C08")
