// Minimal concrete recordables for harnesses that only need identity (a tag) and instance counting.
#pragma once
#include <opentelemetry/sdk/logs/recordable.h>
#include <opentelemetry/sdk/trace/recordable.h>

namespace vfstub {
namespace ot = opentelemetry;

struct SpanRec : ot::sdk::trace::Recordable {
  void SetIdentity(const ot::trace::SpanContext &, ot::trace::SpanId) noexcept override {}
  void SetAttribute(ot::nostd::string_view, const ot::common::AttributeValue &) noexcept override {}
  void AddEvent(ot::nostd::string_view, ot::common::SystemTimestamp, const ot::common::KeyValueIterable &) noexcept override {}
  void AddLink(const ot::trace::SpanContext &, const ot::common::KeyValueIterable &) noexcept override {}
  void SetStatus(ot::trace::StatusCode, ot::nostd::string_view) noexcept override {}
  void SetName(ot::nostd::string_view) noexcept override {}
  void SetSpanKind(ot::trace::SpanKind) noexcept override {}
  void SetResource(const ot::sdk::resource::Resource &) noexcept override {}
  void SetStartTime(ot::common::SystemTimestamp) noexcept override {}
  void SetDuration(std::chrono::nanoseconds) noexcept override {}
  void SetInstrumentationScope(const ot::sdk::instrumentationscope::InstrumentationScope &) noexcept override {}
};

struct LogRec : ot::sdk::logs::Recordable {
  void SetTimestamp(ot::common::SystemTimestamp) noexcept override {}
  void SetObservedTimestamp(ot::common::SystemTimestamp) noexcept override {}
  void SetSeverity(ot::logs::Severity) noexcept override {}
  void SetBody(const ot::common::AttributeValue &) noexcept override {}
  void SetAttribute(ot::nostd::string_view, const ot::common::AttributeValue &) noexcept override {}
  void SetEventId(int64_t, ot::nostd::string_view) noexcept override {}
  void SetTraceId(const ot::trace::TraceId &) noexcept override {}
  void SetSpanId(const ot::trace::SpanId &) noexcept override {}
  void SetTraceFlags(const ot::trace::TraceFlags &) noexcept override {}
  void SetResource(const ot::sdk::resource::Resource &) noexcept override {}
  void SetInstrumentationScope(const ot::sdk::instrumentationscope::InstrumentationScope &) noexcept override {}
};
}  // namespace vfstub
