// Engine-A harness for provider-level ForceFlush / Shutdown of metrics (C02 part c): the real
// MeterProvider / MeterContext / MetricCollector with one or two real PeriodicExportingMetricReaders
// exporting to harness PushMetricExporters; concurrent Shutdown callers (the MeterContext latch must
// forward exactly one Shutdown to every reader) and ForceFlush callers.
#include <opentelemetry/sdk/common/global_log_handler.h>
#include <opentelemetry/sdk/metrics/export/periodic_exporting_metric_reader.h>
#include <opentelemetry/sdk/metrics/export/periodic_exporting_metric_reader_options.h>
#include <opentelemetry/sdk/metrics/meter_provider.h>
#include <opentelemetry/sdk/metrics/push_metric_exporter.h>
#include <opentelemetry/sdk/metrics/view/view_registry.h>
#include <opentelemetry/sdk/resource/resource.h>

#include "vf_core.h"

namespace sdkm = opentelemetry::sdk::metrics;
namespace sdkc = opentelemetry::sdk::common;
using namespace std::chrono;

namespace {
constexpr int64_t MS = 1000000;
enum Ev : int { CALL_FF, RET_FF, CALL_SD, RET_SD, EXP_ENTER, EXP_EXIT, XFF_ENTER, XFF_EXIT, XSD_ENTER, XSD_EXIT, ADDED };
const char *const kEvName[] = {"call-flush", "ret-flush", "call-shutdown", "ret-shutdown", "export-enter", "export-exit", "exp-flush-enter", "exp-flush-exit", "exp-shutdown-enter",
                               "exp-shutdown-exit", "added"};
struct Event { int kind, thread, a, b; int64_t vt; };
struct Cfg { int readers, F, S, destroy, xlat /* bit r: Export of reader r takes 300 ms */, fft /* 0: 60 s, 1: 100 ms */,
             xfail /* bit r: the exporter of reader r reports failure from Export, ForceFlush and Shutdown */,
             xfflat /* bit r: ForceFlush of reader r's exporter takes 300 ms (and succeeds) */; };  // fft 2: a zero timeout
std::vector<Cfg> g_cfgs;

struct Shared {
  std::vector<Event> ev;
  int xsd_calls[2] = {0, 0};
  std::atomic<int> tick{0};
  const Cfg *cfg = nullptr;
  int log(int kind, int a = 0, int b = 0) {
    ev.push_back({kind, vfs::self(), a, b, vfs::virt_ns()});
    vfs::note(kEvName[kind], (uint64_t)a, (uint64_t)b);
    return (int)ev.size() - 1;
  }
} *g;

[[noreturn]] void fail(const std::string &sig, const std::string &msg) {
  const Cfg &c = *g->cfg;
  std::string s = msg + vf::sfmt("\n  config: readers=%d F=%d S=%d destroy=%d xlat=%d fft=%d\n  events:\n", c.readers, c.F, c.S, c.destroy, c.xlat, c.fft);
  for (size_t i = 0; i < g->ev.size(); ++i)
    s += vf::sfmt("    [%zu] T%d %s %d %d @%lldms\n", i, g->ev[i].thread, kEvName[g->ev[i].kind], g->ev[i].a, g->ev[i].b, (long long)(g->ev[i].vt / MS));
  vfs::fail(sig, s);
}

class Exporter final : public sdkm::PushMetricExporter {
  int id_;

 public:
  explicit Exporter(int id) : id_(id) {}
  sdkc::ExportResult Export(const sdkm::ResourceMetrics &data) noexcept override {
    // value of the counter as seen by this export (cumulative): 0 if no data yet
    int64_t v = 0;
    for (auto &sm : data.scope_metric_data_)
      for (auto &md : sm.metric_data_)
        for (auto &p : md.point_data_attr_)
          if (opentelemetry::nostd::holds_alternative<sdkm::SumPointData>(p.point_data)) {
            auto &sp = opentelemetry::nostd::get<sdkm::SumPointData>(p.point_data);
            if (opentelemetry::nostd::holds_alternative<int64_t>(sp.value_)) v += opentelemetry::nostd::get<int64_t>(sp.value_);
          }
    g->log(EXP_ENTER, id_, (int)v);
    if (g->cfg->xlat & (1 << id_)) std::this_thread::sleep_for(milliseconds(300));
    else g->tick.fetch_add(1);
    g->log(EXP_EXIT, id_);
    return (g->cfg->xfail & (1 << id_)) ? sdkc::ExportResult::kFailure : sdkc::ExportResult::kSuccess;
  }
  sdkm::AggregationTemporality GetAggregationTemporality(sdkm::InstrumentType) const noexcept override { return sdkm::AggregationTemporality::kCumulative; }
  bool ForceFlush(microseconds) noexcept override {
    g->log(XFF_ENTER, id_);
    if (g->cfg->xfflat & (1 << id_)) std::this_thread::sleep_for(milliseconds(300));
    g->log(XFF_EXIT, id_);
    return !(g->cfg->xfail & (1 << id_));
  }
  bool Shutdown(microseconds) noexcept override { g->xsd_calls[id_]++; g->log(XSD_ENTER, id_); g->log(XSD_EXIT, id_); return !(g->cfg->xfail & (1 << id_)); }
};

void setup(vf::Options &o) {
  opentelemetry::sdk::common::internal_log::GlobalLogHandler::SetLogLevel(opentelemetry::sdk::common::internal_log::LogLevel::None);
  o.fork_per_exec = true;
  o.split_depth = 2;
  o.horizon = 30000;
  bool th = o.thorough;
  o.cap[vf::PREEMPT] = atoi(o.get("k", th ? "2" : "1").c_str());
  o.cap[vf::TIMER] = atoi(o.get("t", th ? "1" : "0").c_str());
  o.cap[vf::WAKE] = atoi(o.get("w", th ? "1" : "0").c_str());  // spurious wake-ups of condition waits (thorough)
  o.table_bits = th ? 25 : 23;
  o.deadline_s = atof(o.get("budget", th ? "400" : "60").c_str());
  g_cfgs.push_back({1, 0, 2, 0, 0, 0});   // two concurrent Shutdown callers
  g_cfgs.push_back({1, 1, 0, 0, 0, 0});   // flush through the provider, then shutdown
  g_cfgs.push_back({1, 0, 0, 1, 0, 0});   // destruction instead of Shutdown
  g_cfgs.push_back({2, 1, 0, 0, 1, 1});   // two readers, a 100 ms budget, the FIRST reader's exporter is slow: the answer must be false
  g_cfgs.push_back({2, 0, 0, 0, 0, 0, 1});   // the FIRST reader's exporter reports failure: the second reader is shut down all the same
  g_cfgs.push_back({2, 1, 0, 0, 0, 0, 1});   // ... and flushed all the same (the provider's answer is then unconstrained)
  // the budget runs out while an EARLIER reader flushes successfully (its exporter's own ForceFlush is slow but answers true),
  // or is zero from the start: a true answer still means that every reader exported and every exporter was flushed
  g_cfgs.push_back({2, 1, 0, 0, 0, 1, 0, 1});
  g_cfgs.push_back({2, 1, 0, 0, 0, 2, 0, 0});
  if (th) {
    g_cfgs.push_back({1, 1, 1, 0, 0, 0});   // flush racing shutdown
    g_cfgs.push_back({2, 1, 0, 0, 0, 0});   // two readers
    g_cfgs.push_back({2, 0, 2, 0, 0, 0});
    g_cfgs.push_back({1, 2, 0, 0, 1, 0});
    g_cfgs.push_back({2, 1, 0, 0, 2, 1});   // ... the LAST reader's exporter is slow
  }
  std::string only = o.get("cfg");
  if (!only.empty()) { Cfg c = g_cfgs[atoi(only.c_str())]; g_cfgs.assign(1, c); }
}

void run(vf::Ctx &c) {
  const Cfg &cfg = g_cfgs[c.pick("config", (int)g_cfgs.size())];
  Shared sh;
  g = &sh;
  sh.cfg = &cfg;
  c.stage("run");
  vfs::begin(c);
  {
    std::unique_ptr<sdkm::MeterProvider> provider(new sdkm::MeterProvider(std::unique_ptr<sdkm::ViewRegistry>(new sdkm::ViewRegistry()), opentelemetry::sdk::resource::Resource::GetEmpty()));
    sdkm::PeriodicExportingMetricReaderOptions o;
    o.export_interval_millis = milliseconds(1000);
    o.export_timeout_millis = milliseconds(500);
    for (int r = 0; r < cfg.readers; ++r)
      provider->AddMetricReader(std::shared_ptr<sdkm::MetricReader>(new sdkm::PeriodicExportingMetricReader(std::unique_ptr<sdkm::PushMetricExporter>(new Exporter(r)), o)));
    auto meter = provider->GetMeter("m", "1");
    auto counter = meter->CreateUInt64Counter("c");
    // distinct powers of two: a cumulative export identifies exactly the measurements it contains
    counter->Add(1);
    sh.log(ADDED, 1);
    std::vector<std::thread> ts;
    for (int f = 0; f < cfg.F; ++f)
      ts.emplace_back([&, f] {
        counter->Add(2u << f);  // recorded immediately before the call: a collection made earlier does not contain it
        sh.log(ADDED, 2 << f);
        sh.log(CALL_FF, f);
        bool ok = provider->ForceFlush(cfg.fft == 2 ? microseconds(0) : cfg.fft ? microseconds(100 * 1000) : microseconds(60ll * 1000 * 1000));
        sh.log(RET_FF, f, ok);
      });
    for (int s = 0; s < cfg.S; ++s)
      ts.emplace_back([&, s] { sh.log(CALL_SD, s); provider->Shutdown(); sh.log(RET_SD, s); });
    for (auto &t : ts) t.join();
    if (!cfg.destroy && cfg.S == 0) { sh.log(CALL_SD, 9); provider->Shutdown(); sh.log(RET_SD, 9); }
    counter = opentelemetry::nostd::unique_ptr<opentelemetry::metrics::Counter<uint64_t>>();
    meter = opentelemetry::nostd::shared_ptr<opentelemetry::metrics::Meter>();
    if (cfg.destroy) sh.log(CALL_SD, 8);
    provider.reset();
    if (cfg.destroy) sh.log(RET_SD, 8);
  }
  vfs::end();
  c.stage("oracle");
  const std::vector<Event> &ev = sh.ev;
  int last_sd_ret = -1;
  for (size_t i = 0; i < ev.size(); ++i) if (ev[i].kind == RET_SD) last_sd_ret = (int)i;
  for (int r = 0; r < cfg.readers; ++r)
    if (sh.xsd_calls[r] != 1)
      fail(sh.xsd_calls[r] == 0 ? "C02:meter:exporter-never-shut-down" : "C02:meter:exporter-shutdown-twice", vf::sfmt("Shutdown of the exporter of reader %d was invoked %d times", r, sh.xsd_calls[r]));
  for (size_t i = last_sd_ret; i < ev.size(); ++i)
    if (ev[i].kind == EXP_ENTER) fail("C02:meter:export-after-shutdown", vf::sfmt("Export of reader %d entered at [%zu] after every provider Shutdown call had returned ([%d])", ev[i].a, i, last_sd_ret));
  for (size_t i = 0; i < ev.size(); ++i) {
    if (ev[i].kind != RET_FF || !ev[i].b) continue;
    int ci = -1;
    for (int j = (int)i; j >= 0; --j) if (ev[j].kind == CALL_FF && ev[j].a == ev[i].a) { ci = j; break; }
    int need = 0;  // everything recorded before the call began
    for (int j = 0; j < ci; ++j) if (ev[j].kind == ADDED) need |= ev[j].a;
    for (int r = 0; r < cfg.readers; ++r) {
      bool exported = false, xff = false;
      for (int j = ci; j < (int)i; ++j) {
        if (ev[j].kind == EXP_ENTER && ev[j].a == r && (ev[j].b & need) == need) exported = true;  // every measurement recorded before the flush is in the exported (cumulative) data
        if (ev[j].kind == XFF_ENTER && ev[j].a == r) xff = true;
      }
      if (!exported) fail("C02:meter:flush-incomplete", vf::sfmt("provider ForceFlush #%d returned true at [%zu] but reader %d exported nothing containing all measurements recorded before the call (0x%x)", ev[i].a, i, r, need));
      if (!xff) fail("C02:meter:flush-without-exporter-flush", vf::sfmt("provider ForceFlush #%d returned true at [%zu] but ForceFlush of reader %d's exporter was not invoked", ev[i].a, i, r));
    }
  }
  std::string outcome;
  for (auto &e : ev) if (e.kind == EXP_ENTER || e.kind == RET_FF) outcome += vf::sfmt("%s%d.%d,", e.kind == EXP_ENTER ? "x" : "f", e.a, e.b);
  c.outcome(vf::sfmt("%d|", (int)(&cfg - &g_cfgs[0])) + outcome);
  c.sample(vf::sfmt("readers=%d F=%d S=%d destroy=%d: %s (%zu events)", cfg.readers, cfg.F, cfg.S, cfg.destroy, outcome.c_str(), ev.size()));
}
}  // namespace

VF_MAIN("meterctx", "C02", setup, run)
