// c15_common.h - shared pieces of the C15 harnesses: a text-map carrier whose values live in
// exact-size heap blocks and which logs every Get/Set, access to the entries of a real Baggage, and
// an independently written reference decoder for the baggage header (three-valued).
#pragma once
#include <algorithm>
#include <map>
#include <memory>
#include <string>
#include <vector>

#include <opentelemetry/baggage/baggage.h>
#include <opentelemetry/baggage/baggage_context.h>
#include <opentelemetry/baggage/propagation/baggage_propagator.h>
#include <opentelemetry/context/context.h>
#include <opentelemetry/context/propagation/text_map_propagator.h>

#include "seq/vf_seq.h"

namespace c15 {

namespace nostd = opentelemetry::nostd;
namespace ctxns = opentelemetry::context;
using opentelemetry::baggage::Baggage;
using Entry = std::pair<std::string, std::string>;
using List = std::vector<Entry>;

inline List entries(const Baggage &b) {
  List l;
  b.GetAllEntries([&](nostd::string_view k, nostd::string_view v) noexcept {
    l.emplace_back(std::string(k.data(), k.size()), std::string(v.data(), v.size()));
    return true;
  });
  return l;
}

inline std::string show(const List &l, size_t max = 160) {
  std::string s = "[";
  for (size_t i = 0; i < l.size(); ++i) {
    if (s.size() > max) { s += vf::sfmt(" ...(%zu entries)", l.size()); break; }
    s += (i ? " | '" : "'") + vfq::printable(l[i].first, 40) + "'='" + vfq::printable(l[i].second, 40) + "'";
  }
  return s + "]";
}
inline std::string canon(const List &l) {
  std::string s;
  for (auto &e : l) { s += vf::sfmt("%zu:", e.first.size()) + e.first + vf::sfmt("=%zu:", e.second.size()) + e.second + ";"; }
  return s;
}

// Carrier: every stored value is an exact-size heap block without NUL (over-reads are ASan reports);
// the sequence of Get/Set calls is logged so that "which propagator touched what, in which order"
// can be compared.
class Carrier : public ctxns::propagation::TextMapCarrier {
 public:
  mutable std::vector<std::string> log;
  std::map<std::string, std::unique_ptr<vfq::HeapStr>> m;
  std::map<std::string, std::string> plain;  // same content as ordinary strings (for comparisons)

  nostd::string_view Get(nostd::string_view key) const noexcept override {
    std::string k(key.data(), key.size());
    log.push_back("G:" + k);
    auto it = m.find(k);
    if (it == m.end()) return nostd::string_view("", 0);
    return it->second->view();
  }
  void Set(nostd::string_view key, nostd::string_view value) noexcept override {
    std::string k(key.data(), key.size());
    log.push_back("S:" + k);
    put(k, std::string(value.data(), value.size()));
  }
  void put(const std::string &k, const std::string &v) {
    m[k] = std::unique_ptr<vfq::HeapStr>(new vfq::HeapStr(v));
    plain[k] = v;
  }
  void scribble_all() { for (auto &e : m) e.second->scribble('#'); }
  std::string dump() const {
    std::string s;
    for (auto &e : plain) s += e.first + ": '" + vfq::printable(e.second, 100) + "'; ";
    return s;
  }
};

// ---------------------------------------------------------------------------------------------
// Reference decoder (written from the property statement and DESIGN 5/C15, not from baggage.h).
//
// A header is a ','-separated list of members `key "=" value [ ";" metadata ]`; blanks around a
// member and around '=' / before ';' are optional white space. key and value are percent-encoded:
// unreserved bytes (alnum and - _ . ~) stand for themselves, '+' stands for a space, '%XX' for the
// byte XX. Every member gets
//   * a set of permitted readings (decoded key, decoded value + metadata verbatim); empty = the
//     member must not produce an entry (no '=', malformed escape, empty key, a decoded or metadata
//     byte outside 0x20..0x7e, longer than the member limit),
//   * must_keep: the member is written purely in the encoder's output alphabet, is valid and within
//     the limits, so extraction has to keep it (completeness). Members that contain any other raw
//     byte (a blank, '!', '"', a tab ...) are don't-care: they may be kept under one of the
//     permitted readings or dropped.
struct Member {
  std::string text;             // trimmed member
  std::vector<Entry> readings;  // permitted results
  bool must_keep = false;
  bool odd = false;             // contains raw bytes outside the encoder's alphabet (incl. blanks around the member)
  bool odd_kv = false;          // ... in the key or value part proper
  const char *why_drop = "";    // reason when readings is empty
};

inline bool is_ows(unsigned char c) { return c == ' ' || c == '\t'; }
inline bool is_cspace(unsigned char c) { return c == ' ' || (c >= 9 && c <= 13); }
inline bool is_unreserved(unsigned char c) {
  return (c >= 'a' && c <= 'z') || (c >= 'A' && c <= 'Z') || (c >= '0' && c <= '9') || c == '-' || c == '_' || c == '.' || c == '~';
}
inline int hexval(unsigned char c) {
  if (c >= '0' && c <= '9') return c - '0';
  if (c >= 'a' && c <= 'f') return c - 'a' + 10;
  if (c >= 'A' && c <= 'F') return c - 'A' + 10;
  return -1;
}
inline bool printable_ascii(const std::string &s) {
  for (unsigned char c : s) if (c < 0x20 || c > 0x7e) return false;
  return true;
}
template <class P> std::string trim_by(const std::string &s, P pred) {
  size_t a = 0, b = s.size();
  while (a < b && pred((unsigned char)s[a])) ++a;
  while (b > a && pred((unsigned char)s[b - 1])) --b;
  return s.substr(a, b - a);
}
// percent-decoding; `pure` is cleared when a raw byte outside the encoder's alphabet is met (it is
// then taken literally); returns false on a malformed escape.
inline bool pct_decode(const std::string &s, std::string *out, bool *pure) {
  out->clear();
  for (size_t i = 0; i < s.size(); ++i) {
    unsigned char c = (unsigned char)s[i];
    if (c == '%') {
      if (s.size() - i < 3) return false;
      int h = hexval((unsigned char)s[i + 1]), l = hexval((unsigned char)s[i + 2]);
      if (h < 0 || l < 0) return false;
      out->push_back((char)(h * 16 + l));
      i += 2;
    } else if (c == '+') {
      out->push_back(' ');
    } else {
      if (!is_unreserved(c)) *pure = false;
      out->push_back((char)c);
    }
  }
  return true;
}

constexpr size_t kMaxMembers = 180, kMaxMemberBytes = 4096, kMaxHeaderBytes = 8192;

inline Member classify_member(const std::string &raw) {
  Member m;
  m.text = trim_by(raw, is_cspace);
  bool pure = (m.text == raw);  // the encoder never writes blanks around a member
  if (m.text.empty()) return m;
  size_t eq = m.text.find('=');
  if (eq == std::string::npos) { m.why_drop = "no '='"; return m; }
  std::string key_raw = m.text.substr(0, eq), rest = m.text.substr(eq + 1);
  size_t sc = rest.find(';');
  std::string val_raw = sc == std::string::npos ? rest : rest.substr(0, sc);
  std::string meta = sc == std::string::npos ? "" : rest.substr(sc);
  std::string key_t = trim_by(key_raw, is_cspace), val_t = trim_by(val_raw, is_cspace);
  if (key_t != key_raw || val_t != val_raw) pure = false;
  std::string k, v;
  bool pure_kv = (key_t == key_raw && val_t == val_raw);
  if (!pct_decode(key_t, &k, &pure_kv)) { m.why_drop = "malformed escape in key"; return m; }
  if (!pct_decode(val_t, &v, &pure_kv)) { m.why_drop = "malformed escape in value"; return m; }
  pure = pure && pure_kv;
  m.odd = !pure;
  m.odd_kv = !pure_kv;
  if (k.empty()) { m.why_drop = "empty key"; return m; }
  if (!printable_ascii(k)) { m.why_drop = "non-printable byte in decoded key"; return m; }
  if (!printable_ascii(v)) { m.why_drop = "non-printable byte in decoded value"; return m; }
  if (!printable_ascii(meta)) { m.why_drop = "non-printable byte in metadata"; return m; }
  // member limit: both readings of "4096-byte member" (with / without the '=') agree below 4097 and
  // from 4098 on; exactly 4097 bytes is don't-care.
  if (m.text.size() > kMaxMemberBytes + 1) { m.why_drop = "member longer than 4096 bytes"; return m; }
  m.readings.emplace_back(k, v + meta);
  // blanks that follow the metadata in the raw member cannot be told from optional white space
  if (!meta.empty()) {
    std::string rtail = raw.substr(raw.find_first_not_of(" \t\n\v\f\r"));  // raw without leading blanks
    size_t e2 = rtail.find('=');
    size_t s2 = e2 == std::string::npos ? std::string::npos : rtail.find(';', e2);
    if (s2 != std::string::npos) {
      std::string meta_raw = rtail.substr(s2);
      if (meta_raw != meta && printable_ascii(meta_raw)) m.readings.emplace_back(k, v + meta_raw);
    }
  }
  m.must_keep = pure && m.text.size() <= kMaxMemberBytes;
  return m;
}

struct Expectation {
  std::vector<Member> members;  // non-empty members in header order
  bool must_be_empty = false;   // header beyond the size limit
  bool complete = true;         // header within all limits (<= 8192 bytes, <= 180 non-empty members)
  // Completeness is judged for the first keep_prefix members: all of them when the header is within
  // the limits; the first 180 (non-empty) members when there are more than 180 - "honours the
  // 180-member limit" may mean "at most 180 entries are kept" or "at most 180 members are read",
  // and under both readings a valid member among the first 180 members is kept; which members
  // beyond the 180th survive is don't-care. 0 for a header beyond the size limit.
  size_t keep_prefix = 0;
};

inline Expectation expect_for(const std::string &header) {
  Expectation x;
  size_t pos = 0;
  while (pos <= header.size()) {
    size_t e = header.find(',', pos);
    if (e == std::string::npos) e = header.size();
    Member m = classify_member(header.substr(pos, e - pos));
    pos = e + 1;
    if (m.text.empty()) continue;
    x.members.push_back(std::move(m));
  }
  if (header.size() > kMaxHeaderBytes) {
    x.complete = false;
    // an implementation may measure the header with or without surrounding blanks
    if (trim_by(header, is_cspace).size() > kMaxHeaderBytes) x.must_be_empty = true;
  }
  if (x.members.size() > kMaxMembers) x.complete = false;
  if (header.size() <= kMaxHeaderBytes) x.keep_prefix = std::min(x.members.size(), kMaxMembers);
  return x;
}

// Is `got` an order-preserving selection of member readings that contains every must-keep member
// among the first `keep_prefix` members? (keep_prefix = 0: soundness only)
struct KeepPrefix { size_t n; };
inline bool explains(const std::vector<Member> &ms, const List &got, KeepPrefix keep) {
  size_t M = ms.size(), G = got.size();
  // f[i][j]: members i.. can produce got j..   (filled backwards)
  std::vector<std::vector<char>> f(M + 1, std::vector<char>(G + 1, 0));
  f[M][G] = 1;
  for (size_t i = M; i-- > 0;) {
    for (size_t j = G + 1; j-- > 0;) {
      bool ok = false;
      if (!(i < keep.n && ms[i].must_keep)) ok = f[i + 1][j];
      if (!ok && j < G && f[i + 1][j + 1])
        for (auto &r : ms[i].readings) if (r == got[j]) { ok = true; break; }
      f[i][j] = ok;
    }
  }
  return f[0][0];
}

}  // namespace c15
