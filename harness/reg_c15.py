H("c15_baggage_ops", "C15", "seq", ["harness/c15_baggage_ops.cc"], sdk=[], cxxflags=["-fno-access-control"],
  what="real Baggage: every Set/Delete history up to the depth bound over keys/values of the printable classes (alnum, space, '=', ',', '%', '+', ';', unreserved, "
       "empty value, ';metadata') from start states with 0, 2 and 179 entries, and at depth 1 every printable byte 0x20..0x7e as a one-byte key and value plus all "
       "punctuation in one string, against an ordered-list model; after every operation receiver unchanged, GetValue of every key, GetAllEntries with a callback that "
       "stops at call 0 / 1 / never, and extract(inject(b)) through the real BaggagePropagator with a map carrier (beyond 180 entries: the first 180 come back); the "
       "header is also decoded by an independent reference decoder",
  design_ref="5/C15")
H("c15_extract", "C15", "seq", ["harness/c15_extract.cc"], sdk=[],
  what="real BaggagePropagator::Extract on deviation-bounded headers (single / double point mutations over the byte classes the parser distinguishes, every kind of "
       "percent escape at every member position, 179..360 members incl. invalid members inside / at the edge of the first 180, 4095..4098-byte members, 8191..8194-byte "
       "headers) in exact-size heap blocks under ASan against an independent three-valued reference decoder (soundness on every input, completeness on members in the "
       "encoder's alphabet - beyond 180 members for those among the first 180); nothing valid => caller's context",
  design_ref="5/C15")
H("c15_composite", "C15", "seq", ["harness/c15_composite.cc"], sdk=[],
  what="real CompositePropagator over every ordered subset of {W3C, B3 single, B3 multi, Jaeger, Baggage} up to the size bound: Inject compared with the union of the "
       "individual injections, Extract compared with folding the individual Extracts in order over the same carrier and context (3^5 carriers of absent/valid/invalid "
       "headers with conflicting ids), including the order of carrier accesses; Fields() with a callback returning false at every call position against the "
       "concatenation of the parts' fields and the documented return value, each part's fields against the keys its Inject writes",
  design_ref="5/C15")
