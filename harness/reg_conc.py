for _p, _what in (("C04", "two threads on ONE span (SetAttribute/AddEvent/End from both): exported data explained by a call/return-consistent order cut at the first End"),
                  ("C05", "two threads, each with its own active-span stack: children take their own thread's span as parent; ids distinct and non-zero"),
                  ("C10", "two threads running attach/detach programs (5x5 program pairs): each observes only its own runtime-context stack"),
                  ("C13", "two threads with different (nested) active spans emitting log records: each record carries its own thread's ids")):
    H("conc_" + _p.lower(), _p, "sched", ["harness/conc_harness.cc"], sdk=BATCH_SDK,
      args={"quick": ["--oracle=" + _p], "thorough": ["--oracle=" + _p]}, what="Engine A: " + _what, design_ref="5/" + _p)
