"""What each registered check claims (level text, trusted base).  MANIFEST.json is generated from
this file and registry.py by bin/gen_manifest.py."""

CLAIMS = {}
NOT_CLAIMED = {}
# properties whose checks exist but are still being finished / triaged: not claimed until they pass on the tree
HOLD = set()

SCHED_NOTE = ("Bounded exhaustive: all schedules within the stated preemption / timer / spurious-CAS budgets for the stated small configurations "
              "(thread counts, queue sizes); interleaving is sequentially consistent (weaker memory orders are not explored; a free-running ThreadSanitizer "
              "pass over the same bodies looks for unsynchronised accesses as an auxiliary check); trusted base: the shim's model of std::atomic/mutex/"
              "condition_variable/thread, the virtual clock, the harness oracle.")

CLAIMS["C11"] = dict(
    engine="sched",
    technique="stateless model checking of the real code: preemption-bounded exhaustive interleaving exploration with happens-before state caching",
    text="Every interleaving (iterative context bounding, k preemptions plus one spurious weak-CAS failure) of 1..3 producers and one consumer on the real "
         "CircularBuffer/AtomicUniquePtr for capacities 1..3, and of 2..3 threads on the real SpinLockMutex, is executed under a controlled scheduler; the "
         "oracle checks exactly-once consumption, per-producer order, legitimacy of every failed Add, the capacity invariant at every scheduling point, "
         "instance counts, mutual exclusion and termination of lock(). Consumer programs: drain, one at a time, Peek-sized, Clear, and two-at-a-time on a pre-rotated "
         "buffer (Consume(n) with 1 < n < size across the wrap-around seam).",
    note=SCHED_NOTE)

CLAIMS["C01"] = dict(
    engine="sched",
    technique="stateless model checking of the real code: preemption-bounded exhaustive interleaving exploration (iterative context bounding) with happens-before state caching and a virtual clock",
    text="The unmodified BatchSpanProcessor and BatchLogRecordProcessor sources (with the real CircularBuffer) run under a controlled scheduler that owns every "
         "atomic, mutex, condition variable, thread and the clock. For each small configuration (queue/batch sizes, 2-3 producers, slow exporter, gated exporter, "
         "mid-run flushes, shutdown racing producers) every schedule within the preemption budget is executed and checked: no record reaches the exporter twice, "
         "per-producer order, a record is lost only if the queue was provably full (counting argument of DESIGN 5/C01) and never when at most max_queue_size adds were "
         "not covered by the last completed ForceFlush, instance counts return to zero, no deadlock and no virtual time passing between the call and the return of "
         "OnEnd / OnEmit, also at a full queue behind a parked or slow exporter (producers never wait for the exporter). The same predicates are also judged on the "
         "configuration sets written for C02 and C03 (failing exporter, flush + shutdown racers, shutdown timeouts, destruction).",
    note=SCHED_NOTE)
CLAIMS["C02"] = dict(
    engine="sched",
    technique="stateless model checking of the real code: preemption- and timer-deviation-bounded exhaustive interleaving exploration with state caching and a virtual clock",
    text="Same engine; configurations with concurrent ForceFlush callers (timeouts zero / short / long / max), concurrent Shutdown callers, slow and failing exporters, "
         "destruction instead of Shutdown and late calls. Oracle on logical timestamps: a ForceFlush that returned true exported everything added before it was called and "
         "invoked the exporter's ForceFlush in between; after a Shutdown returned everything produced before it was exported, the exporter was shut down exactly once, no "
         "exporter method is entered any more and late calls take no (virtual) time; every execution terminates (deadlock / horizon detection). The exporter's ForceFlush "
         "must be entered after the last Export of the records that preceded the call. Shutdown is also called with zero / 1 ms / 60 s timeouts behind slow exporters. "
         "Provider level: two children with a finite flush budget and the slow exporter behind the first or the last child (the answer must be false); simple processors; "
         "MeterProvider with one or two periodic readers (measurements are distinct powers of two, so an export identifies what it contains). Periodic reader: Shutdown racing "
         "cycles that outlive export_timeout, flush callers with every timeout kind. The predicates are also judged on the configuration sets written for C01 and C03.",
    note=SCHED_NOTE)
CLAIMS["C03"] = dict(
    engine="sched",
    technique="stateless model checking of the real code: preemption-bounded exhaustive interleaving exploration with state caching",
    text="Same engine; the harness exporter counts concurrent entries (its Export contains a scheduling point) and records every batch size, on histories that include an "
         "earlier completed ForceFlush, concurrent flushes and the shutdown drain path: in-flight <= 1 and 1 <= |batch| <= max_export_batch_size in every explored schedule; "
         "also judged on the configuration sets written for C01 and C02 (B == Q, gated / slow / failing exporters, shutdown racers), on simple processors driven from 2-3 threads "
         "with flush and shutdown callers, and on the periodic reader racing ForceFlush, Shutdown and cycles that outlive export_timeout.",
    note=SCHED_NOTE)
SEQ_NOTE = ("Bounded exhaustive: every operation sequence / input of the stated alphabet up to the stated depth or mutation bound, executed on the real code under "
            "AddressSanitizer in lock-step with an independent reference model; inputs outside the alphabet and deeper histories are not covered; trusted base: the reference model and the alphabet.")
CLAIMS["C14"] = dict(
    engine="seq",
    technique="explicit-state exploration of operation histories on the real object against a reference model (bounded depth, canonical-state pruning) plus deviation-bounded input enumeration",
    text="All Set/Delete/Get/ToHeader-FromHeader histories up to depth 3 (quick) / 4 (thorough) over an alphabet of valid, boundary-length and invalid keys and values, from "
         "start states with 0, 1, 31 and 32 members, on the real TraceState against an ordered-list model with independently written W3C validity predicates; one Set (then Get, "
         "round trip, Delete) of each string of a wide set - every byte value at every position of a simple key, a vendor@tenant key and a value, lengths 255/256/257, tenant "
         "240/241/242 x system id 0/1/13/14/15 - and IsValidKey / IsValidValue on the same strings (three-valued oracle: level-1 ABNF must be accepted, digit-first identifiers are "
         "don't-care, everything else must be rejected); FromHeader over all single (thorough: double) point mutations of seed headers incl. 32 and 33 members over 23 byte classes, "
         "none truncated, in exact-size heap blocks under ASan, against an independent member parser. The whole is run twice: on TraceState as built (std::regex validators) and on "
         "the same header compiled with OPENTELEMETRY_HAVE_WORKING_REGEX=0 (hand-written validators; histories one level shallower), the two validator variants compared on every string.",
    note=SEQ_NOTE)


# --- per-property fragments: harness/claim_*.py are executed with CLAIMS / notes in scope -----------
import glob as _glob, os as _os
for _f in sorted(_glob.glob(_os.path.join(_os.path.dirname(_os.path.abspath(__file__)), "claim_*.py"))):
    exec(compile(open(_f).read(), _f, "exec"), {"CLAIMS": CLAIMS, "NOT_CLAIMED": NOT_CLAIMED, "SEQ_NOTE": SEQ_NOTE, "SCHED_NOTE": SCHED_NOTE})

# --- properties that are decided by both engines: the sequential part (sub-agent fragments above) and
# the multi-threaded part (conc_harness.cc / c06_conc.cc under the scheduler) -----------------------
_CONC = {
    "C04": "Engine A adds: two threads operate on ONE span (SetAttribute / AddEvent / End from both, two orders) in every interleaving with <= 3 (thorough 4) preemptions; the exported span must be explained by an order of the calls that is consistent with their call/return order, cut at the first End (brute force over the permutations), and must be exported exactly once.",
    "C05": "Engine A adds: two threads, each with its own active-span stack (root, Scope, child) through one real TracerProvider in every interleaving with <= 3 (thorough 4) preemptions: each child has its own thread's span as parent and trace, GetCurrentSpan is the thread's own, span ids are distinct and non-zero.",
    "C06": "Engine A adds: recorder threads racing collector threads on the real MeterProvider / SyncMetricStorage / TemporalMetricStorage with delta and cumulative pull readers, every interleaving with <= 2 (thorough 3) preemptions; values are distinct powers of two so every point identifies the measurements it contains: a delta reader's intervals must partition the measurements, a cumulative reader's collections must be growing supersets ending with everything.",
    "C10": "Engine A adds: two threads running attach/detach programs (all 25 pairs of 5 programs incl. out-of-order and repeated contexts) in every interleaving with <= 3 (thorough 4) preemptions: each thread observes only its own runtime-context stack.",
    "C17": "Engine A adds: a collection in flight on one thread while another thread removes a callback or destroys the instrument (real ObservableRegistry / Meter / MeterContext), every interleaving with <= 2 (thorough 3) preemptions plus scheduling points after every unlock: no callback invocation may start after RemoveCallback / the instrument's destruction has returned, and the callback that stays registered is invoked exactly once per collection.",
    "C13": "Engine A adds: two threads with different (optionally nested) active spans emitting through one real LoggerProvider in every interleaving with <= 3 (thorough 4) preemptions: every exported record carries its own thread's trace/span ids.",
}
for _p, _t in _CONC.items():
    if _p in CLAIMS:
        CLAIMS[_p]["engine"] = "seq+sched"
        CLAIMS[_p]["technique"] = CLAIMS[_p]["technique"] + "; plus stateless model checking of the multi-threaded part on the real code (preemption-bounded exhaustive interleaving exploration with state caching)"
        CLAIMS[_p]["text"] = CLAIMS[_p]["text"] + " " + _t
        CLAIMS[_p]["note"] = CLAIMS[_p]["note"] + " For the multi-threaded part: " + SCHED_NOTE
