"""What each registered check claims (level text, trusted base).  MANIFEST.json is generated from
this file and registry.py by bin/gen_manifest.py."""

CLAIMS = {}
NOT_CLAIMED = {}

SCHED_NOTE = ("Bounded exhaustive: all schedules within the stated preemption / timer / spurious-CAS budgets for the stated small configurations "
              "(thread counts, queue sizes); interleaving is sequentially consistent (weaker memory orders are not explored; a free-running ThreadSanitizer "
              "pass over the same bodies looks for unsynchronised accesses as an auxiliary check); trusted base: the shim's model of std::atomic/mutex/"
              "condition_variable/thread, the virtual clock, the harness oracle.")

CLAIMS["C11"] = dict(
    engine="sched",
    technique="stateless model checking of the real code: preemption-bounded exhaustive interleaving exploration with happens-before state caching",
    text="Every interleaving (iterative context bounding, k preemptions plus one spurious weak-CAS failure) of 1..3 producers and one consumer on the real "
         "CircularBuffer/AtomicUniquePtr for capacities 1..3, and of 2..3 threads on the real SpinLockMutex, is executed under a controlled scheduler; the "
         "oracle checks exactly-once consumption, per-producer order, legitimacy of every failed Add, the capacity invariant at every scheduling point, "
         "instance counts, mutual exclusion and termination of lock().",
    note=SCHED_NOTE)
