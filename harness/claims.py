"""What each registered check claims (level text, trusted base).  MANIFEST.json is generated from
this file and registry.py by bin/gen_manifest.py."""

CLAIMS = {}
NOT_CLAIMED = {}
# properties whose checks exist but are still being finished / triaged: not claimed until they pass on the tree
HOLD = {"C04", "C05", "C13", "C18", "C20", "C10"}

SCHED_NOTE = ("Bounded exhaustive: all schedules within the stated preemption / timer / spurious-CAS budgets for the stated small configurations "
              "(thread counts, queue sizes); interleaving is sequentially consistent (weaker memory orders are not explored; a free-running ThreadSanitizer "
              "pass over the same bodies looks for unsynchronised accesses as an auxiliary check); trusted base: the shim's model of std::atomic/mutex/"
              "condition_variable/thread, the virtual clock, the harness oracle.")

CLAIMS["C11"] = dict(
    engine="sched",
    technique="stateless model checking of the real code: preemption-bounded exhaustive interleaving exploration with happens-before state caching",
    text="Every interleaving (iterative context bounding, k preemptions plus one spurious weak-CAS failure) of 1..3 producers and one consumer on the real "
         "CircularBuffer/AtomicUniquePtr for capacities 1..3, and of 2..3 threads on the real SpinLockMutex, is executed under a controlled scheduler; the "
         "oracle checks exactly-once consumption, per-producer order, legitimacy of every failed Add, the capacity invariant at every scheduling point, "
         "instance counts, mutual exclusion and termination of lock().",
    note=SCHED_NOTE)

CLAIMS["C01"] = dict(
    engine="sched",
    technique="stateless model checking of the real code: preemption-bounded exhaustive interleaving exploration (iterative context bounding) with happens-before state caching and a virtual clock",
    text="The unmodified BatchSpanProcessor and BatchLogRecordProcessor sources (with the real CircularBuffer) run under a controlled scheduler that owns every "
         "atomic, mutex, condition variable, thread and the clock. For each small configuration (queue/batch sizes, 2-3 producers, slow exporter, gated exporter, "
         "mid-run flushes, shutdown racing producers) every schedule within the preemption budget is executed and checked: no record reaches the exporter twice, "
         "per-producer order, a record is lost only if the queue was provably full (counting argument of DESIGN 5/C01), instance counts return to zero, no deadlock "
         "(producers never wait for the exporter).",
    note=SCHED_NOTE)
CLAIMS["C02"] = dict(
    engine="sched",
    technique="stateless model checking of the real code: preemption- and timer-deviation-bounded exhaustive interleaving exploration with state caching and a virtual clock",
    text="Same engine; configurations with concurrent ForceFlush callers (timeouts zero / short / long / max), concurrent Shutdown callers, slow and failing exporters, "
         "destruction instead of Shutdown and late calls. Oracle on logical timestamps: a ForceFlush that returned true exported everything added before it was called and "
         "invoked the exporter's ForceFlush in between; after a Shutdown returned everything produced before it was exported, the exporter was shut down exactly once, no "
         "exporter method is entered any more and late calls take no (virtual) time; every execution terminates (deadlock / horizon detection).",
    note=SCHED_NOTE)
CLAIMS["C03"] = dict(
    engine="sched",
    technique="stateless model checking of the real code: preemption-bounded exhaustive interleaving exploration with state caching",
    text="Same engine; the harness exporter counts concurrent entries (its Export contains a scheduling point) and records every batch size, on histories that include an "
         "earlier completed ForceFlush, concurrent flushes and the shutdown drain path: in-flight <= 1 and 1 <= |batch| <= max_export_batch_size in every explored schedule.",
    note=SCHED_NOTE)
SEQ_NOTE = ("Bounded exhaustive: every operation sequence / input of the stated alphabet up to the stated depth or mutation bound, executed on the real code under "
            "AddressSanitizer in lock-step with an independent reference model; inputs outside the alphabet and deeper histories are not covered; trusted base: the reference model and the alphabet.")
CLAIMS["C14"] = dict(
    engine="seq",
    technique="explicit-state exploration of operation histories on the real object against a reference model (bounded depth, canonical-state pruning) plus deviation-bounded input enumeration",
    text="All Set/Delete/Get/ToHeader-FromHeader histories up to depth 3 (quick) / 4 (thorough) over an alphabet of valid, boundary-length and invalid keys and values, from "
         "start states with 0, 1, 31 and 32 members, on the real TraceState against an ordered-list model with independently written W3C validity predicates; FromHeader over "
         "all single (thorough: double) point mutations of seed headers, in exact-size heap blocks under ASan, against an independent member parser (three-valued oracle).",
    note=SEQ_NOTE)


# --- per-property fragments: harness/claim_*.py are executed with CLAIMS / notes in scope -----------
import glob as _glob, os as _os
for _f in sorted(_glob.glob(_os.path.join(_os.path.dirname(_os.path.abspath(__file__)), "claim_*.py"))):
    exec(compile(open(_f).read(), _f, "exec"), {"CLAIMS": CLAIMS, "NOT_CLAIMED": NOT_CLAIMED, "SEQ_NOTE": SEQ_NOTE, "SCHED_NOTE": SCHED_NOTE})
