// Auxiliary free-running pass for C04/C05/C13 (DESIGN 2.7): several threads operate on ONE span (all
// mutators and End), on one tracer and on one logger, on real threads, no shim, under ThreadSanitizer.
// The cooperative scheduler only switches threads at synchronisation operations, so an access to plain
// memory made right after a lock has been dropped (e.g. a mutator that checks IsRecording() and then
// touches the recordable without holding the span's mutex) cannot be separated from that lock operation
// by the scheduler; ThreadSanitizer sees it as a data race. Sampling; assumption check.
//
// Every SDK override of a span mutator is in the rotation: the four Span::AddEvent bodies (name / name+time / name+attributes /
// name+time+attributes, the latter also through the initializer-list helpers), SetAttribute with scalar, string, array and
// string-array values, UpdateName, SetStatus, End, the readers IsRecording / GetContext, and - in the ABI v2 build
// (c04_tsan_abi2) - AddLink and AddLinks. Each has its own hand-written lock + "still recording" guard in sdk/src/trace/span.cc.
#include <opentelemetry/logs/logger.h>
#include <opentelemetry/sdk/common/global_log_handler.h>
#include <opentelemetry/sdk/logs/exporter.h>
#include <opentelemetry/sdk/logs/logger_provider.h>
#include <opentelemetry/sdk/logs/read_write_log_record.h>
#include <opentelemetry/sdk/logs/simple_log_record_processor.h>
#include <opentelemetry/sdk/resource/resource.h>
#include <opentelemetry/sdk/trace/exporter.h>
#include <opentelemetry/sdk/trace/simple_processor.h>
#include <opentelemetry/sdk/trace/span_data.h>
#include <opentelemetry/sdk/trace/tracer_provider.h>
#include <opentelemetry/trace/scope.h>

#include <atomic>
#include <cstdio>
#include <thread>
#include <vector>

namespace nostd = opentelemetry::nostd;
namespace sdkc = opentelemetry::sdk::common;
namespace sdkt = opentelemetry::sdk::trace;
namespace sdkl = opentelemetry::sdk::logs;
namespace trace_api = opentelemetry::trace;
using namespace std::chrono;
#if OPENTELEMETRY_ABI_VERSION_NO >= 2
static const int kOps = 16;
#else
static const int kOps = 14;
#endif

static std::atomic<long> g_spans{0}, g_logs{0};
struct SpanExp final : sdkt::SpanExporter {
  std::unique_ptr<sdkt::Recordable> MakeRecordable() noexcept override { return std::unique_ptr<sdkt::Recordable>(new sdkt::SpanData()); }
  sdkc::ExportResult Export(const nostd::span<std::unique_ptr<sdkt::Recordable>> &b) noexcept override {
    for (auto &r : b) {
      auto *d = static_cast<sdkt::SpanData *>(r.get());
      g_spans += (long)d->GetName().size() + (long)d->GetAttributes().size() + (long)d->GetEvents().size() + (long)d->GetLinks().size();
      for (auto &e : d->GetEvents()) g_spans += (long)e.GetAttributes().size();
    }
    return sdkc::ExportResult::kSuccess;
  }
  bool ForceFlush(microseconds) noexcept override { return true; }
  bool Shutdown(microseconds) noexcept override { return true; }
};
struct LogExp final : sdkl::LogRecordExporter {
  std::unique_ptr<sdkl::Recordable> MakeRecordable() noexcept override { return std::unique_ptr<sdkl::Recordable>(new sdkl::ReadWriteLogRecord()); }
  sdkc::ExportResult Export(const nostd::span<std::unique_ptr<sdkl::Recordable>> &b) noexcept override { g_logs += (long)b.size(); return sdkc::ExportResult::kSuccess; }
  bool ForceFlush(microseconds) noexcept override { return true; }
  bool Shutdown(microseconds) noexcept override { return true; }
};

int main(int argc, char **argv) {
  opentelemetry::sdk::common::internal_log::GlobalLogHandler::SetLogLevel(opentelemetry::sdk::common::internal_log::LogLevel::None);
  int iters = argc > 1 ? atoi(argv[1]) : 300;
  sdkt::TracerProvider tp(std::unique_ptr<sdkt::SpanProcessor>(new sdkt::SimpleSpanProcessor(std::unique_ptr<sdkt::SpanExporter>(new SpanExp()))),
                          opentelemetry::sdk::resource::Resource::GetEmpty());
  std::vector<std::unique_ptr<sdkl::LogRecordProcessor>> lp;
  lp.emplace_back(new sdkl::SimpleLogRecordProcessor(std::unique_ptr<sdkl::LogRecordExporter>(new LogExp())));
  sdkl::LoggerProvider lprov(std::move(lp), opentelemetry::sdk::resource::Resource::GetEmpty());
  auto tracer = tp.GetTracer("t");
  auto logger = lprov.GetLogger("l", "lib");
  const uint8_t tid[16] = {1, 2, 3, 4, 5, 6, 7, 8, 9, 10, 11, 12, 13, 14, 15, 16}, sid[8] = {1, 2, 3, 4, 5, 6, 7, 8};
  const trace_api::SpanContext target(trace_api::TraceId(tid), trace_api::SpanId(sid), trace_api::TraceFlags(1), true);
  (void)target;
  for (int it = 0; it < iters; ++it) {
    auto span = tracer->StartSpan("s");
    std::atomic<int> go{0};
    auto body = [&](int t) {
      go++;
      while (go.load() < 3) {}
      for (int i = 0; i < 3; ++i) {
        opentelemetry::common::SystemTimestamp ts(std::chrono::system_clock::now());
        // the stride changes with the round so that, over the iterations, every operation meets every other one (and End) on another thread
        switch ((t * (1 + it / kOps % (kOps - 1)) + i + it) % kOps) {
          case 0: span->SetAttribute("k", (int64_t)i); break;
          case 1: span->AddEvent("e"); break;
          case 2: span->UpdateName("renamed"); break;
          case 3: span->SetStatus(trace_api::StatusCode::kError, "d"); break;
          case 4: span->End(); break;
          case 5: span->AddEvent("e-ts", ts); break;                                          // Span::AddEvent(name, timestamp)
          case 6: {                                                                           // Span::AddEvent(name, KeyValueIterable)
            std::vector<std::pair<nostd::string_view, opentelemetry::common::AttributeValue>> kv = {{"k", (int64_t)i}, {"s", "v"}};
            span->AddEvent("e-attrs", kv);
            break;
          }
          case 7: span->AddEvent("e-ts-attrs", ts, {{"k", (int64_t)i}, {"s", "v"}}); break;  // Span::AddEvent(name, timestamp, KeyValueIterable)
          case 8: span->AddEvent("e-list", {{"k", (int64_t)i}}); break;                      // helper: (name, now, KeyValueIterable)
          case 9: span->SetAttribute("s", "text"); break;
          case 10: { const int32_t a[3] = {1, 2, i}; span->SetAttribute("a", nostd::span<const int32_t>(a, 3)); break; }
          case 11: { const nostd::string_view a[2] = {"x", "yy"}; span->SetAttribute("sa", nostd::span<const nostd::string_view>(a, 2)); break; }
          case 12: g_spans += (long)span->IsRecording(); break;
          case 13: g_spans += (long)span->GetContext().IsValid(); break;
#if OPENTELEMETRY_ABI_VERSION_NO >= 2
          case 14: span->AddLink(target, {{"k", (int64_t)i}}); break;                         // Span::AddLink
          default: span->AddLinks({{target, {{"k", (int64_t)i}}}, {target, {}}}); break;      // Span::AddLinks
#else
          default: break;
#endif
        }
      }
      {
        opentelemetry::trace::Scope scope(span);
        logger->EmitLogRecord(opentelemetry::logs::Severity::kInfo, "x");
        auto child = tracer->StartSpan("c");
        child->End();
      }
    };
    std::thread a([&] { body(0); }), b([&] { body(1); }), c([&] { body(2); });
    a.join(); b.join(); c.join();
    span->End();
  }
  printf("tsan pass: %d iterations, checksum %ld %ld\n", iters, g_spans.load(), g_logs.load());
  return 0;
}
