// Auxiliary free-running pass for C04/C05/C13 (DESIGN 2.7): several threads operate on ONE span (all
// mutators and End), on one tracer and on one logger, on real threads, no shim, under ThreadSanitizer.
// The cooperative scheduler only switches threads at synchronisation operations, so an access to plain
// memory made right after a lock has been dropped (e.g. a mutator that checks IsRecording() and then
// touches the recordable without holding the span's mutex) cannot be separated from that lock operation
// by the scheduler; ThreadSanitizer sees it as a data race. Sampling; assumption check.
#include <opentelemetry/logs/logger.h>
#include <opentelemetry/sdk/common/global_log_handler.h>
#include <opentelemetry/sdk/logs/exporter.h>
#include <opentelemetry/sdk/logs/logger_provider.h>
#include <opentelemetry/sdk/logs/read_write_log_record.h>
#include <opentelemetry/sdk/logs/simple_log_record_processor.h>
#include <opentelemetry/sdk/resource/resource.h>
#include <opentelemetry/sdk/trace/exporter.h>
#include <opentelemetry/sdk/trace/simple_processor.h>
#include <opentelemetry/sdk/trace/span_data.h>
#include <opentelemetry/sdk/trace/tracer_provider.h>
#include <opentelemetry/trace/scope.h>

#include <atomic>
#include <cstdio>
#include <thread>
#include <vector>

namespace nostd = opentelemetry::nostd;
namespace sdkc = opentelemetry::sdk::common;
namespace sdkt = opentelemetry::sdk::trace;
namespace sdkl = opentelemetry::sdk::logs;
using namespace std::chrono;

static std::atomic<long> g_spans{0}, g_logs{0};
struct SpanExp final : sdkt::SpanExporter {
  std::unique_ptr<sdkt::Recordable> MakeRecordable() noexcept override { return std::unique_ptr<sdkt::Recordable>(new sdkt::SpanData()); }
  sdkc::ExportResult Export(const nostd::span<std::unique_ptr<sdkt::Recordable>> &b) noexcept override {
    for (auto &r : b) { auto *d = static_cast<sdkt::SpanData *>(r.get()); g_spans += (long)d->GetName().size() + (long)d->GetAttributes().size() + (long)d->GetEvents().size(); }
    return sdkc::ExportResult::kSuccess;
  }
  bool ForceFlush(microseconds) noexcept override { return true; }
  bool Shutdown(microseconds) noexcept override { return true; }
};
struct LogExp final : sdkl::LogRecordExporter {
  std::unique_ptr<sdkl::Recordable> MakeRecordable() noexcept override { return std::unique_ptr<sdkl::Recordable>(new sdkl::ReadWriteLogRecord()); }
  sdkc::ExportResult Export(const nostd::span<std::unique_ptr<sdkl::Recordable>> &b) noexcept override { g_logs += (long)b.size(); return sdkc::ExportResult::kSuccess; }
  bool ForceFlush(microseconds) noexcept override { return true; }
  bool Shutdown(microseconds) noexcept override { return true; }
};

int main(int argc, char **argv) {
  opentelemetry::sdk::common::internal_log::GlobalLogHandler::SetLogLevel(opentelemetry::sdk::common::internal_log::LogLevel::None);
  int iters = argc > 1 ? atoi(argv[1]) : 300;
  sdkt::TracerProvider tp(std::unique_ptr<sdkt::SpanProcessor>(new sdkt::SimpleSpanProcessor(std::unique_ptr<sdkt::SpanExporter>(new SpanExp()))),
                          opentelemetry::sdk::resource::Resource::GetEmpty());
  std::vector<std::unique_ptr<sdkl::LogRecordProcessor>> lp;
  lp.emplace_back(new sdkl::SimpleLogRecordProcessor(std::unique_ptr<sdkl::LogRecordExporter>(new LogExp())));
  sdkl::LoggerProvider lprov(std::move(lp), opentelemetry::sdk::resource::Resource::GetEmpty());
  auto tracer = tp.GetTracer("t");
  auto logger = lprov.GetLogger("l", "lib");
  for (int it = 0; it < iters; ++it) {
    auto span = tracer->StartSpan("s");
    std::atomic<int> go{0};
    auto body = [&](int t) {
      go++;
      while (go.load() < 3) {}
      for (int i = 0; i < 3; ++i) {
        switch ((t + i + it) % 5) {
          case 0: span->SetAttribute("k", (int64_t)i); break;
          case 1: span->AddEvent("e"); break;
          case 2: span->UpdateName("renamed"); break;
          case 3: span->SetStatus(opentelemetry::trace::StatusCode::kError, "d"); break;
          default: span->End(); break;
        }
      }
      {
        opentelemetry::trace::Scope scope(span);
        logger->EmitLogRecord(opentelemetry::logs::Severity::kInfo, "x");
        auto child = tracer->StartSpan("c");
        child->End();
      }
    };
    std::thread a([&] { body(0); }), b([&] { body(1); }), c([&] { body(2); });
    a.join(); b.join(); c.join();
    span->End();
  }
  printf("tsan pass: %d iterations, checksum %ld %ld\n", iters, g_spans.load(), g_logs.load());
  return 0;
}
