// Engine-A harness for the batch span / batch log-record processors (C01, C02 part a, C03 part b).
// The real BatchSpanProcessor / BatchLogRecordProcessor sources are compiled with the shim; the
// harness supplies tagged recordables, an exporter that logs every call with a logical timestamp,
// producer / flusher / shutdown threads, and one oracle per property (--oracle=C01|C02|C03).
#include <opentelemetry/sdk/logs/batch_log_record_processor.h>
#include <opentelemetry/sdk/logs/exporter.h>
#include <opentelemetry/sdk/logs/read_write_log_record.h>
#include <opentelemetry/sdk/trace/batch_span_processor.h>
#include <opentelemetry/sdk/trace/batch_span_processor_options.h>
#include <opentelemetry/sdk/trace/exporter.h>
#include <opentelemetry/sdk/trace/span_data.h>

#include <opentelemetry/sdk/common/global_log_handler.h>
#include "stub_recordables.h"
#include "vf_core.h"

namespace nostd = opentelemetry::nostd;
namespace sdkc = opentelemetry::sdk::common;
using namespace std::chrono;

namespace {

constexpr int64_t MS = 1000000;
constexpr int kDelayMs = 1000;     // schedule delay (virtual)
constexpr int kLatencyMs = 1500;   // slow exporter: longer than the schedule delay

enum Ev : int {
  CALL_ADD, RET_ADD, CALL_FF, RET_FF, CALL_SD, RET_SD, EXP_ENTER, EXP_EXIT, XFF_ENTER, XFF_EXIT, XSD_ENTER, XSD_EXIT, LATE_CALL, LATE_RET
};
const char *const kEvName[] = {"call-add", "ret-add", "call-flush", "ret-flush", "call-shutdown", "ret-shutdown", "export-enter", "export-exit",
                               "exp-flush-enter", "exp-flush-exit", "exp-shutdown-enter", "exp-shutdown-exit", "late-call", "late-ret"};
struct Event { int kind, thread, a, b; int64_t vt; };

struct Cfg {
  int kind;        // 0 span processor, 1 log processor
  int Q, B;        // max_queue_size, max_export_batch_size
  int P, n;        // producers, records each
  int latency;     // 0 none, 1 Export slow, 2 exporter ForceFlush slow, 3 exporter Shutdown slow
  int gate;        // Export blocks until all producers have returned
  int F;           // concurrent flusher threads (run alongside the producers)
  int ff_timeout;  // 0: zero (= wait for ever), 1: shorter than the latency, 2: long, 3: max
  int S;           // shutdown callers (threads) racing each other; 0 = main thread only
  int preflush;    // an earlier, completed ForceFlush before production starts (history for C03)
  int second;      // a second production phase after the flushers (records between two flushes)
  int xfail;       // bit0: Export reports failure, bit1: exporter ForceFlush false, bit2: exporter Shutdown false
  int tail;        // late calls after Shutdown returned
  int destroy;     // 1: destruction instead of an explicit final Shutdown
  int heavy;       // large state space: explored by the *_heavy registry entry with its own budget
  int sd_timeout;  // timeout given to every explicit Shutdown: 0 default (max), 1 zero, 2 1 ms, 3 60 s
  int fft2;        // timeout kind of flusher #1 when it differs from flusher #0: 0 = same, else kind + 1
  int inflight;    // the main thread first adds one record and waits until the worker is inside Export with it (harness-level wait: no preemption needed)
  int ctor;        // 1: the other constructor overload (span: options + runtime options; log: options, or options + runtime options for B > 1)
};
std::vector<Cfg> g_cfgs;
std::string g_oracle;
bool g_overlap_matters = false;

struct Shared {
  std::vector<Event> ev;
  std::vector<std::vector<int>> batches;   // tags per Export, in entry order
  std::vector<int> batch_enter_idx;        // event index of each Export entry
  int inflight = 0;
  int live = 0;
  int xsd_calls = 0;
  std::atomic<int> tick{0};                // a visible step inside Export
  std::mutex gate_m;
  std::condition_variable gate_cv;
  bool producers_done = false;
  bool export_entered = false;
  const Cfg *cfg = nullptr;
  int log(int kind, int a = 0, int b = 0) {
    ev.push_back({kind, vfs::self(), a, b, vfs::virt_ns()});
    vfs::note(kEvName[kind], (uint64_t)a, (uint64_t)b);
    return (int)ev.size() - 1;
  }
} *g;

template <class Base>
struct Tagged : Base {
  int tag;
  explicit Tagged(int t) : tag(t) { g->live++; }
  ~Tagged() override { g->live--; }
};

struct SpanTr {
  using Rec = opentelemetry::sdk::trace::Recordable;
  using TagRec = Tagged<vfstub::SpanRec>;
  using Exporter = opentelemetry::sdk::trace::SpanExporter;
  using Proc = opentelemetry::sdk::trace::BatchSpanProcessor;
  static std::unique_ptr<Proc> make(std::unique_ptr<Exporter> e, int Q, int B, int ctor) {
    opentelemetry::sdk::trace::BatchSpanProcessorOptions o;
    o.max_queue_size = Q; o.max_export_batch_size = B; o.schedule_delay_millis = milliseconds(kDelayMs);
    if (ctor) return std::unique_ptr<Proc>(new Proc(std::move(e), o, opentelemetry::sdk::trace::BatchSpanProcessorRuntimeOptions{}));
    return std::unique_ptr<Proc>(new Proc(std::move(e), o));
  }
  static void add(Proc &p, std::unique_ptr<Rec> r) { p.OnEnd(std::move(r)); }
};
struct LogTr {
  using Rec = opentelemetry::sdk::logs::Recordable;
  using TagRec = Tagged<vfstub::LogRec>;
  using Exporter = opentelemetry::sdk::logs::LogRecordExporter;
  using Proc = opentelemetry::sdk::logs::BatchLogRecordProcessor;
  static std::unique_ptr<Proc> make(std::unique_ptr<Exporter> e, int Q, int B, int ctor) {
    if (ctor) {
      opentelemetry::sdk::logs::BatchLogRecordProcessorOptions o;
      o.max_queue_size = Q; o.max_export_batch_size = B; o.schedule_delay_millis = milliseconds(kDelayMs);
      if (B > 1) return std::unique_ptr<Proc>(new Proc(std::move(e), o, opentelemetry::sdk::logs::BatchLogRecordProcessorRuntimeOptions{}));
      return std::unique_ptr<Proc>(new Proc(std::move(e), o));
    }
    return std::unique_ptr<Proc>(new Proc(std::move(e), (size_t)Q, milliseconds(kDelayMs), (size_t)B));
  }
  static void add(Proc &p, std::unique_ptr<Rec> r) { p.OnEmit(std::move(r)); }
};

template <class Tr>
class TagExporter final : public Tr::Exporter {
 public:
  std::unique_ptr<typename Tr::Rec> MakeRecordable() noexcept override { return std::unique_ptr<typename Tr::Rec>(new typename Tr::TagRec(-1)); }
  sdkc::ExportResult Export(const nostd::span<std::unique_ptr<typename Tr::Rec>> &batch) noexcept override {
    std::vector<int> tags;
    for (auto &r : batch) tags.push_back(r ? static_cast<typename Tr::TagRec *>(r.get())->tag : -2);
    int bi = (int)g->batches.size();
    g->batches.push_back(tags);
    int idx = g->log(EXP_ENTER, bi, (int)tags.size());
    g->batch_enter_idx.push_back(idx);
    if (++g->inflight > 1 && g_overlap_matters) vfs::fail("C03:overlapping-export", "Export entered while a previous Export on the same exporter is still running");
    if (g->cfg->inflight && !g->export_entered) {
      std::lock_guard<std::mutex> lk(g->gate_m);
      g->export_entered = true;
      g->gate_cv.notify_all();
    }
    if (g->cfg->gate) {
      std::unique_lock<std::mutex> lk(g->gate_m);
      g->gate_cv.wait(lk, [] { return g->producers_done; });
    }
    if (g->cfg->latency == 1) std::this_thread::sleep_for(milliseconds(kLatencyMs));
    else g->tick.fetch_add(1);
    --g->inflight;
    g->log(EXP_EXIT, bi);
    return (g->cfg->xfail & 1) ? sdkc::ExportResult::kFailure : sdkc::ExportResult::kSuccess;
  }
  bool ForceFlush(microseconds) noexcept override {
    g->log(XFF_ENTER);
    if (g->cfg->latency == 2) std::this_thread::sleep_for(milliseconds(kLatencyMs));
    g->log(XFF_EXIT);
    return !(g->cfg->xfail & 2);
  }
  bool Shutdown(microseconds) noexcept override {
    g->xsd_calls++;
    g->log(XSD_ENTER);
    if (g->cfg->latency == 3) std::this_thread::sleep_for(milliseconds(kLatencyMs));
    g->log(XSD_EXIT);
    return !(g->cfg->xfail & 4);
  }
};

microseconds sd_timeout(int k) {
  switch (k) {
    case 1: return microseconds(0);
    case 2: return microseconds(1000);
    case 3: return microseconds(60ll * 1000 * 1000);
    default: return (microseconds::max)();
  }
}
microseconds ff_timeout(int k) {
  switch (k) {
    case 0: return microseconds(0);
    case 1: return microseconds(100 * 1000);          // 100 ms < latency
    case 2: return microseconds(60ll * 1000 * 1000);  // 60 s
    default: return (microseconds::max)();
  }
}

std::string describe_events() {
  std::string s;
  for (size_t i = 0; i < g->ev.size(); ++i) {
    const Event &e = g->ev[i];
    s += vf::sfmt("    [%zu] T%d %s %d %d @%lldms\n", i, e.thread, kEvName[e.kind], e.a, e.b, (long long)(e.vt / MS));
  }
  return s;
}
// --as=<ID>: the same predicates reported for another property (C13 judges "every record reaches the exporter exactly
// once" on the real BatchLogRecordProcessor): signatures become <ID>:batch:<rest>
std::string g_sig_as;
[[noreturn]] void fail(const std::string &sig0, const std::string &msg) {
  const Cfg &c = *g->cfg;
  const std::string sig = g_sig_as.empty() ? sig0 : g_sig_as + ":batch:" + sig0.substr(sig0.find(':') + 1);
  vfs::fail(sig, msg + vf::sfmt("\n  config: %s Q=%d B=%d P=%d n=%d latency=%d gate=%d F=%d fft=%d S=%d preflush=%d second=%d xfail=%d tail=%d destroy=%d sd_timeout=%d fft2=%d ctor=%d inflight=%d\n  events:\n",
                                c.kind ? "log" : "span", c.Q, c.B, c.P, c.n, c.latency, c.gate, c.F, c.ff_timeout, c.S, c.preflush, c.second, c.xfail, c.tail, c.destroy, c.sd_timeout, c.fft2, c.ctor, c.inflight) +
                          describe_events());
}

// index of the Export entry that carried tag, or -1
int export_of(int tag, int *count = nullptr) {
  int found = -1, cnt = 0;
  for (size_t b = 0; b < g->batches.size(); ++b)
    for (int t : g->batches[b])
      if (t == tag) { if (found < 0) found = (int)b; cnt++; }
  if (count) *count = cnt;
  return found;
}

template <class Tr>
void run_cfg(vf::Ctx &c, const Cfg &cfg) {
  Shared sh;
  g = &sh;
  sh.cfg = &cfg;
  c.stage("run");
  vfs::begin(c);
  {
    auto proc = Tr::make(std::unique_ptr<typename Tr::Exporter>(new TagExporter<Tr>()), cfg.Q, cfg.B, cfg.ctor);
    auto produce = [&](int p, int first, int count) {
      for (int i = first; i < first + count; ++i) {
        std::unique_ptr<typename Tr::Rec> r(new typename Tr::TagRec(p * 100 + i));
        sh.log(CALL_ADD, p * 100 + i);
        Tr::add(*proc, std::move(r));
        sh.log(RET_ADD, p * 100 + i);
      }
    };
    auto flush = [&](int f, microseconds to) {
      int ci = sh.log(CALL_FF, f);
      bool ok = proc->ForceFlush(to);
      sh.log(RET_FF, f, ok);
      (void)ci;
    };
    if (cfg.preflush) {
      produce(9, 0, 1);
      flush(9, microseconds(0));
    }
    if (cfg.inflight) {
      produce(9, 1, 1);
      std::unique_lock<std::mutex> lk(sh.gate_m);
      sh.gate_cv.wait(lk, [&] { return sh.export_entered; });
    }
    {
      std::vector<std::thread> ts;
      for (int p = 0; p < cfg.P; ++p) ts.emplace_back([&, p] { produce(p, 0, cfg.n); });
      for (int f = 0; f < cfg.F; ++f) ts.emplace_back([&, f] { flush(f, ff_timeout(f == 1 && cfg.fft2 ? cfg.fft2 - 1 : cfg.ff_timeout)); });
      std::vector<std::thread> sd;
      for (int s = 0; s < cfg.S; ++s)
        sd.emplace_back([&, s] {
          sh.log(CALL_SD, s);
          bool ok = cfg.sd_timeout ? proc->Shutdown(sd_timeout(cfg.sd_timeout)) : proc->Shutdown();
          sh.log(RET_SD, s, ok);
        });
      for (auto &t : ts) t.join();
      if (cfg.gate) {
        std::lock_guard<std::mutex> lk(sh.gate_m);
        sh.producers_done = true;
        sh.gate_cv.notify_all();
      }
      for (auto &t : sd) t.join();
    }
    if (cfg.second) {
      // a second phase: at most Q records between two completed flushes
      flush(7, microseconds(0));
      produce(8, 0, cfg.Q);
      flush(8, microseconds(0));
    }
    if (!cfg.destroy) {
      sh.log(CALL_SD, 99);
      bool ok = cfg.sd_timeout ? proc->Shutdown(sd_timeout(cfg.sd_timeout)) : proc->Shutdown();
      sh.log(RET_SD, 99, ok);
    }
    if (cfg.tail) {
      // late calls: must return promptly and without effect
      size_t nb = sh.batches.size();
      int64_t t0 = vfs::virt_ns();
      int before = (int)sh.ev.size();
      sh.log(LATE_CALL);
      produce(6, 0, 1);
      bool ff = proc->ForceFlush(cfg.tail == 2 ? microseconds(1000) : microseconds(0));
      bool sd2 = proc->Shutdown();
      sh.log(LATE_RET, ff, sd2);
      if (g_oracle == "C02") {
        for (size_t i = before; i < sh.ev.size(); ++i)
          if (sh.ev[i].kind >= EXP_ENTER && sh.ev[i].kind <= XSD_EXIT) fail("C02:exporter-call-after-shutdown", "an exporter method was entered by a call made after Shutdown had returned");
        if (sh.batches.size() != nb) fail("C02:late-export", "a record emitted after Shutdown returned was exported");
        if (vfs::virt_ns() != t0) fail("C02:late-call-blocks", vf::sfmt("calls made after Shutdown returned consumed %lld ms", (long long)((vfs::virt_ns() - t0) / MS)));
      }
    }
    if (cfg.destroy) sh.log(CALL_SD, 98);
    proc.reset();
    if (cfg.destroy) sh.log(RET_SD, 98, 1);
  }
  vfs::end();
  c.stage("oracle");

  // ---------- common facts ----------
  const std::vector<Event> &ev = sh.ev;
  int first_sd_call = -1, first_sd_ret = -1;
  for (size_t i = 0; i < ev.size(); ++i) {
    if (ev[i].kind == CALL_SD && first_sd_call < 0) first_sd_call = (int)i;
    if (ev[i].kind == RET_SD && first_sd_ret < 0) first_sd_ret = (int)i;
  }
  std::string outcome;
  for (auto &b : sh.batches) { outcome += "["; for (int t : b) outcome += vf::sfmt("%d,", t); outcome += "]"; }

  // Every predicate below holds for every configuration (the configuration sets differ in what they stress,
  // --cfgset selects them independently of --oracle); a predicate only reads cfg where the statement does.
  const int total_records = cfg.P * cfg.n + (cfg.preflush ? 1 : 0) + (cfg.inflight ? 1 : 0) + (cfg.second ? cfg.Q : 0);
  const bool no_drop_possible = total_records <= cfg.Q;  // the queue can hold everything that is ever produced

  if (g_oracle == "C01") {
    // 1. nothing delivered twice; 2. per-producer order
    std::map<int, int> seen;
    std::map<int, int> last;
    for (auto &b : sh.batches)
      for (int t : b) {
        if (t < 0) fail("C01:foreign-record", "the exporter received a record that was never produced");
        if (++seen[t] > 1) fail("C01:duplicate", vf::sfmt("record %d was passed to the exporter twice", t));
        int p = t / 100, i = t % 100;
        if (last.count(p) && i < last[p]) fail("C01:order", vf::sfmt("producer %d: record %d reached the exporter after record %d", p, i, last[p]));
        last[p] = i;
      }
    // 3. loss only when the queue was full
    for (size_t i = 0; i < ev.size(); ++i) {
      if (ev[i].kind != RET_ADD) continue;
      int tag = ev[i].a;
      if (tag / 100 == 6) continue;  // late record
      if (first_sd_call >= 0 && (int)i > first_sd_call) continue;  // returned after Shutdown began: may be discarded
      if (seen.count(tag)) continue;
      // find the call event
      int ci = -1;
      for (int j = (int)i; j >= 0; --j) if (ev[j].kind == CALL_ADD && ev[j].a == tag) { ci = j; break; }
      int others_started = 0, handed = 0;
      for (int j = 0; j < (int)i; ++j) if (ev[j].kind == CALL_ADD && ev[j].a != tag) others_started++;
      for (int j = 0; j < ci; ++j) if (ev[j].kind == EXP_ENTER) handed += ev[j].b;
      if (others_started - handed < cfg.Q)
        fail("C01:lost", vf::sfmt("record %d (add returned at [%zu], before Shutdown was called) never reached the exporter although the queue had room: "
                                  "%d other adds had started before it returned, %d records had been handed to the exporter before it started, queue size %d",
                                  tag, i, others_started, handed, cfg.Q));
      // "... in particular never when at most max_queue_size records are produced between two completed flushes":
      // a flush that returned true before this add began has emptied the queue of everything whose add had
      // returned before that flush was called, so only adds that were not yet finished when the flush was called
      // and that started before this one returned can occupy slots.
      int fr = -1, fc = -1;  // latest completed (true) flush that returned before the add was called, and its call
      for (int j = 0; j < ci; ++j)
        if (ev[j].kind == RET_FF && ev[j].b) {
          fr = j;
          for (int k = j; k >= 0; --k) if (ev[k].kind == CALL_FF && ev[k].a == ev[j].a && ev[k].thread == ev[j].thread) { fc = k; break; }
        }
      if (fr >= 0) {
        int since = 0;  // adds (this one included) not covered by that flush and started before this one returned
        for (int j = 0; j < (int)i; ++j) {
          if (ev[j].kind != CALL_ADD) continue;
          int rj = -1;
          for (int k = j + 1; k < (int)ev.size(); ++k) if (ev[k].kind == RET_ADD && ev[k].a == ev[j].a) { rj = k; break; }
          if (rj < 0 || rj > fc) since++;
        }
        if (since <= cfg.Q)
          fail("C01:lost:between-flushes", vf::sfmt("record %d (add called at [%d], returned at [%zu]) never reached the exporter although only %d records (max_queue_size %d) were produced "
                                                    "since the ForceFlush called at [%d] had completed (returned true at [%d])", tag, ci, i, since, cfg.Q, fc, fr));
      }
    }
    // 4. ownership
    if (sh.live != 0) fail("C01:leak", vf::sfmt("%d recordables still alive after the processor was destroyed", sh.live));
    // 5. producers never wait for the exporter: a producer is runnable from the call to the return of OnEnd / OnEmit,
    // and the virtual clock only moves when no thread is runnable - unless a timer deviation moved it (t = 0 runs only)
    if (c.opt().cap[vf::TIMER] == 0)
      for (size_t i = 0; i < ev.size(); ++i) {
        if (ev[i].kind != RET_ADD) continue;
        for (int j = (int)i; j >= 0; --j)
          if (ev[j].kind == CALL_ADD && ev[j].a == ev[i].a) {
            if (ev[j].vt != ev[i].vt)
              fail("C01:producer-waited", vf::sfmt("adding record %d blocked its producer for %lld ms (called at [%d], returned at [%zu])", ev[i].a, (long long)((ev[i].vt - ev[j].vt) / MS), j, i));
            break;
          }
      }
  }

  if (g_oracle == "C03") {
    for (size_t b = 0; b < sh.batches.size(); ++b) {
      if (sh.batches[b].empty()) fail("C03:empty-batch", "Export was called with an empty batch");
      if ((int)sh.batches[b].size() > cfg.B)
        fail(cfg.preflush || cfg.F || cfg.second ? "C03:batch-exceeds-max-after-flush" : "C03:batch-exceeds-max",
             vf::sfmt("batch %zu holds %zu records, max_export_batch_size is %d", b, sh.batches[b].size(), cfg.B));
    }
  }

  if (g_oracle == "C02") {
    // (i) a ForceFlush that returned true is complete
    for (size_t i = 0; i < ev.size(); ++i) {
      if (ev[i].kind != RET_FF || !ev[i].b) continue;
      int f = ev[i].a, ci = -1;
      for (int j = (int)i; j >= 0; --j) if (ev[j].kind == CALL_FF && ev[j].a == f && ev[j].thread == ev[i].thread) { ci = j; break; }
      int last_export = ci;  // latest Export entry that carried a record added before the flush was called
      for (int j = 0; j < ci; ++j) {
        if (ev[j].kind != RET_ADD) continue;
        int tag = ev[j].a;
        int b = export_of(tag);
        // a record that was never exported may have been dropped at a full queue (C01 decides whether rightly);
        // where the queue can hold everything that is ever produced, nothing may be missing
        if (b < 0 && !no_drop_possible) continue;
        if (b < 0 || sh.batch_enter_idx[b] > (int)i)
          fail("C02:flush-incomplete", vf::sfmt("ForceFlush #%d returned true at [%zu] but record %d, whose add had returned at [%d] before the flush was called at [%d], %s",
                                                f, i, tag, j, ci, b < 0 ? "was never exported" : "was exported only afterwards"));
        if (sh.batch_enter_idx[b] > last_export) last_export = sh.batch_enter_idx[b];
      }
      // "... has been passed to Export AND the exporter's own ForceFlush has been invoked": a flush of the
      // exporter that was issued before the data reached it flushes nothing, so the exporter's ForceFlush must
      // be entered after the last of those Exports (and before the processor's ForceFlush returns).
      bool xff = false, xff_any = false;
      for (int j = ci; j < (int)i; ++j) if (ev[j].kind == XFF_ENTER) { xff_any = true; if (j > last_export) xff = true; }
      if (!xff_any) fail("C02:flush-without-exporter-flush", vf::sfmt("ForceFlush #%d returned true at [%zu] but the exporter's ForceFlush was not invoked between its call and its return", f, i));
      if (!xff) fail("C02:flush-incomplete:exporter-flushed-before-data", vf::sfmt("ForceFlush #%d returned true at [%zu]: the exporter's ForceFlush was only invoked before the Export at [%d] that carried a record added before the flush was called at [%d]", f, i, last_export, ci));
    }
    // (ii) shutdown
    if (sh.xsd_calls != 1) fail(sh.xsd_calls == 0 ? "C02:exporter-never-shut-down" : "C02:exporter-shutdown-twice", vf::sfmt("the exporter's Shutdown was invoked %d times", sh.xsd_calls));
    if (first_sd_ret >= 0) {
      for (size_t i = first_sd_ret; i < ev.size(); ++i)
        if (ev[i].kind == EXP_ENTER || ev[i].kind == XFF_ENTER || ev[i].kind == XSD_ENTER)
          fail("C02:exporter-call-after-shutdown", vf::sfmt("%s at [%zu] after a Shutdown had returned at [%d]", kEvName[ev[i].kind], i, first_sd_ret));
    }
    for (size_t j = 0; j < ev.size(); ++j) {
      if (ev[j].kind != RET_ADD || (first_sd_call >= 0 && (int)j > first_sd_call) || ev[j].a / 100 == 6) continue;
      if (export_of(ev[j].a) < 0 && no_drop_possible)
        fail("C02:shutdown-incomplete", vf::sfmt("record %d was produced (add returned at [%zu]) before Shutdown was called at [%d] but never exported", ev[j].a, j, first_sd_call));
    }
    if (sh.live != 0) fail("C02:leak", vf::sfmt("%d recordables still alive after the processor was destroyed", sh.live));
  }
  c.outcome(vf::sfmt("%d|", (int)(&cfg - &g_cfgs[0])) + outcome);
  c.sample(vf::sfmt("%s Q=%d B=%d P=%d n=%d F=%d S=%d latency=%d batches=%s events=%zu", cfg.kind ? "log" : "span", cfg.Q, cfg.B, cfg.P, cfg.n, cfg.F, cfg.S, cfg.latency,
                    outcome.c_str(), ev.size()));
}

void add_cfg(Cfg c) { g_cfgs.push_back(c); }

void setup(vf::Options &o) {
  opentelemetry::sdk::common::internal_log::GlobalLogHandler::SetLogLevel(opentelemetry::sdk::common::internal_log::LogLevel::None);
  g_oracle = o.get("oracle", o.property);
  o.property = g_oracle;
  g_sig_as = o.get("as");
  if (!g_sig_as.empty()) o.property = g_sig_as;
  const int only_kind = atoi(o.get("kind", "-1").c_str());  // 0: span processor only, 1: log processor only
  o.fork_per_exec = true;
  o.split_depth = 2;
  o.horizon = 20000;
  bool th = o.thorough;
  o.cap[vf::PREEMPT] = atoi(o.get("k", th ? "3" : "2").c_str());
  o.cap[vf::TIMER] = atoi(o.get("t", th ? "1" : "0").c_str());
  o.cap[vf::CAS] = atoi(o.get("c", th ? "1" : "0").c_str());
  o.cap[vf::WAKE] = atoi(o.get("w", "0").c_str());
  o.table_bits = th ? 26 : 24;
  o.deadline_s = atof(o.get("budget", th ? "1500" : "120").c_str());
  g_overlap_matters = g_oracle == "C03";
  // --cfgset: which configuration sets to explore (default: the one written for the oracle's own property);
  // "C02,C03" etc. let one property's predicates judge the configurations that were written to stress another
  std::string cfgsets = "," + o.get("cfgset", g_oracle) + ",";
  auto want = [&](const char *id) { return cfgsets.find(std::string(",") + id + ",") != std::string::npos; };
  Cfg z{};  // all zero
  for (int kind = 0; kind < 2; ++kind) {
    if (only_kind >= 0 && kind != only_kind) continue;
    Cfg b = z; b.kind = kind;
    if (want("C01")) {
      // {Q,B}: the queue is smaller than / equal to / larger than what is produced
      int qb[][2] = {{1, 1}, {2, 1}, {2, 2}, {4, 2}};
      for (auto &q : qb) {
        if (!th && q[0] == 4) continue;
        Cfg c = b; c.Q = q[0]; c.B = q[1]; c.P = 2; c.n = 2; c.ctor = q[0] == 2; add_cfg(c);
        if (th) { Cfg d = c; d.P = 3; d.n = 1; add_cfg(d); d.P = 2; d.n = 3; add_cfg(d); }
      }
      { Cfg c = b; c.Q = 2; c.B = 1; c.P = 2; c.n = 1; c.latency = 1; add_cfg(c); }     // slow exporter
      { Cfg c = b; c.Q = 2; c.B = 2; c.P = 2; c.n = 1; c.gate = 1; add_cfg(c); }        // producers never wait for the exporter
      { Cfg c = b; c.Q = 1; c.B = 1; c.P = 1; c.n = 3; c.gate = 1; add_cfg(c); }        // ... nor when the queue is full while Export is parked
      { Cfg c = b; c.Q = 1; c.B = 1; c.P = 1; c.n = 3; c.latency = 1; add_cfg(c); }     // ... or slow
      if (th) { Cfg c = b; c.Q = 1; c.B = 1; c.P = 2; c.n = 2; c.gate = 1; add_cfg(c); }
      { Cfg c = b; c.Q = 2; c.B = 1; c.P = 1; c.n = 2; c.F = 1; c.second = 1; add_cfg(c); }  // <= Q records between two completed flushes
      { Cfg c = b; c.Q = 2; c.B = 1; c.P = 1; c.n = 1; c.latency = 1; c.inflight = 1; c.second = 1; add_cfg(c); }  // ... the first flush called while an export is in flight
      if (th) { Cfg c = b; c.Q = 4; c.B = 2; c.P = 1; c.n = 3; c.F = 1; c.second = 1; c.ctor = 1; add_cfg(c); }
      { Cfg c = b; c.Q = 1; c.B = 1; c.P = 2; c.n = 1; c.S = 1; add_cfg(c); }           // shutdown racing producers
      if (th) { Cfg c = b; c.Q = 3; c.B = 2; c.P = 2; c.n = 3; add_cfg(c); }            // partial consumption across the wrap-around seam
    }
    if (want("C03")) {
      { Cfg c = b; c.Q = 4; c.B = 2; c.P = 2; c.n = 2; add_cfg(c); }
      { Cfg c = b; c.Q = 4; c.B = 1; c.P = 1; c.n = 3; c.F = 1; add_cfg(c); }
      { Cfg c = b; c.Q = 4; c.B = 2; c.P = 1; c.n = 3; c.preflush = 1; c.ctor = 1; add_cfg(c); }    // history with a completed earlier flush
      { Cfg c = b; c.Q = 3; c.B = 1; c.P = 2; c.n = 1; c.S = 1; add_cfg(c); }           // drain path
      if (th) { Cfg c = b; c.Q = 4; c.B = 2; c.P = 2; c.n = 2; c.F = 1; c.S = 1; add_cfg(c); }
    }
    if (want("C02")) {  // queue always large enough for everything
      { Cfg c = b; c.Q = 8; c.B = 2; c.P = 1; c.n = 2; c.F = 1; c.tail = 1; add_cfg(c); }
      { Cfg c = b; c.Q = 8; c.B = 1; c.P = 2; c.n = 1; c.F = 1; c.ctor = 1; add_cfg(c); }   // a record arrives while the worker is inside an export cycle
      { Cfg c = b; c.Q = 8; c.B = 8; c.P = 1; c.n = 1; c.F = 2; c.heavy = 1; add_cfg(c); }
      { Cfg c = b; c.Q = 8; c.B = 2; c.P = 1; c.n = 2; c.S = 2; c.tail = 2; add_cfg(c); }
      { Cfg c = b; c.Q = 8; c.B = 2; c.P = 1; c.n = 1; c.F = 1; c.S = 1; add_cfg(c); }
      { Cfg c = b; c.Q = 8; c.B = 2; c.P = 1; c.n = 2; c.F = 1; c.latency = 1; c.ff_timeout = 1; add_cfg(c); }  // flush times out
      { Cfg c = b; c.Q = 8; c.B = 2; c.P = 1; c.n = 1; c.F = 1; c.latency = 2; c.ff_timeout = 2; add_cfg(c); }
      { Cfg c = b; c.Q = 8; c.B = 2; c.P = 1; c.n = 1; c.F = 1; c.ff_timeout = 3; c.destroy = 1; add_cfg(c); }
      { Cfg c = b; c.Q = 8; c.B = 2; c.P = 1; c.n = 2; c.F = 1; c.xfail = 7; c.tail = 1; add_cfg(c); }          // failing exporter
      // Shutdown with a zero / finite timeout still drains everything, also behind a slow exporter
      { Cfg c = b; c.Q = 8; c.B = 1; c.P = 1; c.n = 2; c.latency = 1; c.sd_timeout = 2; c.tail = 1; add_cfg(c); }
      { Cfg c = b; c.Q = 8; c.B = 2; c.P = 1; c.n = 1; c.S = 2; c.sd_timeout = 1; add_cfg(c); }
      { Cfg c = b; c.Q = 8; c.B = 2; c.P = 1; c.n = 1; c.F = 1; c.ff_timeout = 1; c.latency = 1; c.S = 1; c.sd_timeout = 3; add_cfg(c); }  // a flush timing out while the drain serves its ticket
      { Cfg c = b; c.Q = 8; c.B = 2; c.P = 2; c.n = 2; c.destroy = 1; add_cfg(c); }                             // destruction with work queued by two producers
      if (th) {
        { Cfg c = b; c.Q = 8; c.B = 2; c.P = 2; c.n = 1; c.F = 2; c.S = 2; c.heavy = 1; add_cfg(c); }
        { Cfg c = b; c.Q = 8; c.B = 1; c.P = 1; c.n = 2; c.F = 1; c.latency = 3; c.S = 2; add_cfg(c); }
        { Cfg c = b; c.Q = 8; c.B = 2; c.P = 1; c.n = 2; c.F = 2; c.latency = 1; c.ff_timeout = 2; c.heavy = 1; add_cfg(c); }
        { Cfg c = b; c.Q = 8; c.B = 2; c.P = 1; c.n = 1; c.F = 2; c.latency = 1; c.ff_timeout = 0; c.fft2 = 2; c.heavy = 1; add_cfg(c); }  // an unbounded and a short-timeout flusher together
      }
    }
  }
  std::string set = o.get("set");
  if (!set.empty()) {
    std::vector<Cfg> keep;
    for (auto &c : g_cfgs) if ((set == "heavy") == (c.heavy != 0)) keep.push_back(c);
    g_cfgs = keep;
  }
  std::string only = o.get("cfg");
  if (!only.empty()) { Cfg c = g_cfgs[atoi(only.c_str())]; g_cfgs.assign(1, c); }
}

void run(vf::Ctx &c) {
  const Cfg &cfg = g_cfgs[c.pick("config", (int)g_cfgs.size())];
  if (cfg.kind == 0) run_cfg<SpanTr>(c, cfg);
  else run_cfg<LogTr>(c, cfg);
}

}  // namespace

VF_MAIN("batch", "C01", setup, run)
