// C15 (c): a CompositePropagator injects with every configured propagator and extracts by threading
// the context through all of them in order (Engine B).
// Every ordered subset (up to the size bound) of the five built-in propagators {W3C HttpTraceContext,
// B3 single header, B3 multi header, Jaeger, Baggage} is wrapped in a real CompositePropagator.
//   Inject : for every context of the alphabet and an empty / pre-filled carrier, the carrier after
//            composite.Inject equals the initial carrier overlaid with the union of what the individual
//            propagators inject on their own, and the sequence of carrier Set calls is the
//            concatenation of theirs.
//   Extract: for every carrier of {absent, valid, invalid}^5 header groups (all groups carry different
//            ids, so the order of application is visible) and every caller context, the result is
//            observationally equal to folding the individual Extracts in order over the same carrier,
//            the carrier Get calls are the concatenation of theirs, the caller's context is unchanged,
//            and the caller's context itself comes back iff the fold returns it.
//   Fields : the composite's Fields() with a callback that returns false at its k-th call (every k, and never)
//            against the concatenation of the parts' field lists and the documented return value; each part's
//            field list against the keys its Inject writes; every key the composite's Inject writes is a field.
// The individual propagators are the reference: their own correctness is C09 / C16 / C15(a,b).
#include <algorithm>

#include <opentelemetry/context/propagation/composite_propagator.h>
#include <opentelemetry/trace/propagation/b3_propagator.h>
#include <opentelemetry/trace/propagation/http_trace_context.h>
#include <opentelemetry/trace/propagation/jaeger.h>
#include <opentelemetry/trace/span_context.h>

#include "c15_common.h"

using namespace c15;
namespace bg = opentelemetry::baggage;
namespace tr = opentelemetry::trace;
using ctxns::propagation::TextMapPropagator;

namespace {

const char *kPropName[5] = {"W3C", "B3", "B3Multi", "Jaeger", "Baggage"};
std::unique_ptr<TextMapPropagator> make_prop(int i) {
  switch (i) {
    case 0: return std::unique_ptr<TextMapPropagator>(new tr::propagation::HttpTraceContext());
    case 1: return std::unique_ptr<TextMapPropagator>(new tr::propagation::B3Propagator());
    case 2: return std::unique_ptr<TextMapPropagator>(new tr::propagation::B3PropagatorMultiHeader());
    case 3: return std::unique_ptr<TextMapPropagator>(new tr::propagation::JaegerPropagator());
    default: return std::unique_ptr<TextMapPropagator>(new bg::propagation::BaggagePropagator());
  }
}

std::vector<std::vector<int>> g_subsets;
void gen_subsets(std::vector<int> &cur, unsigned used, int maxsize) {
  g_subsets.push_back(cur);
  if ((int)cur.size() == maxsize) return;
  for (int i = 0; i < 5; ++i)
    if (!(used & (1u << i))) { cur.push_back(i); gen_subsets(cur, used | (1u << i), maxsize); cur.pop_back(); }
}
std::string subset_name(const std::vector<int> &s) {
  std::string r = "[";
  for (size_t i = 0; i < s.size(); ++i) r += (i ? "," : "") + std::string(kPropName[s[i]]);
  return r + "]";
}

void setup(vf::Options &o) {
  o.split_depth = 2;
  o.deadline_s = o.thorough ? 600 : 100;
  std::vector<int> cur;
  gen_subsets(cur, 0, o.thorough ? 5 : 3);
  std::stable_sort(g_subsets.begin(), g_subsets.end(), [](const std::vector<int> &a, const std::vector<int> &b) { return a.size() < b.size(); });
}

tr::TraceId tid(const char *hex) { uint8_t b[16]; for (int i = 0; i < 16; ++i) b[i] = (uint8_t)(hexval(hex[2 * i]) * 16 + hexval(hex[2 * i + 1])); return tr::TraceId(b); }
tr::SpanId sid(const char *hex) { uint8_t b[8]; for (int i = 0; i < 8; ++i) b[i] = (uint8_t)(hexval(hex[2 * i]) * 16 + hexval(hex[2 * i + 1])); return tr::SpanId(b); }

ctxns::Context with_span(ctxns::Context ctx, const char *t, const char *s, uint8_t flags, const char *tracestate) {
  tr::SpanContext sc(tid(t), sid(s), tr::TraceFlags(flags), false, tracestate ? tr::TraceState::FromHeader(tracestate) : tr::TraceState::GetDefault());
  nostd::shared_ptr<tr::Span> sp(new tr::DefaultSpan(sc));
  return tr::SetSpan(ctx, sp);
}
ctxns::Context with_baggage(ctxns::Context ctx, const List &l) {
  nostd::shared_ptr<Baggage> b(new Baggage());
  for (size_t i = l.size(); i-- > 0;) b = b->Set(l[i].first, l[i].second);
  return bg::SetBaggage(ctx, b);
}

constexpr int kInjectContexts = 8;
ctxns::Context inject_context(int i) {
  ctxns::Context c;
  const char *T = "0102030405060708090a0b0c0d0e0f10", *S = "1112131415161718", *Z = "00000000000000000000000000000000";
  switch (i) {
    case 0: return c;
    case 1: return with_span(c, T, S, 0x01, nullptr);
    case 2: return with_span(c, T, S, 0x00, "k1=v1,k2=v2");
    case 3: return with_baggage(c, {{"a", "1"}, {"k y", "v;m"}});
    case 4: return with_baggage(with_span(c, T, S, 0x01, "k1=v1"), {{"a", "1"}});
    case 5: return with_baggage(with_span(c, Z, S, 0x01, nullptr), {{"a", "1"}});
    case 6: return with_baggage(with_span(c, T, S, 0xff, nullptr), {});
    default: return with_span(with_baggage(c, {{"x", "=,;"}}), T, "0000000000000000", 0x01, nullptr);
  }
}

const char *kAllKeys[] = {"traceparent", "tracestate", "b3", "X-B3-TraceId", "X-B3-SpanId", "X-B3-Sampled", "uber-trace-id", "baggage"};

// header group g in {W3C, b3 single, b3 multi, jaeger, baggage}, variant 1 = valid, 2 = invalid
void put_group(Carrier &car, int g, int variant) {
  if (variant == 0) return;
  bool ok = variant == 1;
  switch (g) {
    case 0:
      car.put("traceparent", ok ? "00-0af7651916cd43dd8448eb211c80319c-b7ad6b7169203331-01" : "00-00000000000000000000000000000000-b7ad6b7169203331-01");
      car.put("tracestate", "congo=t61rcWkgMzE");
      break;
    case 1: car.put("b3", ok ? "80f198ee56343ba864fe8b2a57d3eff7-e457b5a2e4d86bd1-1" : "xyz"); break;
    case 2:
      car.put("X-B3-TraceId", ok ? "463ac35c9f6413ad48485a3953bb6124" : "nothex");
      car.put("X-B3-SpanId", "0020000000000001");
      car.put("X-B3-Sampled", "0");
      break;
    case 3: car.put("uber-trace-id", ok ? "4bf92f3577b34da6a3ce929d0e0e4736:00f067aa0ba902b7:0:01" : "1:2:3"); break;
    default: car.put("baggage", ok ? "k1=v1,k+2=v%3D2;meta" : "%zz=1,novalue"); break;
  }
}

std::string hex(const uint8_t *p, size_t n) { std::string s; for (size_t i = 0; i < n; ++i) s += vf::sfmt("%02x", p[i]); return s; }

// everything a user can observe of a context that the built-in propagators touch
std::string observe(const ctxns::Context &ctx) {
  tr::SpanContext sc = tr::GetSpan(ctx)->GetContext();
  std::string s = "span{" + hex(sc.trace_id().Id().data(), 16) + "-" + hex(sc.span_id().Id().data(), 8) + vf::sfmt("-%02x remote=%d valid=%d ts='", sc.trace_flags().flags(), (int)sc.IsRemote(), (int)sc.IsValid()) +
                  sc.trace_state()->ToHeader() + "'}";
  s += vf::sfmt(" haskey(span)=%d haskey(baggage)=%d", (int)ctx.HasKey(tr::kSpanKey), (int)ctx.HasKey(bg::kBaggageHeader));
  s += " baggage" + show(entries(*bg::GetBaggage(ctx)), 400);
  auto v = ctx.GetValue("other");
  s += nostd::holds_alternative<int64_t>(v) ? vf::sfmt(" other=%lld", (long long)nostd::get<int64_t>(v)) : std::string(" other=-");
  return s;
}

std::string join(const std::vector<std::string> &v) { std::string s; for (auto &x : v) s += x + " "; return s; }

std::vector<std::string> fields_of(const TextMapPropagator &p) {
  std::vector<std::string> f;
  p.Fields([&](nostd::string_view k) noexcept { f.emplace_back(k.data(), k.size()); return true; });
  return f;
}

void run_inject(vf::Ctx &c, const std::vector<int> &subset) {
  int ci = c.pick("context", kInjectContexts);
  int prefilled = c.pick("carrier", 2);
  ctxns::Context ctx = inject_context(ci);
  std::string before = observe(ctx);
  std::vector<std::unique_ptr<TextMapPropagator>> ps;
  for (int i : subset) ps.push_back(make_prop(i));
  ctxns::propagation::CompositePropagator comp(std::move(ps));
  Carrier car;
  std::map<std::string, std::string> want;
  if (prefilled) for (const char *k : kAllKeys) { car.put(k, "stale"); want[k] = "stale"; }
  c.stage("composite.Inject");
  comp.Inject(car, ctx);
  c.step();
  // reference: the individual injections, each into its own empty carrier
  std::vector<std::string> want_log;
  std::string parts;
  for (int i : subset) {
    c.stage("individual.Inject");
    Carrier one;
    make_prop(i)->Inject(one, ctx);
    for (auto &e : one.plain) {
      if (want.count(e.first) && want[e.first] != "stale" && want[e.first] != e.second)
        c.counted("inject_same_key_written_twice");  // not expected for the built-in propagators
      want[e.first] = e.second;
    }
    want_log.insert(want_log.end(), one.log.begin(), one.log.end());
    parts += std::string(kPropName[i]) + "{" + one.dump() + "} ";
  }
  auto desc = [&]() { return "composite " + subset_name(subset) + vf::sfmt(" Inject of context #%d (%s) into %s carrier", ci, before.c_str(), prefilled ? "a pre-filled" : "an empty"); };
  if (car.plain != want)
    c.fail("C15:composite:inject-differs-from-union", desc() + " left { " + car.dump() + "}, the individual propagators write " + parts);
  if (car.log != want_log)
    c.fail("C15:composite:inject-order", desc() + " called " + join(car.log) + ", the individual propagators in order call " + join(want_log));
  if (observe(ctx) != before) c.fail("C15:composite:inject-modified-context", desc() + " changed the context to " + observe(ctx));
  // every key written is one of the composite's Fields() ("fields set to carrier by `inject` method")
  {
    std::vector<std::string> fl = fields_of(comp);
    for (auto &l : car.log)
      if (l.compare(0, 2, "S:") == 0 && std::find(fl.begin(), fl.end(), l.substr(2)) == fl.end())
        c.fail("C15:composite:inject-key-not-in-fields", desc() + " wrote the key '" + l.substr(2) + "', Fields() reports { " + join(fl) + "}");
  }
  c.state("inj|" + car.dump());
  c.outcome("inj|" + car.dump());
  if (subset.size() == 2 && ci == 4) c.sample(desc() + " => { " + car.dump() + "}");
}

void run_extract(vf::Ctx &c, const std::vector<int> &subset) {
  int code = c.pick("carrier", 243);
  int bi = c.pick("base", 3);
  ctxns::Context base;
  if (bi >= 1) base = base.SetValue("other", (int64_t)7);
  if (bi == 2) base = with_baggage(with_span(base, "a1a2a3a4a5a6a7a8a9aaabacadaeafb0", "b1b2b3b4b5b6b7b8", 0x01, "base=1"), {{"old", "1"}});
  std::string base_before = observe(base);
  Carrier car, car2;
  std::string variants;
  for (int g = 0, x = code; g < 5; ++g, x /= 3) { put_group(car, g, x % 3); put_group(car2, g, x % 3); variants += "012"[x % 3]; }
  std::vector<std::unique_ptr<TextMapPropagator>> ps;
  for (int i : subset) ps.push_back(make_prop(i));
  ctxns::propagation::CompositePropagator comp(std::move(ps));
  c.stage("composite.Extract");
  ctxns::Context out = comp.Extract(car, base);
  c.step();
  // reference: fold of the individual Extracts, in order, over the same carrier content
  c.stage("individual.Extract");
  ctxns::Context acc = base;
  bool fold_is_base = true;
  for (int i : subset) {
    ctxns::Context next = make_prop(i)->Extract(car2, acc);
    if (!(next == acc)) fold_is_base = false;
    acc = next;
  }
  car.scribble_all();
  car2.scribble_all();
  std::string got = observe(out), want = observe(acc);
  auto desc = [&]() {
    return "composite " + subset_name(subset) + " Extract from carrier {W3C,b3,b3multi,jaeger,baggage}=" + variants + " (0 absent,1 valid,2 invalid) into base #" + vf::sfmt("%d", bi);
  };
  if (got != want) c.fail("C15:composite:extract-differs-from-fold", desc() + " gave " + got + ", folding the individual propagators gives " + want);
  if (car.log != car2.log) c.fail("C15:composite:extract-order", desc() + " read " + join(car.log) + ", the individual propagators in order read " + join(car2.log));
  if ((out == base) != fold_is_base)
    c.fail("C15:composite:extract-context-identity", desc() + vf::sfmt(": composite returned the caller's context: %d, fold: %d", (int)(out == base), (int)fold_is_base));
  if (observe(base) != base_before) c.fail("C15:composite:extract-modified-context", desc() + " changed the caller's context to " + observe(base));
  c.state("ext|" + got);
  c.outcome("ext|" + got);
  if (subset.size() == 2 && code == 121 && bi == 0) c.sample(desc() + " => " + got);
}

// Fields(). Documented (text_map_propagator.h): "Gets the fields set in the carrier by the `inject` method";
// composite_propagator.h: "Invoke callback with fields set to carrier by `inject` method for all the configured
// propagators. Returns true if all invocation return true".
//   individual propagators: the set of reported fields = the set of keys Inject writes for the context that has
//     everything (sampled span + trace state + baggage);
//   composite: with a callback that returns false at its call #k (k = 0..N-1, and never): the calls are the
//     concatenation of the parts' field lists, in order, at least up to and including call #k, all N when the
//     callback never returns false; the result is true iff no call returned false.
//   Not documented, counted only: whether further calls follow one that returned false, and which.
void run_fields(vf::Ctx &c, const std::vector<int> &subset) {
  std::vector<std::string> want;
  ctxns::Context full = inject_context(4);
  for (int i : subset) {
    c.stage("individual.Fields");
    auto p = make_prop(i);
    std::vector<std::string> f = fields_of(*p);
    Carrier one;
    p->Inject(one, full);
    std::vector<std::string> fs = f, ks;
    for (auto &e : one.plain) ks.push_back(e.first);
    std::sort(fs.begin(), fs.end());
    if (fs != ks || std::adjacent_find(fs.begin(), fs.end()) != fs.end())
      c.fail(std::string("C15:fields:differ-from-inject:") + kPropName[i],
             std::string(kPropName[i]) + ".Fields reports { " + join(f) + "}, Inject of a context with a sampled span, trace state and baggage writes { " + one.dump() + "}");
    want.insert(want.end(), f.begin(), f.end());
  }
  const int N = (int)want.size();
  const int k = c.pick("false-at-call", N + 1);  // N: never
  std::vector<std::unique_ptr<TextMapPropagator>> ps;
  for (int i : subset) ps.push_back(make_prop(i));
  ctxns::propagation::CompositePropagator comp(std::move(ps));
  c.stage("composite.Fields");
  std::vector<std::string> calls;
  bool ret = comp.Fields([&](nostd::string_view key) noexcept {
    calls.emplace_back(key.data(), key.size());
    return (int)calls.size() - 1 != k;
  });
  c.step();
  auto desc = [&]() { return "composite " + subset_name(subset) + (k < N ? vf::sfmt(".Fields with a callback returning false at call #%d", k) : std::string(".Fields with a callback that always returns true")); };
  // judged: the calls up to and including the first one that returned false (all of them, and no more, when none did)
  size_t least = (size_t)std::min(k + 1, N);
  bool ok = calls.size() >= least && std::equal(want.begin(), want.begin() + (long)least, calls.begin()) && (k < N || calls.size() == want.size());
  if (!ok)
    c.fail(k < N ? "C15:composite:fields-before-stop" : "C15:composite:fields-differ-from-concatenation",
           desc() + " reported { " + join(calls) + "}, the configured propagators in order report { " + join(want) + "}");
  if (ret != (k >= N))
    c.fail("C15:composite:fields-return-value", desc() + vf::sfmt(" returned %d after %zu calls { ", (int)ret, calls.size()) + join(calls) + "}; documented: true if all invocations return true");
  if (k < N) c.counted(calls.size() == (size_t)k + 1 ? "fields_stop_after_false" : "fields_continue_after_false");
  c.state("fld|" + join(calls) + (ret ? "|1" : "|0"));
  c.outcome("fld|" + join(calls) + (ret ? "|1" : "|0"));
  if (subset.size() == 2 && k == 1) c.sample(desc() + " => { " + join(calls) + vf::sfmt("} returned %d", (int)ret));
}

void run(vf::Ctx &c) {
  const std::vector<int> &subset = g_subsets[c.pick("subset", (int)g_subsets.size())];
  switch (c.pick("direction", 3)) {
    case 0: run_inject(c, subset); break;
    case 1: run_extract(c, subset); break;
    default: run_fields(c, subset); break;
  }
}

}  // namespace

VF_MAIN("c15_composite", "C15", setup, run)
