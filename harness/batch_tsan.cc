// Auxiliary free-running pass (DESIGN 2.7) for the Engine-A checks of C01/C02/C03/C06: the same kind
// of bodies on real threads, no shim, under ThreadSanitizer, to look for unsynchronised non-atomic
// accesses that the sequentially consistent, serialising scheduler cannot see.  Sampling; reported as
// an assumption check.
#include <opentelemetry/sdk/common/global_log_handler.h>
#include <opentelemetry/sdk/logs/batch_log_record_processor.h>
#include <opentelemetry/sdk/logs/exporter.h>
#include <opentelemetry/sdk/logs/simple_log_record_processor.h>
#include <opentelemetry/sdk/metrics/export/periodic_exporting_metric_reader.h>
#include <opentelemetry/sdk/metrics/export/periodic_exporting_metric_reader_options.h>
#include <opentelemetry/sdk/metrics/meter_provider.h>
#include <opentelemetry/sdk/metrics/push_metric_exporter.h>
#include <opentelemetry/sdk/metrics/metric_reader.h>
#include <opentelemetry/sdk/metrics/view/view_registry.h>
#include <opentelemetry/sdk/resource/resource.h>
#include <opentelemetry/sdk/trace/batch_span_processor.h>
#include <opentelemetry/sdk/trace/batch_span_processor_options.h>
#include <opentelemetry/sdk/trace/exporter.h>
#include <opentelemetry/sdk/trace/simple_processor.h>

#include <atomic>
#include <cstdio>
#include <thread>
#include <vector>

#include "stub_recordables.h"

namespace nostd = opentelemetry::nostd;
namespace sdkc = opentelemetry::sdk::common;
namespace sdkt = opentelemetry::sdk::trace;
namespace sdkl = opentelemetry::sdk::logs;
namespace sdkm = opentelemetry::sdk::metrics;
using namespace std::chrono;

static std::atomic<long> g_exported{0};

template <class Base, class Rec, class RecBase>
struct Exp final : Base {
  long plain = 0;  // deliberately non-atomic: Export must never run concurrently on one exporter
  std::unique_ptr<RecBase> MakeRecordable() noexcept override { return std::unique_ptr<RecBase>(new Rec()); }
  sdkc::ExportResult Export(const nostd::span<std::unique_ptr<RecBase>> &b) noexcept override { plain += (long)b.size(); g_exported += (long)b.size(); return sdkc::ExportResult::kSuccess; }
  bool ForceFlush(microseconds) noexcept override { return true; }
  bool Shutdown(microseconds) noexcept override { return true; }
};
struct Reader final : sdkm::MetricReader {
  sdkm::AggregationTemporality t;
  explicit Reader(sdkm::AggregationTemporality x) : t(x) {}
  sdkm::AggregationTemporality GetAggregationTemporality(sdkm::InstrumentType) const noexcept override { return t; }
  bool OnForceFlush(microseconds) noexcept override { return true; }
  bool OnShutDown(microseconds) noexcept override { return true; }
};

struct PushExp final : sdkm::PushMetricExporter {
  long plain = 0;  // deliberately non-atomic: Export must never run concurrently on one exporter
  sdkc::ExportResult Export(const sdkm::ResourceMetrics &d) noexcept override { plain += (long)d.scope_metric_data_.size() + 1; g_exported++; return sdkc::ExportResult::kSuccess; }
  sdkm::AggregationTemporality GetAggregationTemporality(sdkm::InstrumentType) const noexcept override { return sdkm::AggregationTemporality::kCumulative; }
  bool ForceFlush(microseconds) noexcept override { return true; }  // may run concurrently with Export (C03 only orders Export against Export)
  bool Shutdown(microseconds) noexcept override { return true; }
};

int main(int argc, char **argv) {
  opentelemetry::sdk::common::internal_log::GlobalLogHandler::SetLogLevel(opentelemetry::sdk::common::internal_log::LogLevel::None);
  int iters = argc > 1 ? atoi(argv[1]) : 40;
  for (int it = 0; it < iters; ++it) {
    {
      sdkt::BatchSpanProcessorOptions o;
      o.max_queue_size = 1 + it % 4; o.max_export_batch_size = 1 + it % 2; o.schedule_delay_millis = milliseconds(2);
      if (o.max_export_batch_size > o.max_queue_size) o.max_export_batch_size = o.max_queue_size;
      sdkt::BatchSpanProcessor p(std::unique_ptr<sdkt::SpanExporter>(new Exp<sdkt::SpanExporter, vfstub::SpanRec, sdkt::Recordable>()), o);
      std::vector<std::thread> ts;
      for (int t = 0; t < 3; ++t) ts.emplace_back([&] { for (int i = 0; i < 6; ++i) p.OnEnd(std::unique_ptr<sdkt::Recordable>(new vfstub::SpanRec())); });
      ts.emplace_back([&] { p.ForceFlush(milliseconds(50)); });
      if (it % 3 == 0) ts.emplace_back([&] { p.Shutdown(); });
      for (auto &t : ts) t.join();
      p.Shutdown();
    }
    {
      sdkl::BatchLogRecordProcessor p(std::unique_ptr<sdkl::LogRecordExporter>(new Exp<sdkl::LogRecordExporter, vfstub::LogRec, sdkl::Recordable>()), 1 + it % 4, milliseconds(2), 1);
      std::vector<std::thread> ts;
      for (int t = 0; t < 3; ++t) ts.emplace_back([&] { for (int i = 0; i < 6; ++i) p.OnEmit(std::unique_ptr<sdkl::Recordable>(new vfstub::LogRec())); });
      ts.emplace_back([&] { p.ForceFlush(milliseconds(50)); });
      for (auto &t : ts) t.join();
    }
    {
      sdkt::SimpleSpanProcessor p(std::unique_ptr<sdkt::SpanExporter>(new Exp<sdkt::SpanExporter, vfstub::SpanRec, sdkt::Recordable>()));
      std::vector<std::thread> ts;
      for (int t = 0; t < 3; ++t) ts.emplace_back([&] { for (int i = 0; i < 6; ++i) p.OnEnd(std::unique_ptr<sdkt::Recordable>(new vfstub::SpanRec())); });
      for (auto &t : ts) t.join();
    }
    {
      sdkm::MeterProvider provider(std::unique_ptr<sdkm::ViewRegistry>(new sdkm::ViewRegistry()), opentelemetry::sdk::resource::Resource::GetEmpty());
      std::shared_ptr<sdkm::MetricReader> r1(new Reader(sdkm::AggregationTemporality::kDelta)), r2(new Reader(sdkm::AggregationTemporality::kCumulative));
      provider.AddMetricReader(r1);
      provider.AddMetricReader(r2);
      auto meter = provider.GetMeter("m", "1");
      auto counter = meter->CreateUInt64Counter("c");
      std::vector<std::thread> ts;
      for (int t = 0; t < 2; ++t) ts.emplace_back([&, t] { for (int i = 0; i < 20; ++i) counter->Add(1, {{"a", (int32_t)(i % 2)}}); });
      ts.emplace_back([&] { for (int i = 0; i < 5; ++i) r1->Collect([](sdkm::ResourceMetrics &) { return true; }); });
      ts.emplace_back([&] { for (int i = 0; i < 5; ++i) r2->Collect([](sdkm::ResourceMetrics &) { return true; }); });
      for (auto &t : ts) t.join();
    }
    {
      sdkl::SimpleLogRecordProcessor p(std::unique_ptr<sdkl::LogRecordExporter>(new Exp<sdkl::LogRecordExporter, vfstub::LogRec, sdkl::Recordable>()));
      std::vector<std::thread> ts;
      for (int t = 0; t < 3; ++t) ts.emplace_back([&] { for (int i = 0; i < 6; ++i) p.OnEmit(std::unique_ptr<sdkl::Recordable>(new vfstub::LogRec())); });
      ts.emplace_back([&] { p.ForceFlush(milliseconds(50)); });
      if (it % 2 == 0) ts.emplace_back([&] { p.Shutdown(); });
      for (auto &t : ts) t.join();
    }
    {
      // periodic reader behind a provider: timer-driven cycles racing ForceFlush callers, recorders and Shutdown
      sdkm::MeterProvider provider(std::unique_ptr<sdkm::ViewRegistry>(new sdkm::ViewRegistry()), opentelemetry::sdk::resource::Resource::GetEmpty());
      sdkm::PeriodicExportingMetricReaderOptions o;
      o.export_interval_millis = milliseconds(3);
      o.export_timeout_millis = milliseconds(2);
      provider.AddMetricReader(std::shared_ptr<sdkm::MetricReader>(new sdkm::PeriodicExportingMetricReader(std::unique_ptr<sdkm::PushMetricExporter>(new PushExp()), o)));
      auto meter = provider.GetMeter("m", "1");
      auto counter = meter->CreateUInt64Counter("c");
      std::vector<std::thread> ts;
      for (int t = 0; t < 2; ++t) ts.emplace_back([&] { for (int i = 0; i < 20; ++i) counter->Add(1); });
      for (int t = 0; t < 2; ++t) ts.emplace_back([&] { provider.ForceFlush(milliseconds(50)); });
      if (it % 2 == 0) ts.emplace_back([&] { provider.Shutdown(); });
      for (auto &t : ts) t.join();
      provider.Shutdown();
    }
  }
  printf("tsan pass: %d iterations, %ld records exported\n", iters, g_exported.load());
  return 0;
}
