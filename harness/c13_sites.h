// C13: compile-time generated call sites of the variadic Logger::EmitLogRecord(args...).
// An argument list is an ordered selection of distinct argument kinds; site (N, I) passes the kinds given by
// the N base-9 digits of I, left to right. Tables are indexed by I; entries whose digits repeat are null.
#pragma once
#include <array>
#include <utility>

#include <opentelemetry/common/attribute_value.h>
#include <opentelemetry/common/key_value_iterable.h>
#include <opentelemetry/common/timestamp.h>
#include <opentelemetry/logs/event_id.h>
#include <opentelemetry/logs/logger.h>
#include <opentelemetry/logs/severity.h>
#include <opentelemetry/trace/span_context.h>

namespace c13 {

enum Kind { K_SEV = 0, K_BODY, K_ATTR, K_TS, K_EV, K_CTX, K_TID, K_SID, K_FLG, NK };

// The caller-side argument objects of one emit; every one is passed as an lvalue of exactly this type.
struct EmitArgs {
  opentelemetry::logs::Severity sev;
  opentelemetry::common::AttributeValue body;
  const opentelemetry::common::KeyValueIterable *attrs;
  opentelemetry::common::SystemTimestamp ts;
  opentelemetry::logs::EventId *ev;
  opentelemetry::trace::SpanContext ctx = opentelemetry::trace::SpanContext::GetInvalid();
  opentelemetry::trace::TraceId tid;
  opentelemetry::trace::SpanId sid;
  opentelemetry::trace::TraceFlags flg;
};

using SiteFn = void (*)(opentelemetry::logs::Logger &, EmitArgs &);

constexpr int ipow(int b, int e) { return e == 0 ? 1 : b * ipow(b, e - 1); }
constexpr int digit(int n, int i, int j) {  // j-th digit from the left of the n-digit base-NK number i
  for (int t = 0; t < n - 1 - j; ++t) i /= NK;
  return i % NK;
}
constexpr bool distinct(int n, int i) {
  for (int a = 0; a < n; ++a)
    for (int b = a + 1; b < n; ++b)
      if (digit(n, i, a) == digit(n, i, b)) return false;
  return true;
}

template <int K>
decltype(auto) arg(EmitArgs &a) {
  if constexpr (K == K_SEV) return (a.sev);
  else if constexpr (K == K_BODY) return (a.body);
  else if constexpr (K == K_ATTR) return (*a.attrs);
  else if constexpr (K == K_TS) return (a.ts);
  else if constexpr (K == K_EV) return (*a.ev);
  else if constexpr (K == K_CTX) return (a.ctx);
  else if constexpr (K == K_TID) return (a.tid);
  else if constexpr (K == K_SID) return (a.sid);
  else return (a.flg);
}

// REC = false: logger.EmitLogRecord(args...)      REC = true: logger.EmitLogRecord(logger.CreateLogRecord(), args...)
template <bool REC, int N, int I, size_t... J>
void site_call(opentelemetry::logs::Logger &l, EmitArgs &a, std::index_sequence<J...>) {
  if constexpr (REC) l.EmitLogRecord(l.CreateLogRecord(), arg<digit(N, I, (int)J)>(a)...);
  else l.EmitLogRecord(arg<digit(N, I, (int)J)>(a)...);
}
template <bool REC, int N, int I>
void site(opentelemetry::logs::Logger &l, EmitArgs &a) {
  site_call<REC, N, I>(l, a, std::make_index_sequence<N>{});
}
template <bool REC, int N, int I>
constexpr SiteFn site_or_null() {
  if constexpr (distinct(N, I)) return &site<REC, N, I>;
  else return nullptr;
}
template <bool REC, int N, int BASE, size_t... I>
constexpr std::array<SiteFn, sizeof...(I)> make_table(std::index_sequence<I...>) {
  return {{site_or_null<REC, N, BASE + (int)I>()...}};
}

// four-argument sites are compiled in three separate translation units (first digit 0-2, 3-5, 6-8)
constexpr int kSites4PerPart = 3 * 9 * 9 * 9;
const SiteFn *sites4_part0();
const SiteFn *sites4_part1();
const SiteFn *sites4_part2();
inline SiteFn site4(int i) {
  const SiteFn *t = i < kSites4PerPart ? sites4_part0() : i < 2 * kSites4PerPart ? sites4_part1() : sites4_part2();
  return t[i % kSites4PerPart];
}

}  // namespace c13
