// C13: an exported log record carries what was emitted and is correlated with the active span (Engine B).
// Real LoggerProvider / Logger / MultiLogRecordProcessor / MultiRecordable / SimpleLogRecordProcessor /
// ReadWriteLogRecord. Deferred export uses a harness processor that queues the real recordables and hands them
// to its exporter only after the caller's buffers have been scribbled (pass 1) or scribbled and freed (pass 2),
// which exercises exactly the storage a batch processor would export, deterministically.
//  part A  every ordered selection of <= 3 (thorough: <= 4) distinct argument kinds of EmitLogRecord(args...)
//          (compile-time generated call sites) x processor configuration x active-span configuration
//  part B  every AttributeValue alternative as body / attribute value, every C++ carrier type of body and
//          attributes, attribute list shapes (duplicates, empty, empty key) x processors x {scribble, free}
//  part C  CreateLogRecord + every setter sequence up to the depth bound + EmitLogRecord(record), with the
//          active span changing between creation and emit
//  part D  null records and a logger disabled by the ScopeConfigurator emit nothing
//  part E  two emits in a row: exactly one record per emit and processor, in order, each with its own values
#include <map>
#include <unordered_map>

#include <opentelemetry/context/runtime_context.h>
#include <opentelemetry/logs/logger_provider.h>
#include <opentelemetry/trace/default_span.h>
#include <opentelemetry/trace/scope.h>
#include <opentelemetry/trace/span_metadata.h>

#include <opentelemetry/sdk/common/global_log_handler.h>
#include <opentelemetry/sdk/instrumentationscope/scope_configurator.h>
#include <opentelemetry/sdk/logs/exporter.h>
#include <opentelemetry/sdk/logs/logger_config.h>
#include <opentelemetry/sdk/logs/logger_provider.h>
#include <opentelemetry/sdk/logs/processor.h>
#include <opentelemetry/sdk/logs/read_write_log_record.h>
#include <opentelemetry/sdk/logs/simple_log_record_processor.h>
#include <opentelemetry/sdk/resource/resource.h>

#include "c13_sites.h"
#include "seq/vf_seq.h"
#include "vf_clock.h"

namespace ot        = opentelemetry;
namespace nostd     = opentelemetry::nostd;
namespace common    = opentelemetry::common;
namespace logs      = opentelemetry::logs;
namespace trace     = opentelemetry::trace;
namespace context   = opentelemetry::context;
namespace sdklogs   = opentelemetry::sdk::logs;
namespace sdkres    = opentelemetry::sdk::resource;
namespace sdkscope  = opentelemetry::sdk::instrumentationscope;
namespace sdkcommon = opentelemetry::sdk::common;
using common::AttributeValue;
using namespace c13;

namespace {

// =================================================================================================
// caller storage
// =================================================================================================
class Arena {
  struct B { char *p; size_t n; bool mine; };
  std::vector<B> b_;
  bool freed_ = false;

 public:
  Arena() {}
  Arena(const Arena &) = delete;
  ~Arena() {
    if (!freed_)
      for (auto &x : b_) if (x.mine) free(x.p);
  }
  void *alloc(size_t n) {
    char *p = static_cast<char *>(malloc(n ? n : 1));
    b_.push_back({p, n ? n : 1, true});
    return p;
  }
  void note(const void *p, size_t n) { b_.push_back({const_cast<char *>(static_cast<const char *>(p)), n ? n : 1, false}); }
  bool owns(const void *p) const {
    const char *q = static_cast<const char *>(p);
    for (auto &x : b_) if (q >= x.p && q < x.p + x.n) return true;
    return false;
  }
  void free_all() {
    for (auto &x : b_) if (x.mine) free(x.p);
    freed_ = true;
  }
  bool freed() const { return freed_; }
};

enum VK { V_BOOL, V_I32, V_I64, V_U32, V_U64, V_DBL, V_CSTR, V_STR, V_STR_LONG, V_STR_EMPTY, V_STR_NUL, V_CSTR_EMPTY,
          V_SP_BOOL, V_SP_I32, V_SP_I64, V_SP_U32, V_SP_DBL, V_SP_STR, V_SP_U64, V_SP_BYTE, V_SP_EMPTY, V_SP_STR_EMPTY, NVK };
const char *kVKName[NVK] = {"bool", "int32", "int64", "uint32", "uint64", "double", "cstring", "string", "long-string", "empty-string", "string-with-NUL", "empty-cstring",
                            "span-bool", "span-int32", "span-int64", "span-uint32", "span-double", "span-string", "span-uint64", "span-byte", "empty-span", "span-string-empty"};

char scr(char c) { return c == '#' ? '%' : '#'; }

// One value in caller-owned heap storage. value() builds the non-owning AttributeValue from the current content.
struct CallerValue {
  VK vk;
  long num = 0;
  double dbl = 0;
  char *p = nullptr;  // characters or array elements
  size_t n = 0;       // characters / elements
  std::vector<std::pair<char *, size_t>> elems;  // element strings of span<string_view>
  CallerValue(Arena &a, VK k, int variant) : vk(k) {
    std::string tag = vf::sfmt("%d", variant);
    auto put_str = [&](const std::string &s, bool nul) {
      n = s.size();
      p = static_cast<char *>(a.alloc(s.size() + (nul ? 1 : 0)));
      memcpy(p, s.data(), s.size());
      if (nul) p[s.size()] = 0;
    };
    switch (k) {
      case V_BOOL: num = variant % 2 == 0; break;
      case V_I32: num = -1000 - variant; break;
      case V_I64: num = -5000000000l - variant; break;
      case V_U32: num = 4000000000l + variant; break;
      case V_U64: num = 9000000000l + variant; break;
      case V_DBL: dbl = 2.5 + variant; break;
      case V_CSTR: put_str("cstr-" + tag, true); break;
      case V_CSTR_EMPTY: put_str("", true); break;
      case V_STR: put_str("text-" + tag, false); break;
      case V_STR_LONG: put_str("long-" + tag + std::string(40, 'x'), false); break;
      case V_STR_EMPTY: put_str("", false); break;
      case V_STR_NUL: put_str(std::string("nu\0l-", 5) + tag, false); break;
      case V_SP_EMPTY: n = 0; p = static_cast<char *>(a.alloc(0)); break;
      case V_SP_STR:
      case V_SP_STR_EMPTY: {
        std::vector<std::string> es;
        if (k == V_SP_STR) es = {"s0-" + tag, "", "s2-" + tag + std::string(30, 'y')};
        n = es.size();
        p = static_cast<char *>(a.alloc(n * sizeof(nostd::string_view)));
        for (size_t i = 0; i < n; ++i) {
          char *e = static_cast<char *>(a.alloc(es[i].size()));
          memcpy(e, es[i].data(), es[i].size());
          elems.emplace_back(e, es[i].size());
          new (p + i * sizeof(nostd::string_view)) nostd::string_view(e, es[i].size());
        }
        break;
      }
      default: {  // numeric arrays, 3 elements
        n = 3;
        size_t w = elem_width();
        p = static_cast<char *>(a.alloc(n * w));
        for (size_t i = 0; i < n; ++i) set_elem(i, (long)(10 * (variant + 1) + (long)i));
      }
    }
  }
  size_t elem_width() const {
    switch (vk) {
      case V_SP_BOOL: return sizeof(bool);
      case V_SP_I32: case V_SP_U32: return 4;
      case V_SP_BYTE: return 1;
      default: return 8;
    }
  }
  void set_elem(size_t i, long v) {
    switch (vk) {
      case V_SP_BOOL: reinterpret_cast<bool *>(p)[i] = (v % 2) != 0; break;
      case V_SP_I32: reinterpret_cast<int32_t *>(p)[i] = (int32_t)-v; break;
      case V_SP_U32: reinterpret_cast<uint32_t *>(p)[i] = (uint32_t)v; break;
      case V_SP_I64: reinterpret_cast<int64_t *>(p)[i] = -v * 1000000007l; break;
      case V_SP_U64: reinterpret_cast<uint64_t *>(p)[i] = (uint64_t)v * 1000000007ul; break;
      case V_SP_DBL: reinterpret_cast<double *>(p)[i] = v + 0.25; break;
      case V_SP_BYTE: reinterpret_cast<uint8_t *>(p)[i] = (uint8_t)v; break;
      default: break;
    }
  }
  AttributeValue value() const {
    switch (vk) {
      case V_BOOL: return AttributeValue(num != 0);
      case V_I32: return AttributeValue((int32_t)num);
      case V_I64: return AttributeValue((int64_t)num);
      case V_U32: return AttributeValue((uint32_t)num);
      case V_U64: return AttributeValue((uint64_t)num);
      case V_DBL: return AttributeValue(dbl);
      case V_CSTR: case V_CSTR_EMPTY: return AttributeValue(static_cast<const char *>(p));
      case V_STR: case V_STR_LONG: case V_STR_EMPTY: case V_STR_NUL: return AttributeValue(nostd::string_view(p, n));
      case V_SP_BOOL: return AttributeValue(nostd::span<const bool>(reinterpret_cast<const bool *>(p), n));
      case V_SP_I32: return AttributeValue(nostd::span<const int32_t>(reinterpret_cast<const int32_t *>(p), n));
      case V_SP_I64: case V_SP_EMPTY: return AttributeValue(nostd::span<const int64_t>(reinterpret_cast<const int64_t *>(p), n));
      case V_SP_U32: return AttributeValue(nostd::span<const uint32_t>(reinterpret_cast<const uint32_t *>(p), n));
      case V_SP_DBL: return AttributeValue(nostd::span<const double>(reinterpret_cast<const double *>(p), n));
      case V_SP_U64: return AttributeValue(nostd::span<const uint64_t>(reinterpret_cast<const uint64_t *>(p), n));
      case V_SP_BYTE: return AttributeValue(nostd::span<const uint8_t>(reinterpret_cast<const uint8_t *>(p), n));
      default: return AttributeValue(nostd::span<const nostd::string_view>(reinterpret_cast<const nostd::string_view *>(p), n));
    }
  }
  // overwrite the storage with a different valid value of the same shape
  void scribble() {
    switch (vk) {
      case V_BOOL: case V_I32: case V_I64: case V_U32: case V_U64: case V_DBL: break;  // passed by value
      case V_CSTR: case V_CSTR_EMPTY: case V_STR: case V_STR_LONG: case V_STR_EMPTY: case V_STR_NUL:
        for (size_t i = 0; i < n; ++i) p[i] = scr(p[i]);
        break;
      case V_SP_STR: case V_SP_STR_EMPTY:
        for (auto &e : elems) for (size_t i = 0; i < e.second; ++i) e.first[i] = scr(e.first[i]);
        break;
      case V_SP_BOOL: for (size_t i = 0; i < n; ++i) reinterpret_cast<bool *>(p)[i] = !reinterpret_cast<bool *>(p)[i]; break;
      case V_SP_DBL: for (size_t i = 0; i < n; ++i) reinterpret_cast<double *>(p)[i] += 1000.5; break;
      default: for (size_t i = 0; i < n * elem_width(); ++i) p[i] = (char)(p[i] ^ 0x15); break;
    }
  }
};

// =================================================================================================
// canonical values (category + value: bool / integer / double / string / array of ...)
// =================================================================================================
struct SeenVal {
  std::string canon;
  bool retained = false;  // a pointer into caller storage is held (address check, no dereference)
  const char *kind = "scalar";
};

struct SeeValue {
  const Arena *arena;  // may be null: no address checks
  SeenVal *out;
  bool blocked(const void *p, size_t n) const {  // true: must not be dereferenced
    if (!arena || n == 0 || !arena->owns(p)) return false;
    out->retained = true;
    if (arena->freed()) { out->canon = "<pointer into freed caller storage>"; return true; }
    return false;
  }
  void operator()(bool v) const { out->canon = vf::sfmt("b:%d", (int)v); }
  void operator()(int32_t v) const { out->canon = vf::sfmt("i:%lld", (long long)v); }
  void operator()(int64_t v) const { out->canon = vf::sfmt("i:%lld", (long long)v); }
  void operator()(uint32_t v) const { out->canon = vf::sfmt("i:%llu", (unsigned long long)v); }
  void operator()(uint64_t v) const { out->canon = vf::sfmt("i:%llu", (unsigned long long)v); }
  void operator()(double v) const { out->canon = vf::sfmt("d:%.17g", v); }
  void operator()(const char *v) const {
    out->kind = "string";
    if (v == nullptr) { out->canon = "s:<null>"; return; }
    if (arena && arena->owns(v)) {
      out->retained = true;
      if (arena->freed()) { out->canon = "<pointer into freed caller storage>"; return; }
    }
    out->canon = vf::sfmt("s:%zu:", strlen(v)) + v;
  }
  void operator()(nostd::string_view v) const {
    out->kind = "string";
    if (blocked(v.data(), v.size())) return;
    out->canon = vf::sfmt("s:%zu:", v.size()) + std::string(v.data(), v.size());
  }
  template <class T> void ints(nostd::span<const T> v, const char *fmt) const {
    out->kind = "array";
    if (blocked(v.data(), v.size())) return;
    std::string o = "ai:[";
    for (size_t i = 0; i < v.size(); ++i) o += vf::sfmt(fmt, v[i]) + ",";
    out->canon = o + "]";
  }
  void operator()(nostd::span<const bool> v) const {
    out->kind = "array";
    if (blocked(v.data(), v.size())) return;
    std::string o = "ab:[";
    for (size_t i = 0; i < v.size(); ++i) o += v[i] ? "1" : "0";
    out->canon = o + "]";
  }
  void operator()(nostd::span<const int32_t> v) const { ints<int32_t>(v, "%d"); }
  void operator()(nostd::span<const int64_t> v) const { ints<int64_t>(v, "%ld"); }
  void operator()(nostd::span<const uint32_t> v) const { ints<uint32_t>(v, "%u"); }
  void operator()(nostd::span<const uint64_t> v) const { ints<uint64_t>(v, "%lu"); }
  void operator()(nostd::span<const uint8_t> v) const { ints<uint8_t>(v, "%u"); }
  void operator()(nostd::span<const double> v) const {
    out->kind = "array";
    if (blocked(v.data(), v.size())) return;
    std::string o = "ad:[";
    for (size_t i = 0; i < v.size(); ++i) o += vf::sfmt("%.17g,", v[i]);
    out->canon = o + "]";
  }
  void operator()(nostd::span<const nostd::string_view> v) const {
    out->kind = "array";
    if (blocked(v.data(), v.size())) return;
    std::string o = "as:[";
    for (size_t i = 0; i < v.size(); ++i) {
      if (blocked(v[i].data(), v[i].size())) return;
      o += vf::sfmt("%zu:", v[i].size()) + std::string(v[i].data(), v[i].size()) + ",";
    }
    out->canon = o + "]";
  }
};
SeenVal see(const AttributeValue &v, const Arena *arena) {
  SeenVal s;
  nostd::visit(SeeValue{arena, &s}, v);
  return s;
}
std::string canon_of(const AttributeValue &v) { return see(v, nullptr).canon; }

template <class Id> std::string hex(const Id &id) {
  char buf[2 * Id::kSize];
  id.ToLowerBase16(nostd::span<char, 2 * Id::kSize>(buf, 2 * Id::kSize));
  return std::string(buf, sizeof buf);
}
const std::string kZeroTid(32, '0'), kZeroSid(16, '0');

// =================================================================================================
// what the exporters see
// =================================================================================================
struct SeenRec {
  int severity = -1;
  SeenVal body;
  std::map<std::string, SeenVal> attrs;
  int64_t ts = 0;
  int64_t event_id = 0;
  std::string event_name, tid, sid;
  int flags = 0;
  std::string resource, scope;
};
struct Sink {
  const char *kind;  // "simple" / "deferred"
  const Arena *arena;
  std::vector<SeenRec> recs;
  int batches = 0;
  std::string error;  // protocol violations seen by the exporter (reported by the harness body)
};

struct CanonOwned {
  std::string operator()(const std::string &v) const { return "s:" + v; }
  std::string operator()(int64_t v) const { return vf::sfmt("i:%lld", (long long)v); }
  template <class T> std::string operator()(const T &) const { return "other"; }
};
std::string canon_map(const sdkcommon::AttributeMap &m) {
  std::map<std::string, std::string> s;
  for (auto &kv : m) s[kv.first] = nostd::visit(CanonOwned(), kv.second);
  std::string o = "{";
  for (auto &kv : s) o += kv.first + "=" + kv.second + ";";
  return o + "}";
}

SeenRec snapshot(const sdklogs::ReadWriteLogRecord &r, const Arena *arena) {
  SeenRec s;
  s.severity = (int)r.GetSeverity();
  s.body = see(r.GetBody(), arena);
  for (auto &kv : r.GetAttributes()) s.attrs[kv.first] = see(kv.second, arena);
  s.ts = r.GetTimestamp().time_since_epoch().count();
  s.event_id = r.GetEventId();
  s.event_name = std::string(r.GetEventName().data(), r.GetEventName().size());
  s.tid = hex(r.GetTraceId());
  s.sid = hex(r.GetSpanId());
  s.flags = r.GetTraceFlags().flags();
  s.resource = canon_map(r.GetResource().GetAttributes()) + "@" + r.GetResource().GetSchemaURL();
  auto &sc = r.GetInstrumentationScope();
  s.scope = sc.GetName() + "|" + sc.GetVersion() + "|" + sc.GetSchemaURL() + "|" + canon_map(sc.GetAttributes());
  return s;
}

class Exporter final : public sdklogs::LogRecordExporter {
  Sink *sink_;

 public:
  explicit Exporter(Sink *s) : sink_(s) {}
  // the SDK's own recordable, as an exporter that does not bring its own would use
  std::unique_ptr<sdklogs::Recordable> MakeRecordable() noexcept override { return std::unique_ptr<sdklogs::Recordable>(new sdklogs::ReadWriteLogRecord()); }
  sdkcommon::ExportResult Export(const nostd::span<std::unique_ptr<sdklogs::Recordable>> &records) noexcept override {
    sink_->batches++;
    for (auto &r : records) {
      if (!r) { sink_->error = "null recordable in a batch"; continue; }
      sink_->recs.push_back(snapshot(*static_cast<sdklogs::ReadWriteLogRecord *>(r.get()), sink_->arena));
    }
    return sdkcommon::ExportResult::kSuccess;
  }
  bool ForceFlush(std::chrono::microseconds) noexcept override { return true; }
  bool Shutdown(std::chrono::microseconds) noexcept override { return true; }
};

// Queues what it receives; exports on ForceFlush only (what a batch processor does, without thread and clock).
class DeferredProcessor final : public sdklogs::LogRecordProcessor {
  std::unique_ptr<sdklogs::LogRecordExporter> exporter_;
  std::vector<std::unique_ptr<sdklogs::Recordable>> queue_;

 public:
  explicit DeferredProcessor(std::unique_ptr<sdklogs::LogRecordExporter> e) : exporter_(std::move(e)) {}
  std::unique_ptr<sdklogs::Recordable> MakeRecordable() noexcept override { return exporter_->MakeRecordable(); }
  void OnEmit(std::unique_ptr<sdklogs::Recordable> &&record) noexcept override { queue_.push_back(std::move(record)); }
  bool ForceFlush(std::chrono::microseconds) noexcept override {
    if (!queue_.empty()) exporter_->Export(nostd::span<std::unique_ptr<sdklogs::Recordable>>(queue_.data(), queue_.size()));
    queue_.clear();
    return true;
  }
  bool Shutdown(std::chrono::microseconds) noexcept override {
    queue_.clear();  // an execution that ends without a flush (failed check) drops its queue
    return exporter_->Shutdown();
  }
};

// =================================================================================================
// fixture
// =================================================================================================
const char *kProcCfgName[4] = {"{simple}", "{deferred}", "{simple,deferred}", "{deferred,simple}"};

struct Fixture {
  Arena arena;  // destroyed last
  std::vector<std::unique_ptr<CallerValue>> values;
  std::vector<std::function<void()>> extra_scribble, extra_free;
  std::vector<std::unique_ptr<Sink>> sinks;
  std::shared_ptr<sdklogs::LoggerProvider> provider;
  nostd::shared_ptr<logs::Logger> logger, disabled_logger;
  std::string want_resource, want_scope;

  explicit Fixture(int proccfg) {
    static const sdkres::Resource resource = sdkres::Resource::Create({{"service.name", "c13"}, {"deployment", "test"}}, "https://example.test/resource");
    std::vector<std::unique_ptr<sdklogs::LogRecordProcessor>> procs;
    auto add = [&](bool deferred) {
      sinks.emplace_back(new Sink{deferred ? "deferred" : "simple", &arena, {}, 0, ""});
      std::unique_ptr<sdklogs::LogRecordExporter> e(new Exporter(sinks.back().get()));
      if (deferred) procs.emplace_back(new DeferredProcessor(std::move(e)));
      else procs.emplace_back(new sdklogs::SimpleLogRecordProcessor(std::move(e)));
    };
    if (proccfg == 0) add(false);
    else if (proccfg == 1) add(true);
    else if (proccfg == 2) { add(false); add(true); }
    else { add(true); add(false); }
    auto configurator = std::make_unique<sdkscope::ScopeConfigurator<sdklogs::LoggerConfig>>(
        sdkscope::ScopeConfigurator<sdklogs::LoggerConfig>::Builder(sdklogs::LoggerConfig::Default()).AddConditionNameEquals("lib-off", sdklogs::LoggerConfig::Disabled()).Build());
    provider.reset(new sdklogs::LoggerProvider(std::move(procs), resource, std::move(configurator)));
    std::map<std::string, std::string> scope_attrs = {{"scope.attr", "sv"}};
    logger = provider->GetLogger("logger-on", "lib-on", "1.2.3", "https://example.test/scope", scope_attrs);
    disabled_logger = provider->GetLogger("logger-off", "lib-off", "1.2.3", "https://example.test/scope", scope_attrs);
    want_resource = canon_map(resource.GetAttributes()) + "@" + resource.GetSchemaURL();
    want_scope = "lib-on|1.2.3|https://example.test/scope|{scope.attr=s:sv;}";
  }
  CallerValue *val(VK k, int variant) {
    values.emplace_back(new CallerValue(arena, k, variant));
    return values.back().get();
  }
  void scribble_all() {
    for (auto &v : values) v->scribble();
    for (auto &f : extra_scribble) f();
  }
  void free_all() {
    for (auto &f : extra_free) f();
    arena.free_all();
  }
};

// =================================================================================================
// reference model of one emit
// =================================================================================================
struct WantVal {
  std::string canon;      // value at emit time
  CallerValue *src;       // caller storage (may be null for carriers handled by hand)
  std::string kind_name;  // for messages
};
struct Want {
  bool has_sev = false; int sev = 0;
  bool has_body = false; WantVal body;
  std::map<std::string, WantVal> attrs;
  bool has_ts = false; int64_t ts = 0;
  bool has_ev = false; int64_t ev_id = 0; std::string ev_name;
  bool x_tid = false, x_sid = false, x_flg = false;  // explicit components
  std::string tid, sid; int flg = 0;
  bool active = false; std::string a_tid, a_sid; int a_flg = 0;  // span active when the record was created
  std::string desc;
};
WantVal want_of(CallerValue *v) { return WantVal{canon_of(v->value()), v, kVKName[v->vk]}; }

// fixed identities
trace::TraceId tid_of(uint8_t b) { uint8_t buf[16]; memset(buf, b, 16); buf[15] = 1; return trace::TraceId(buf); }
trace::SpanId sid_of(uint8_t b) { uint8_t buf[8]; memset(buf, b, 8); buf[7] = 2; return trace::SpanId(buf); }
trace::SpanContext ctx_of(uint8_t b, uint8_t flags) { return trace::SpanContext(tid_of(b), sid_of(b), trace::TraceFlags(flags), false); }

// ---- active span configurations ---------------------------------------------------------------------
struct ActiveSpans {
  std::vector<std::unique_ptr<trace::Scope>> scopes;
  std::vector<nostd::unique_ptr<context::Token>> tokens;
  bool active = false;
  trace::SpanContext current = trace::SpanContext::GetInvalid();
  void push(const trace::SpanContext &sc) {
    scopes.emplace_back(new trace::Scope(nostd::shared_ptr<trace::Span>(new trace::DefaultSpan(sc))));
    active = true;
    current = sc;
  }
  void push_context_only(const trace::SpanContext &sc) {  // the runtime context holds a SpanContext, not a Span
    tokens.push_back(context::RuntimeContext::Attach(context::RuntimeContext::GetCurrent().SetValue(trace::kSpanKey, nostd::shared_ptr<trace::SpanContext>(new trace::SpanContext(sc)))));
    active = true;
    current = sc;
  }
  ~ActiveSpans() {
    while (!tokens.empty()) tokens.pop_back();
    while (!scopes.empty()) scopes.pop_back();  // innermost first
  }
};
const int kSpanCfgs = 8;
const char *kSpanCfgName[kSpanCfgs] = {"no-span", "sampled", "unsampled", "outer-sampled/inner-unsampled", "outer-unsampled/inner-sampled", "inner-ended", "span-context-in-context", "invalid-span"};
void setup_spans(ActiveSpans &a, int cfg) {
  switch (cfg) {
    case 0: break;
    case 1: a.push(ctx_of(0xa1, 1)); break;
    case 2: a.push(ctx_of(0xa1, 0)); break;
    case 3: a.push(ctx_of(0xb1, 1)); a.push(ctx_of(0xa1, 0)); break;
    case 4: a.push(ctx_of(0xb1, 0)); a.push(ctx_of(0xa1, 1)); break;
    case 5: a.push(ctx_of(0xb1, 1)); a.push(ctx_of(0xa1, 0)); a.scopes.pop_back(); a.current = ctx_of(0xb1, 1); break;
    case 6: a.push_context_only(ctx_of(0xa1, 1)); break;
    default: a.push(trace::SpanContext::GetInvalid()); break;
  }
}
void note_active(Want &w, const ActiveSpans &a) {
  w.active = a.active;
  if (a.active) { w.a_tid = hex(a.current.trace_id()); w.a_sid = hex(a.current.span_id()); w.a_flg = a.current.trace_flags().flags(); }
}

// =================================================================================================
// oracle
// =================================================================================================
void check_value(vf::Ctx &c, const char *pos, const std::string &key, const WantVal &want, const SeenVal &got, const Sink &sink, bool after_scribble, const std::string &ctx) {
  if (got.canon == want.canon && !(got.retained && sink.arena->freed())) return;
  std::string where = std::string(pos) + (key.empty() ? "" : " '" + vfq::printable(key, 20) + "'");
  // A pointer into the caller's storage shows up as the scribbled value (pass 1) or as an address inside a freed block (pass 2).
  bool dangling = got.retained || (after_scribble && want.src && got.canon == canon_of(want.src->value()) && !sink.arena->freed());
  if (dangling && strcmp(sink.kind, "deferred") == 0) {
    std::string sig = std::string("C13:dangling:") + pos + ":" + got.kind + ":" + sink.kind;
    c.report(sig, ctx + ": the " + sink.kind + " exporter sees " + where + " (" + want.kind_name + ") = '" + vfq::printable(got.canon, 60) + "', emitted was '" + vfq::printable(want.canon, 60) +
                      "': the record refers to the caller's storage, which the caller has reused after Emit returned");
    return;
  }
  c.fail(std::string("C13:wrong-value:") + pos + ":" + sink.kind,
         ctx + ": the " + sink.kind + " exporter sees " + where + " = '" + vfq::printable(got.canon, 60) + "', emitted was '" + vfq::printable(want.canon, 60) + "'");
}

void check_component(vf::Ctx &c, const char *comp, bool is_explicit, bool any_explicit, bool active, const std::string &got, const std::string &want_explicit, const std::string &want_active,
                     const std::string &zero, const Sink &sink, const std::string &ctx) {
  std::string head = ctx + ": the " + sink.kind + " exporter sees " + comp + " " + got;
  if (is_explicit) c.check(got == want_explicit, std::string("C13:") + comp + ":explicit-value-lost", head + ", explicitly supplied was " + want_explicit);
  else if (any_explicit) c.check(got == zero || (active && got == want_active), std::string("C13:") + comp + ":unrelated-value", head + " (neither the active span's nor zero)");
  else if (active) c.check(got == want_active, std::string("C13:") + comp + ":not-the-active-span", head + ", the span active at creation has " + want_active);
  else c.check(got == zero, std::string("C13:") + comp + ":not-zero-without-active-span", head + " although no span was active");
}

