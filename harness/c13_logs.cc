// C13: an exported log record carries what was emitted and is correlated with the active span (Engine B).
// Real LoggerProvider / Logger / MultiLogRecordProcessor / MultiRecordable / SimpleLogRecordProcessor /
// ReadWriteLogRecord. Deferred export uses a harness processor that queues the real recordables and hands them
// to its exporter only after the caller's buffers have been scribbled (pass 1) or scribbled and freed (pass 2),
// which exercises exactly the storage a batch processor would export, deterministically.
//  part A  every ordered selection of <= 3 (thorough: <= 4) distinct argument kinds of EmitLogRecord(args...)
//          (compile-time generated call sites) x processor configuration x active-span configuration
//  part B  every AttributeValue alternative as body / attribute value, every C++ carrier type of body and
//          attributes, attribute list shapes (duplicates, empty, empty key) x processors x {scribble, free}
//  part C  CreateLogRecord + every setter sequence up to the depth bound + EmitLogRecord(record), with the
//          active span changing between creation and emit
//  part D  null records and a logger disabled by the ScopeConfigurator emit nothing
//  part E  two emits in a row: exactly one record per emit and processor, in order, each with its own values
//  part F  the convenience surface of logs::Logger: the 24 inline Trace..Fatal wrappers, the 4 virtual Log overloads and the 6
//          variadic Trace..Fatal(args...) templates, every level x every form, also on the disabled logger (part D)
//  part G  the (deprecated, ABI v1) EventLogger: what it emits through its delegate logger
#include <map>
#include <set>
#include <unordered_map>

#include <opentelemetry/context/runtime_context.h>
#include <opentelemetry/logs/event_logger.h>
#include <opentelemetry/logs/logger_provider.h>
#include <opentelemetry/trace/default_span.h>
#include <opentelemetry/trace/scope.h>
#include <opentelemetry/trace/span_metadata.h>

#include <opentelemetry/sdk/common/global_log_handler.h>
#include <opentelemetry/sdk/instrumentationscope/scope_configurator.h>
#include <opentelemetry/sdk/logs/event_logger_provider.h>
#include <opentelemetry/sdk/logs/exporter.h>
#include <opentelemetry/sdk/logs/logger_config.h>
#include <opentelemetry/sdk/logs/logger_provider.h>
#include <opentelemetry/sdk/logs/processor.h>
#include <opentelemetry/sdk/logs/read_write_log_record.h>
#include <opentelemetry/sdk/logs/simple_log_record_processor.h>
#include <opentelemetry/sdk/resource/resource.h>

#include "c13_sites.h"
#include "seq/vf_seq.h"
#include "vf_clock.h"

namespace ot        = opentelemetry;
namespace nostd     = opentelemetry::nostd;
namespace common    = opentelemetry::common;
namespace logs      = opentelemetry::logs;
namespace trace     = opentelemetry::trace;
namespace context   = opentelemetry::context;
namespace sdklogs   = opentelemetry::sdk::logs;
namespace sdkres    = opentelemetry::sdk::resource;
namespace sdkscope  = opentelemetry::sdk::instrumentationscope;
namespace sdkcommon = opentelemetry::sdk::common;
using common::AttributeValue;
using namespace c13;

namespace {

// =================================================================================================
// caller storage
// =================================================================================================
class Arena {
  struct B { char *p; size_t n; bool mine; };
  std::vector<B> b_;
  bool freed_ = false;

 public:
  Arena() {}
  Arena(const Arena &) = delete;
  ~Arena() {
    if (!freed_)
      for (auto &x : b_) if (x.mine) free(x.p);
  }
  void *alloc(size_t n) {
    char *p = static_cast<char *>(malloc(n ? n : 1));
    b_.push_back({p, n ? n : 1, true});
    return p;
  }
  void note(const void *p, size_t n) { b_.push_back({const_cast<char *>(static_cast<const char *>(p)), n ? n : 1, false}); }
  bool owns(const void *p) const {
    const char *q = static_cast<const char *>(p);
    for (auto &x : b_) if (q >= x.p && q < x.p + x.n) return true;
    return false;
  }
  void free_all() {
    for (auto &x : b_) if (x.mine) free(x.p);
    freed_ = true;
  }
  bool freed() const { return freed_; }
};

// event ids are int64: values outside the 32-bit range (a narrowing store keeps small ids intact)
constexpr int64_t kBigEventId = 0x1234567890ll, kNegEventId = -0x7ffffffff0ll;
enum VK { V_BOOL, V_I32, V_I64, V_U32, V_U64, V_DBL, V_CSTR, V_STR, V_STR_LONG, V_STR_EMPTY, V_STR_NUL, V_CSTR_EMPTY,
          V_SP_BOOL, V_SP_I32, V_SP_I64, V_SP_U32, V_SP_DBL, V_SP_STR, V_SP_U64, V_SP_BYTE, V_SP_EMPTY, V_SP_STR_EMPTY, NVK };
const char *kVKName[NVK] = {"bool", "int32", "int64", "uint32", "uint64", "double", "cstring", "string", "long-string", "empty-string", "string-with-NUL", "empty-cstring",
                            "span-bool", "span-int32", "span-int64", "span-uint32", "span-double", "span-string", "span-uint64", "span-byte", "empty-span", "span-string-empty"};

char scr(char c) { return c == '#' ? '%' : '#'; }

// One value in caller-owned heap storage. value() builds the non-owning AttributeValue from the current content.
struct CallerValue {
  VK vk;
  long num = 0;
  double dbl = 0;
  char *p = nullptr;  // characters or array elements
  size_t n = 0;       // characters / elements
  std::vector<std::pair<char *, size_t>> elems;  // element strings of span<string_view>
  const Arena *arena;
  CallerValue(Arena &a, VK k, int variant) : vk(k), arena(&a) {
    std::string tag = vf::sfmt("%d", variant);
    auto put_str = [&](const std::string &s, bool nul) {
      n = s.size();
      p = static_cast<char *>(a.alloc(s.size() + (nul ? 1 : 0)));
      memcpy(p, s.data(), s.size());
      if (nul) p[s.size()] = 0;
    };
    switch (k) {
      case V_BOOL: num = variant % 2 == 0; break;
      case V_I32: num = -1000 - variant; break;
      case V_I64: num = -5000000000l - variant; break;
      case V_U32: num = 4000000000l + variant; break;
      case V_U64: num = 9000000000l + variant; break;
      case V_DBL: dbl = 2.5 + variant; break;
      case V_CSTR: put_str("cstr-" + tag, true); break;
      case V_CSTR_EMPTY: put_str("", true); break;
      case V_STR: put_str("text-" + tag, false); break;
      case V_STR_LONG: put_str("long-" + tag + std::string(40, 'x'), false); break;
      case V_STR_EMPTY: put_str("", false); break;
      case V_STR_NUL: put_str(std::string("nu\0l-", 5) + tag, false); break;
      case V_SP_EMPTY: n = 0; p = static_cast<char *>(a.alloc(0)); break;
      case V_SP_STR:
      case V_SP_STR_EMPTY: {
        std::vector<std::string> es;
        if (k == V_SP_STR) es = {"s0-" + tag, "", "s2-" + tag + std::string(30, 'y')};
        n = es.size();
        p = static_cast<char *>(a.alloc(n * sizeof(nostd::string_view)));
        for (size_t i = 0; i < n; ++i) {
          char *e = static_cast<char *>(a.alloc(es[i].size()));
          memcpy(e, es[i].data(), es[i].size());
          elems.emplace_back(e, es[i].size());
          new (p + i * sizeof(nostd::string_view)) nostd::string_view(e, es[i].size());
        }
        break;
      }
      default: {  // numeric arrays, 3 elements
        n = 3;
        size_t w = elem_width();
        p = static_cast<char *>(a.alloc(n * w));
        for (size_t i = 0; i < n; ++i) set_elem(i, (long)(10 * (variant + 1) + (long)i));
      }
    }
  }
  size_t elem_width() const {
    switch (vk) {
      case V_SP_BOOL: return sizeof(bool);
      case V_SP_I32: case V_SP_U32: return 4;
      case V_SP_BYTE: return 1;
      default: return 8;
    }
  }
  void set_elem(size_t i, long v) {
    switch (vk) {
      case V_SP_BOOL: reinterpret_cast<bool *>(p)[i] = (v % 2) != 0; break;
      case V_SP_I32: reinterpret_cast<int32_t *>(p)[i] = (int32_t)-v; break;
      case V_SP_U32: reinterpret_cast<uint32_t *>(p)[i] = (uint32_t)v; break;
      case V_SP_I64: reinterpret_cast<int64_t *>(p)[i] = -v * 1000000007l; break;
      case V_SP_U64: reinterpret_cast<uint64_t *>(p)[i] = (uint64_t)v * 1000000007ul; break;
      case V_SP_DBL: reinterpret_cast<double *>(p)[i] = v + 0.25; break;
      case V_SP_BYTE: reinterpret_cast<uint8_t *>(p)[i] = (uint8_t)v; break;
      default: break;
    }
  }
  AttributeValue value() const {
    switch (vk) {
      case V_BOOL: return AttributeValue(num != 0);
      case V_I32: return AttributeValue((int32_t)num);
      case V_I64: return AttributeValue((int64_t)num);
      case V_U32: return AttributeValue((uint32_t)num);
      case V_U64: return AttributeValue((uint64_t)num);
      case V_DBL: return AttributeValue(dbl);
      case V_CSTR: case V_CSTR_EMPTY: return AttributeValue(static_cast<const char *>(p));
      case V_STR: case V_STR_LONG: case V_STR_EMPTY: case V_STR_NUL: return AttributeValue(nostd::string_view(p, n));
      case V_SP_BOOL: return AttributeValue(nostd::span<const bool>(reinterpret_cast<const bool *>(p), n));
      case V_SP_I32: return AttributeValue(nostd::span<const int32_t>(reinterpret_cast<const int32_t *>(p), n));
      case V_SP_I64: case V_SP_EMPTY: return AttributeValue(nostd::span<const int64_t>(reinterpret_cast<const int64_t *>(p), n));
      case V_SP_U32: return AttributeValue(nostd::span<const uint32_t>(reinterpret_cast<const uint32_t *>(p), n));
      case V_SP_DBL: return AttributeValue(nostd::span<const double>(reinterpret_cast<const double *>(p), n));
      case V_SP_U64: return AttributeValue(nostd::span<const uint64_t>(reinterpret_cast<const uint64_t *>(p), n));
      case V_SP_BYTE: return AttributeValue(nostd::span<const uint8_t>(reinterpret_cast<const uint8_t *>(p), n));
      default: return AttributeValue(nostd::span<const nostd::string_view>(reinterpret_cast<const nostd::string_view *>(p), n));
    }
  }
  // overwrite the storage with a different valid value of the same shape
  void scribble() {
    switch (vk) {
      case V_BOOL: case V_I32: case V_I64: case V_U32: case V_U64: case V_DBL: break;  // passed by value
      case V_CSTR: case V_CSTR_EMPTY: case V_STR: case V_STR_LONG: case V_STR_EMPTY: case V_STR_NUL:
        for (size_t i = 0; i < n; ++i) p[i] = scr(p[i]);
        break;
      case V_SP_STR: case V_SP_STR_EMPTY:
        for (auto &e : elems) for (size_t i = 0; i < e.second; ++i) e.first[i] = scr(e.first[i]);
        break;
      case V_SP_BOOL: for (size_t i = 0; i < n; ++i) reinterpret_cast<bool *>(p)[i] = !reinterpret_cast<bool *>(p)[i]; break;
      case V_SP_DBL: for (size_t i = 0; i < n; ++i) reinterpret_cast<double *>(p)[i] += 1000.5; break;
      default: for (size_t i = 0; i < n * elem_width(); ++i) p[i] = (char)(p[i] ^ 0x15); break;
    }
  }
};

// =================================================================================================
// canonical values (category + value: bool / integer / double / string / array of ...)
// =================================================================================================
// Views of caller storage held by a value: (address, number of characters / elements), outermost first; views of zero elements are
// never dereferenced and do not count. A C string in freed storage has an unknown length.
typedef std::pair<const void *, size_t> Ref;
typedef std::vector<Ref> Refs;
const size_t kUnknownLen = (size_t)-1;

struct SeenVal {
  std::string canon;
  bool retained = false;  // a pointer into caller storage is held (address check, no dereference)
  const char *kind = "scalar";
  Refs refs;              // which caller storage (retained == !refs.empty())
};

struct SeeValue {
  const Arena *arena;  // may be null: no address checks
  SeenVal *out;
  bool blocked(const void *p, size_t n) const {  // true: must not be dereferenced
    if (!arena || n == 0 || !arena->owns(p)) return false;
    out->retained = true;
    out->refs.emplace_back(p, n);
    if (arena->freed()) { out->canon = "<pointer into freed caller storage>"; return true; }
    return false;
  }
  void operator()(bool v) const { out->canon = vf::sfmt("b:%d", (int)v); }
  void operator()(int32_t v) const { out->canon = vf::sfmt("i:%lld", (long long)v); }
  void operator()(int64_t v) const { out->canon = vf::sfmt("i:%lld", (long long)v); }
  void operator()(uint32_t v) const { out->canon = vf::sfmt("i:%llu", (unsigned long long)v); }
  void operator()(uint64_t v) const { out->canon = vf::sfmt("i:%llu", (unsigned long long)v); }
  void operator()(double v) const { out->canon = vf::sfmt("d:%.17g", v); }
  void operator()(const char *v) const {
    out->kind = "string";
    if (v == nullptr) { out->canon = "s:<null>"; return; }
    if (arena && arena->owns(v)) {
      out->retained = true;
      if (arena->freed()) { out->refs.emplace_back(v, kUnknownLen); out->canon = "<pointer into freed caller storage>"; return; }
      out->refs.emplace_back(v, strlen(v));
    }
    out->canon = vf::sfmt("s:%zu:", strlen(v)) + v;
  }
  void operator()(nostd::string_view v) const {
    out->kind = "string";
    if (blocked(v.data(), v.size())) return;
    out->canon = vf::sfmt("s:%zu:", v.size()) + std::string(v.data(), v.size());
  }
  template <class T> void ints(nostd::span<const T> v, const char *fmt) const {
    out->kind = "array";
    if (blocked(v.data(), v.size())) return;
    std::string o = "ai:[";
    for (size_t i = 0; i < v.size(); ++i) o += vf::sfmt(fmt, v[i]) + ",";
    out->canon = o + "]";
  }
  void operator()(nostd::span<const bool> v) const {
    out->kind = "array";
    if (blocked(v.data(), v.size())) return;
    std::string o = "ab:[";
    for (size_t i = 0; i < v.size(); ++i) o += v[i] ? "1" : "0";
    out->canon = o + "]";
  }
  void operator()(nostd::span<const int32_t> v) const { ints<int32_t>(v, "%d"); }
  void operator()(nostd::span<const int64_t> v) const { ints<int64_t>(v, "%ld"); }
  void operator()(nostd::span<const uint32_t> v) const { ints<uint32_t>(v, "%u"); }
  void operator()(nostd::span<const uint64_t> v) const { ints<uint64_t>(v, "%lu"); }
  void operator()(nostd::span<const uint8_t> v) const { ints<uint8_t>(v, "%u"); }
  void operator()(nostd::span<const double> v) const {
    out->kind = "array";
    if (blocked(v.data(), v.size())) return;
    std::string o = "ad:[";
    for (size_t i = 0; i < v.size(); ++i) o += vf::sfmt("%.17g,", v[i]);
    out->canon = o + "]";
  }
  void operator()(nostd::span<const nostd::string_view> v) const {
    out->kind = "array";
    if (blocked(v.data(), v.size())) return;
    std::string o = "as:[";
    for (size_t i = 0; i < v.size(); ++i) {
      if (blocked(v[i].data(), v[i].size())) return;
      o += vf::sfmt("%zu:", v[i].size()) + std::string(v[i].data(), v[i].size()) + ",";
    }
    out->canon = o + "]";
  }
};
SeenVal see(const AttributeValue &v, const Arena *arena) {
  SeenVal s;
  nostd::visit(SeeValue{arena, &s}, v);
  return s;
}
std::string canon_of(const AttributeValue &v) { return see(v, nullptr).canon; }

template <class Id> std::string hex(const Id &id) {
  char buf[2 * Id::kSize];
  id.ToLowerBase16(nostd::span<char, 2 * Id::kSize>(buf, 2 * Id::kSize));
  return std::string(buf, sizeof buf);
}
const std::string kZeroTid(32, '0'), kZeroSid(16, '0');

// =================================================================================================
// what the exporters see
// =================================================================================================
struct SeenRec {
  int severity = -1;
  SeenVal body;
  std::map<std::string, SeenVal> attrs;
  int64_t ts = 0;
  int64_t event_id = 0;
  std::string event_name, tid, sid;
  int flags = 0;
  std::string resource, scope;
};
struct Sink {
  const char *kind;  // "simple" / "deferred"
  const Arena *arena;
  std::vector<SeenRec> recs;
  int batches = 0;
  std::string error;  // protocol violations seen by the exporter (reported by the harness body)
};

struct CanonOwned {
  std::string operator()(const std::string &v) const { return "s:" + v; }
  std::string operator()(int64_t v) const { return vf::sfmt("i:%lld", (long long)v); }
  template <class T> std::string operator()(const T &) const { return "other"; }
};
std::string canon_map(const sdkcommon::AttributeMap &m) {
  std::map<std::string, std::string> s;
  for (auto &kv : m) s[kv.first] = nostd::visit(CanonOwned(), kv.second);
  std::string o = "{";
  for (auto &kv : s) o += kv.first + "=" + kv.second + ";";
  return o + "}";
}

SeenRec snapshot(const sdklogs::ReadWriteLogRecord &r, const Arena *arena) {
  SeenRec s;
  s.severity = (int)r.GetSeverity();
  s.body = see(r.GetBody(), arena);
  for (auto &kv : r.GetAttributes()) s.attrs[kv.first] = see(kv.second, arena);
  s.ts = r.GetTimestamp().time_since_epoch().count();
  s.event_id = r.GetEventId();
  s.event_name = std::string(r.GetEventName().data(), r.GetEventName().size());
  s.tid = hex(r.GetTraceId());
  s.sid = hex(r.GetSpanId());
  s.flags = r.GetTraceFlags().flags();
  s.resource = canon_map(r.GetResource().GetAttributes()) + "@" + r.GetResource().GetSchemaURL();
  auto &sc = r.GetInstrumentationScope();
  s.scope = sc.GetName() + "|" + sc.GetVersion() + "|" + sc.GetSchemaURL() + "|" + canon_map(sc.GetAttributes());
  return s;
}

class Exporter final : public sdklogs::LogRecordExporter {
  Sink *sink_;

 public:
  explicit Exporter(Sink *s) : sink_(s) {}
  // the SDK's own recordable, as an exporter that does not bring its own would use
  std::unique_ptr<sdklogs::Recordable> MakeRecordable() noexcept override { return std::unique_ptr<sdklogs::Recordable>(new sdklogs::ReadWriteLogRecord()); }
  sdkcommon::ExportResult Export(const nostd::span<std::unique_ptr<sdklogs::Recordable>> &records) noexcept override {
    sink_->batches++;
    for (auto &r : records) {
      if (!r) { sink_->error = "null recordable in a batch"; continue; }
      sink_->recs.push_back(snapshot(*static_cast<sdklogs::ReadWriteLogRecord *>(r.get()), sink_->arena));
    }
    return sdkcommon::ExportResult::kSuccess;
  }
  bool ForceFlush(std::chrono::microseconds) noexcept override { return true; }
  bool Shutdown(std::chrono::microseconds) noexcept override { return true; }
};

// Queues what it receives; exports on ForceFlush only (what a batch processor does, without thread and clock).
class DeferredProcessor final : public sdklogs::LogRecordProcessor {
  std::unique_ptr<sdklogs::LogRecordExporter> exporter_;
  std::vector<std::unique_ptr<sdklogs::Recordable>> queue_;

 public:
  explicit DeferredProcessor(std::unique_ptr<sdklogs::LogRecordExporter> e) : exporter_(std::move(e)) {}
  std::unique_ptr<sdklogs::Recordable> MakeRecordable() noexcept override { return exporter_->MakeRecordable(); }
  void OnEmit(std::unique_ptr<sdklogs::Recordable> &&record) noexcept override { queue_.push_back(std::move(record)); }
  bool ForceFlush(std::chrono::microseconds) noexcept override {
    if (!queue_.empty()) exporter_->Export(nostd::span<std::unique_ptr<sdklogs::Recordable>>(queue_.data(), queue_.size()));
    queue_.clear();
    return true;
  }
  bool Shutdown(std::chrono::microseconds) noexcept override {
    queue_.clear();  // an execution that ends without a flush (failed check) drops its queue
    return exporter_->Shutdown();
  }
};

// =================================================================================================
// fixture
// =================================================================================================
const char *kProcCfgName[4] = {"{simple}", "{deferred}", "{simple,deferred}", "{deferred,simple}"};

struct Fixture {
  Arena arena;  // destroyed last
  std::vector<std::unique_ptr<CallerValue>> values;
  std::vector<std::function<void()>> extra_scribble, extra_free;
  std::vector<std::unique_ptr<Sink>> sinks;
  std::shared_ptr<sdklogs::LoggerProvider> provider;
  nostd::shared_ptr<logs::Logger> logger, disabled_logger;
  std::string want_resource, want_scope;

  explicit Fixture(int proccfg) {
    static const sdkres::Resource resource = sdkres::Resource::Create({{"service.name", "c13"}, {"deployment", "test"}}, "https://example.test/resource");
    std::vector<std::unique_ptr<sdklogs::LogRecordProcessor>> procs;
    auto add = [&](bool deferred) {
      sinks.emplace_back(new Sink{deferred ? "deferred" : "simple", &arena, {}, 0, ""});
      std::unique_ptr<sdklogs::LogRecordExporter> e(new Exporter(sinks.back().get()));
      if (deferred) procs.emplace_back(new DeferredProcessor(std::move(e)));
      else procs.emplace_back(new sdklogs::SimpleLogRecordProcessor(std::move(e)));
    };
    if (proccfg == 0) add(false);
    else if (proccfg == 1) add(true);
    else if (proccfg == 2) { add(false); add(true); }
    else { add(true); add(false); }
    auto configurator = std::make_unique<sdkscope::ScopeConfigurator<sdklogs::LoggerConfig>>(
        sdkscope::ScopeConfigurator<sdklogs::LoggerConfig>::Builder(sdklogs::LoggerConfig::Default()).AddConditionNameEquals("lib-off", sdklogs::LoggerConfig::Disabled()).Build());
    provider.reset(new sdklogs::LoggerProvider(std::move(procs), resource, std::move(configurator)));
    std::map<std::string, std::string> scope_attrs = {{"scope.attr", "sv"}};
    logger = provider->GetLogger("logger-on", "lib-on", "1.2.3", "https://example.test/scope", scope_attrs);
    disabled_logger = provider->GetLogger("logger-off", "lib-off", "1.2.3", "https://example.test/scope", scope_attrs);
    want_resource = canon_map(resource.GetAttributes()) + "@" + resource.GetSchemaURL();
    want_scope = "lib-on|1.2.3|https://example.test/scope|{scope.attr=s:sv;}";
  }
  CallerValue *val(VK k, int variant) {
    values.emplace_back(new CallerValue(arena, k, variant));
    return values.back().get();
  }
  void scribble_all() {
    for (auto &v : values) v->scribble();
    for (auto &f : extra_scribble) f();
  }
  void free_all() {
    for (auto &f : extra_free) f();
    arena.free_all();
  }
};

// =================================================================================================
// reference model of one emit
// =================================================================================================
struct WantVal {
  std::string canon;      // value at emit time
  CallerValue *src;       // caller storage (may be null for carriers handled by hand)
  std::string kind_name;  // for messages
  std::vector<std::pair<std::string, Refs>> earlier;  // values (and their storage) written before this one to the same field / key (overwritten)
  Refs store;             // the caller storage that held the value when it was emitted, as the exporter would see it if the record kept views
  std::string after;      // src == null: the canonical value that storage holds after the scribble pass
};
struct Want {
  bool has_sev = false; int sev = 0;
  bool has_body = false; WantVal body;
  std::map<std::string, WantVal> attrs;
  std::set<std::string> free_keys;  // attribute keys the emitting API may add on its own (don't-care: present or not, any value)
  bool free_event = false;          // the emitting API may fill in the event id / name when the caller supplied none (don't-care)
  bool has_ts = false; int64_t ts = 0;
  bool has_ev = false; int64_t ev_id = 0; std::string ev_name;
  bool x_tid = false, x_sid = false, x_flg = false;  // explicit components
  std::string tid, sid; int flg = 0;
  bool active = false; std::string a_tid, a_sid; int a_flg = 0;  // span active when the record was created
  std::string desc;
};
WantVal want_of(CallerValue *v) {
  SeenVal s = see(v->value(), v->arena);  // the same visitor the exporter uses: storage is described exactly as a retained view would be
  return WantVal{s.canon, v, kVKName[v->vk], {}, s.refs, ""};
}
// a string held by a typed caller object (std::string, map value): characters at [data, data+text.size())
std::string scribbled(std::string s);
WantVal want_text(const std::string &text, const char *data, const char *kind_name) {
  Refs store;
  if (!text.empty()) store.emplace_back(data, text.size());
  return WantVal{vf::sfmt("s:%zu:", text.size()) + text, nullptr, kind_name, {}, store, vf::sfmt("s:%zu:", text.size()) + scribbled(text)};
}
void set_attr(Want &w, const std::string &key, WantVal v) {  // last write wins per key
  auto it = w.attrs.find(key);
  if (it != w.attrs.end()) { v.earlier = it->second.earlier; v.earlier.emplace_back(it->second.canon, it->second.store); }
  w.attrs[key] = v;
}
void set_body(Want &w, WantVal v) {
  if (w.has_body) { v.earlier = w.body.earlier; v.earlier.emplace_back(w.body.canon, w.body.store); }
  w.has_body = true;
  w.body = v;
}


// fixed identities
trace::TraceId tid_of(uint8_t b) { uint8_t buf[16]; memset(buf, b, 16); buf[15] = 1; return trace::TraceId(buf); }
trace::SpanId sid_of(uint8_t b) { uint8_t buf[8]; memset(buf, b, 8); buf[7] = 2; return trace::SpanId(buf); }
trace::SpanContext ctx_of(uint8_t b, uint8_t flags) { return trace::SpanContext(tid_of(b), sid_of(b), trace::TraceFlags(flags), false); }

// ---- active span configurations ---------------------------------------------------------------------
struct ActiveSpans {
  std::vector<std::unique_ptr<trace::Scope>> scopes;
  std::vector<nostd::unique_ptr<context::Token>> tokens;
  bool active = false;
  trace::SpanContext current = trace::SpanContext::GetInvalid();
  void push(const trace::SpanContext &sc) {
    scopes.emplace_back(new trace::Scope(nostd::shared_ptr<trace::Span>(new trace::DefaultSpan(sc))));
    active = true;
    current = sc;
  }
  void push_context_only(const trace::SpanContext &sc) {  // the runtime context holds a SpanContext, not a Span
    tokens.push_back(context::RuntimeContext::Attach(context::RuntimeContext::GetCurrent().SetValue(trace::kSpanKey, nostd::shared_ptr<trace::SpanContext>(new trace::SpanContext(sc)))));
    active = true;
    current = sc;
  }
  // kSpanKey is present in the current context but holds no span: a null Span pointer, a null SpanContext pointer, a value of another type
  void push_no_span(int how) {
    context::ContextValue v;
    if (how == 0) v = nostd::shared_ptr<trace::Span>();
    else if (how == 1) v = nostd::shared_ptr<trace::SpanContext>();
    else v = (int64_t)7;
    tokens.push_back(context::RuntimeContext::Attach(context::RuntimeContext::GetCurrent().SetValue(trace::kSpanKey, v)));
  }
  ~ActiveSpans() {
    while (!tokens.empty()) tokens.pop_back();
    while (!scopes.empty()) scopes.pop_back();  // innermost first
  }
};
const int kSpanCfgs = 11;
const char *kSpanCfgName[kSpanCfgs] = {"no-span", "sampled", "unsampled", "outer-sampled/inner-unsampled", "outer-unsampled/inner-sampled", "inner-ended", "span-context-in-context", "invalid-span",
                                       "null-span-pointer-in-context", "null-span-context-pointer-in-context", "non-span-value-under-the-span-key"};
void setup_spans(ActiveSpans &a, int cfg) {
  switch (cfg) {
    case 0: break;
    case 1: a.push(ctx_of(0xa1, 1)); break;
    case 2: a.push(ctx_of(0xa1, 0)); break;
    case 3: a.push(ctx_of(0xb1, 1)); a.push(ctx_of(0xa1, 0)); break;
    case 4: a.push(ctx_of(0xb1, 0)); a.push(ctx_of(0xa1, 1)); break;
    case 5: a.push(ctx_of(0xb1, 1)); a.push(ctx_of(0xa1, 0)); a.scopes.pop_back(); a.current = ctx_of(0xb1, 1); break;
    case 6: a.push_context_only(ctx_of(0xa1, 1)); break;
    case 7: a.push(trace::SpanContext::GetInvalid()); break;
    default: a.push_no_span(cfg - 8); break;  // no active span: ids must be zero (and nothing may be dereferenced)
  }
}
void note_active(Want &w, const ActiveSpans &a) {
  w.active = a.active;
  if (a.active) { w.a_tid = hex(a.current.trace_id()); w.a_sid = hex(a.current.span_id()); w.a_flg = a.current.trace_flags().flags(); }
}

// =================================================================================================
// oracle
// =================================================================================================
// true: `got` are views of exactly the caller storage `want`. Once the storage is freed only the outermost view can be examined.
bool same_storage(const Refs &got, const Refs &want, bool freed) {
  if (got.empty() || want.empty()) return false;
  auto eq = [](const Ref &g, const Ref &w) { return g.first == w.first && (g.second == w.second || g.second == kUnknownLen); };
  if (freed) return eq(got[0], want[0]);
  if (got.size() != want.size()) return false;
  for (size_t i = 0; i < got.size(); ++i)
    if (!eq(got[i], want[i])) return false;
  return true;
}

void check_value(vf::Ctx &c, const char *pos, const std::string &key, const WantVal &want, const SeenVal &got, const Sink &sink, const std::string &ctx) {
  std::string where = std::string(pos) + (key.empty() ? "" : " '" + vfq::printable(key, 20) + "'");
  std::string head = ctx + ": the " + sink.kind + " exporter sees " + where + " = '" + vfq::printable(got.canon, 60) + "'";
  // (the simple exporter runs inside Emit, where pointers into the caller's storage are legitimate and hold the emit-time values)
  if (strcmp(sink.kind, "deferred") == 0 && got.retained) {
    // Exported after Emit returned and the value is a view of caller storage, which the caller has reused (and freed) by now. The listed
    // known finding is exactly this and nothing more: the record kept a view of the storage the caller passed for the LAST value written to
    // THIS field - same addresses, same lengths and, while the storage is still readable, the content the caller put there afterwards. A view
    // of any other caller storage (another key's value, an overwritten value, the other record's buffers, a different alternative read from the
    // same bytes) is a different violation and is reported under its own signature.
    bool freed = sink.arena->freed();
    bool own = same_storage(got.refs, want.store, freed);
    if (own && !freed) own = got.canon == (want.src ? canon_of(want.src->value()) : want.after);
    if (own) {
      c.report(std::string("C13:dangling:") + pos + ":" + got.kind + ":" + sink.kind,
               head + " (" + want.kind_name + "), emitted was '" + vfq::printable(want.canon, 60) + "': the record refers to the caller's storage, which the caller has reused after Emit returned");
      return;
    }
    for (auto &e : want.earlier)
      if (same_storage(got.refs, e.second, freed))
        c.fail(std::string("C13:not-the-last-write:") + pos + ":" + sink.kind,
               head + ", a view of the caller storage of '" + vfq::printable(e.first, 60) + "', which was overwritten later by '" + vfq::printable(want.canon, 60) + "'");
    c.fail(std::string("C13:wrong-value:") + pos + ":" + sink.kind,
           head + ", a view of caller storage other than that of the value emitted for this field, '" + vfq::printable(want.canon, 60) + "' (" + want.kind_name + ")");
  }
  if (got.canon == want.canon) return;
  for (auto &e : want.earlier)
    if (got.canon == e.first)
      c.fail(std::string("C13:not-the-last-write:") + pos + ":" + sink.kind, head + ", which was overwritten later by '" + vfq::printable(want.canon, 60) + "'");
  c.fail(std::string("C13:wrong-value:") + pos + ":" + sink.kind, head + ", emitted was '" + vfq::printable(want.canon, 60) + "'");
}

void check_component(vf::Ctx &c, const char *comp, bool is_explicit, bool any_explicit, bool active, const std::string &got, const std::string &want_explicit, const std::string &want_active,
                     const std::string &zero, const Sink &sink, const std::string &ctx) {
  std::string head = ctx + ": the " + sink.kind + " exporter sees " + comp + " " + got;
  if (is_explicit) c.check(got == want_explicit, std::string("C13:") + comp + ":explicit-value-lost", head + ", explicitly supplied was " + want_explicit);
  else if (any_explicit) c.check(got == zero || (active && got == want_active), std::string("C13:") + comp + ":unrelated-value", head + " (neither the active span's nor zero)");
  else if (active) c.check(got == want_active, std::string("C13:") + comp + ":not-the-active-span", head + ", the span active at creation has " + want_active);
  else c.check(got == zero, std::string("C13:") + comp + ":not-zero-without-active-span", head + " although no span was active");
}


std::string canon(const SeenRec &s) {
  std::string o = vf::sfmt("sev%d|", s.severity) + s.body.canon + "|";
  for (auto &kv : s.attrs) o += kv.first + "=" + kv.second.canon + ";";
  return o + vf::sfmt("|ts%lld|ev%lld:", (long long)s.ts, (long long)s.event_id) + s.event_name + "|" + s.tid + "-" + s.sid + vf::sfmt("-%02x", s.flags);
}

// What a recordable of the exporter holds before anybody wrote to it (taken from a fresh ReadWriteLogRecord in setup()).
struct Untouched { int severity = 0; std::string body; int64_t ts = 0, event_id = 0; std::string event_name; } g_untouched;

void check_record(vf::Ctx &c, const Fixture &fx, const Want &w, const SeenRec &s, const Sink &sink) {
  const std::string &ctx = w.desc;
  std::string k = sink.kind;
  // A field the caller never supplied must still be what a fresh recordable holds: nothing is invented on the way (same idea as
  // attribute-invented below; the observed timestamp, which the SDK itself supplies, is not compared).
  const Untouched &u = g_untouched;
  if (w.has_sev) c.check(s.severity == w.sev, "C13:severity:" + k, ctx + vf::sfmt(": severity %d exported, %d emitted", s.severity, w.sev));
  else c.check(s.severity == u.severity, "C13:field-invented:severity:" + k, ctx + vf::sfmt(": severity %d exported although none was supplied (an untouched record has %d)", s.severity, u.severity));
  if (w.has_body) check_value(c, "body", "", w.body, s.body, sink, ctx);
  else c.check(s.body.canon == u.body && !s.body.retained, "C13:field-invented:body:" + k, ctx + ": body '" + vfq::printable(s.body.canon, 60) + "' exported although none was supplied");
  for (auto &kv : w.attrs) {
    auto it = s.attrs.find(kv.first);
    c.check(it != s.attrs.end(), "C13:attribute-lost:" + k, ctx + ": attribute '" + vfq::printable(kv.first, 20) + "' is missing at the " + k + " exporter");
    check_value(c, "attr-value", kv.first, kv.second, it->second, sink, ctx);
  }
  for (auto &kv : s.attrs)
    c.check(w.attrs.count(kv.first) > 0 || w.free_keys.count(kv.first) > 0, "C13:attribute-invented:" + k,
            ctx + ": attribute '" + vfq::printable(kv.first, 20) + "' = '" + vfq::printable(kv.second.canon, 40) + "' was never supplied (" + k + " exporter)");
  if (w.has_ts) c.check(s.ts == w.ts, "C13:timestamp:" + k, ctx + vf::sfmt(": timestamp %lld exported, %lld emitted", (long long)s.ts, (long long)w.ts));
  else c.check(s.ts == u.ts, "C13:field-invented:timestamp:" + k, ctx + vf::sfmt(": timestamp %lld exported although none was supplied", (long long)s.ts));
  if (w.has_ev) {
    c.check(s.event_id == w.ev_id, "C13:event-id:" + k, ctx + vf::sfmt(": event id %lld exported, %lld emitted", (long long)s.event_id, (long long)w.ev_id));
    c.check(s.event_name == w.ev_name, "C13:event-name:" + k, ctx + ": event name '" + vfq::printable(s.event_name, 30) + "' exported, '" + vfq::printable(w.ev_name, 30) + "' emitted");
  } else if (!w.free_event) {
    c.check(s.event_id == u.event_id && s.event_name == u.event_name, "C13:field-invented:event-id:" + k,
            ctx + vf::sfmt(": event id %lld / name '", (long long)s.event_id) + vfq::printable(s.event_name, 30) + "' exported although none was supplied");
  }
  bool any = w.x_tid || w.x_sid || w.x_flg;
  check_component(c, "trace-id", w.x_tid, any, w.active, s.tid, w.tid, w.a_tid, kZeroTid, sink, ctx);
  check_component(c, "span-id", w.x_sid, any, w.active, s.sid, w.sid, w.a_sid, kZeroSid, sink, ctx);
  check_component(c, "trace-flags", w.x_flg, any, w.active, vf::sfmt("%02x", s.flags), vf::sfmt("%02x", w.flg), vf::sfmt("%02x", w.a_flg), "00", sink, ctx);
  c.check(s.resource == fx.want_resource, "C13:resource:" + k, ctx + ": exported with resource " + s.resource + ", the provider has " + fx.want_resource);
  c.check(s.scope == fx.want_scope, "C13:scope:" + k, ctx + ": exported with scope " + s.scope + ", the logger has " + fx.want_scope);
}

// Common epilogue, called when every Emit has returned: counts, scribble (and free), deferred export, comparison.
void finish(vf::Ctx &c, Fixture &fx, const std::vector<Want> &wants, bool free_mode, const char *nothing_sig, const std::string &desc) {
  c.stage("after-emit");
  auto count_check = [&](const Sink &s, size_t want_n) {
    if (s.recs.size() == want_n) return;
    std::string sig = nothing_sig ? std::string(nothing_sig) : std::string(s.recs.size() > want_n ? "C13:count:duplicated:" : "C13:count:lost:") + s.kind;
    c.fail(sig, desc + vf::sfmt(": the %s exporter received %zu records for %zu effective emits", s.kind, s.recs.size(), want_n));
  };
  for (auto &s : fx.sinks) {
    if (strcmp(s->kind, "simple") == 0) count_check(*s, wants.size());
    else c.check(s->recs.empty(), "C13:harness", "deferred exporter ran early");
  }
  c.stage("scribble");
  fx.scribble_all();
  if (free_mode) fx.free_all();
  c.stage("deferred-export");
  fx.provider->ForceFlush();
  c.step();
  std::string st = desc.substr(0, desc.find(' ')) + "|";
  for (auto &s : fx.sinks) {
    count_check(*s, wants.size());
    c.check(s->error.empty(), "C13:exporter-protocol", desc + ": " + s->error);
    for (size_t i = 0; i < wants.size(); ++i) check_record(c, fx, wants[i], s->recs[i], *s);
    st += s->kind;
    for (auto &r : s->recs) st += "[" + canon(r) + "]";
  }
  c.state(st);
  c.outcome(st);
  c.sample(desc + " => " + vfq::printable(st, 400));
}

// ---- caller-side argument objects -------------------------------------------------------------------
typedef std::vector<std::pair<nostd::string_view, AttributeValue>> KvVector;

struct Keep {  // typed caller objects that are not arena blocks
  std::vector<std::shared_ptr<void>> objs;
};

CallerValue *text_value(Fixture &fx, const std::string &text) {
  CallerValue *v = fx.val(V_STR_EMPTY, 0);
  v->vk = V_STR;
  v->n = text.size();
  v->p = static_cast<char *>(fx.arena.alloc(text.size()));
  memcpy(v->p, text.data(), text.size());
  return v;
}
nostd::string_view view_of(CallerValue *v) { return nostd::string_view(v->p, v->n); }

// a heap KvVector whose keys and values live in caller storage; scribbled and (pass 2) freed after the emit
KvVector *make_kv(Fixture &fx, std::shared_ptr<Keep> keep, const std::vector<std::pair<CallerValue *, CallerValue *>> &entries) {
  auto kv = std::make_shared<KvVector>();
  for (auto &e : entries) kv->emplace_back(view_of(e.first), e.second->value());
  kv->shrink_to_fit();
  keep->objs.push_back(kv);
  KvVector *raw = kv.get();
  fx.arena.note(raw->data(), raw->size() * sizeof(KvVector::value_type));
  fx.extra_scribble.push_back([raw]() { for (auto &e : *raw) e = std::make_pair(nostd::string_view("zz", 2), AttributeValue((int64_t)-1)); });
  return raw;
}

const int64_t kTs = 1700000000123456789ll;

struct ArgSet {
  EmitArgs a;
  CallerValue *body, *k1, *k2, *k1b, *v1, *v2, *v3;
  KvVector *kv = nullptr;  // the container behind a.attrs
  std::shared_ptr<Keep> keep = std::make_shared<Keep>();
};
void build_args(Fixture &fx, ArgSet &s) {
  s.body = fx.val(V_STR, 0);
  s.k1 = text_value(fx, "key.one"); s.k2 = text_value(fx, "key.two"); s.k1b = text_value(fx, "key.one");
  s.v1 = fx.val(V_STR, 1); s.v2 = fx.val(V_I64, 2); s.v3 = fx.val(V_STR_LONG, 3);
  KvVector *kv = s.kv = make_kv(fx, s.keep, {{s.k1, s.v1}, {s.k2, s.v2}, {s.k1b, s.v3}});
  auto view = std::make_shared<common::KeyValueIterableView<KvVector>>(*kv);
  s.keep->objs.push_back(view);
  auto ev = std::make_shared<logs::EventId>(kBigEventId, "evt-name");
  s.keep->objs.push_back(ev);
  logs::EventId *evraw = ev.get();
  fx.extra_scribble.push_back([evraw]() { for (char *q = evraw->name_.get(); *q; ++q) *q = '#'; evraw->id_ = -1; });
  s.a.sev = logs::Severity::kWarn;
  s.a.body = s.body->value();
  s.a.attrs = view.get();
  s.a.ts = common::SystemTimestamp(std::chrono::nanoseconds(kTs));
  s.a.ev = evraw;
  s.a.ctx = ctx_of(0xc1, 0x09);
  s.a.tid = tid_of(0xd1);
  s.a.sid = sid_of(0xe1);
  s.a.flg = trace::TraceFlags(0x03);
  EmitArgs *ap = &s.a;
  std::shared_ptr<Keep> keep = s.keep;
  fx.extra_scribble.push_back([ap]() {
    ap->sev = logs::Severity::kTrace;
    ap->body = AttributeValue((int64_t)-1);
    ap->ts = common::SystemTimestamp(std::chrono::nanoseconds(1));
    ap->ctx = ctx_of(0x11, 0);
    ap->tid = tid_of(0x22);
    ap->sid = sid_of(0x33);
    ap->flg = trace::TraceFlags(0x40);
  });
  fx.extra_free.push_back([keep]() { keep->objs.clear(); });
}
void model_arg(Want &w, const ArgSet &s, int kind) {
  switch (kind) {
    case K_SEV: w.has_sev = true; w.sev = (int)logs::Severity::kWarn; break;
    case K_BODY: set_body(w, want_of(s.body)); break;
    case K_ATTR: set_attr(w, "key.one", want_of(s.v1)); set_attr(w, "key.two", want_of(s.v2)); set_attr(w, "key.one", want_of(s.v3)); break;  // key.one repeated: last write wins
    case K_TS: w.has_ts = true; w.ts = kTs; break;
    case K_EV: w.has_ev = true; w.ev_id = kBigEventId; w.ev_name = "evt-name"; break;
    case K_CTX: w.x_tid = w.x_sid = w.x_flg = true; w.tid = hex(tid_of(0xc1)); w.sid = hex(sid_of(0xc1)); w.flg = 0x09; break;
    case K_TID: w.x_tid = true; w.tid = hex(tid_of(0xd1)); break;
    case K_SID: w.x_sid = true; w.sid = hex(sid_of(0xe1)); break;
    default: w.x_flg = true; w.flg = 0x03; break;
  }
}
const char *kKindName[NK] = {"severity", "body", "attributes", "timestamp", "event-id", "span-context", "trace-id", "span-id", "trace-flags"};

// ---- part A: every order of argument kinds -------------------------------------------------------------
const auto kT0 = make_table<false, 0, 0>(std::make_index_sequence<1>{});
const auto kT1 = make_table<false, 1, 0>(std::make_index_sequence<ipow(NK, 1)>{});
const auto kT2 = make_table<false, 2, 0>(std::make_index_sequence<ipow(NK, 2)>{});
const auto kT3 = make_table<false, 3, 0>(std::make_index_sequence<ipow(NK, 3)>{});
const auto kR0 = make_table<true, 0, 0>(std::make_index_sequence<1>{});
const auto kR1 = make_table<true, 1, 0>(std::make_index_sequence<ipow(NK, 1)>{});
const auto kR2 = make_table<true, 2, 0>(std::make_index_sequence<ipow(NK, 2)>{});

struct SiteRef { int n, i; bool rec; };
std::vector<SiteRef> g_sites, g_sites_small;
SiteFn lookup(const SiteRef &r) {
  if (r.rec) return r.n == 0 ? kR0[r.i] : r.n == 1 ? kR1[r.i] : kR2[r.i];
  switch (r.n) {
    case 0: return kT0[r.i];
    case 1: return kT1[r.i];
    case 2: return kT2[r.i];
    case 3: return kT3[r.i];
    default: return site4(r.i);
  }
}
std::string site_name(const SiteRef &r) {
  std::string o = r.rec ? "EmitLogRecord(CreateLogRecord()" : "EmitLogRecord(";
  for (int j = 0; j < r.n; ++j) o += std::string(j || r.rec ? ", " : "") + kKindName[digit(r.n, r.i, j)];
  return o + ")";
}
void build_sites(bool thorough) {
  for (int n = 0; n <= (thorough ? 4 : 3); ++n)
    for (int i = 0; i < ipow(NK, n); ++i)
      if (distinct(n, i)) g_sites.push_back({n, i, false});
  for (int n = 0; n <= 2; ++n)
    for (int i = 0; i < ipow(NK, n); ++i)
      if (distinct(n, i)) g_sites.push_back({n, i, true});
  for (auto &s : g_sites) if (s.n <= 1 && !s.rec) g_sites_small.push_back(s);
}

// --procs=N (development / demonstration aid, not used by the registered tiers): only processor set N is explored
int g_only_procs = -1;
int pick_procs(vf::Ctx &c) { return g_only_procs >= 0 ? g_only_procs : c.pick("processors", 4); }

void run_orders(vf::Ctx &c) {
  const SiteRef &site = g_sites[c.pick("site", (int)g_sites.size())];
  int proccfg = pick_procs(c);
  int spancfg = c.pick("spans", kSpanCfgs);
  Fixture fx(proccfg);
  ArgSet args;
  build_args(fx, args);
  ActiveSpans spans;
  setup_spans(spans, spancfg);
  Want w;
  w.desc = "A " + site_name(site) + " processors " + kProcCfgName[proccfg] + " spans " + kSpanCfgName[spancfg];
  note_active(w, spans);
  for (int j = 0; j < site.n; ++j) model_arg(w, args, digit(site.n, site.i, j));
  SiteFn fn = lookup(site);
  c.check(fn != nullptr, "C13:harness", "no call site for " + site_name(site));
  c.stage("EmitLogRecord(args...)");
  fn(*fx.logger, args.a);
  c.step();
  finish(c, fx, {w}, false, nullptr, w.desc);
}

// ---- part B: value alternatives and carrier types -----------------------------------------------------
// Typed caller objects: scribble overwrites the characters in place, free deletes the object.
std::string *heap_string(Fixture &fx, std::shared_ptr<Keep> keep, const std::string &text) {
  auto s = std::make_shared<std::string>(text);
  keep->objs.push_back(s);
  std::string *raw = s.get();
  fx.arena.note(raw, sizeof(std::string));
  fx.arena.note(raw->data(), raw->size() + 1);
  fx.extra_scribble.push_back([raw]() { for (char &ch : *raw) ch = scr(ch); });
  return raw;
}
std::string scribbled(std::string s) { for (char &ch : s) ch = scr(ch); return s; }

void run_values(vf::Ctx &c) {
  int what = c.pick("what", 7);
  int proccfg = pick_procs(c);
  bool free_mode = c.flip("free-after-emit");
  Fixture fx(proccfg);
  auto keep = std::make_shared<Keep>();
  fx.extra_free.push_back([keep]() { keep->objs.clear(); });
  Want w;
  std::string d;
  logs::Logger &lg = *fx.logger;
  c.stage("EmitLogRecord(value)");
  if (what == 0) {  // body: every AttributeValue alternative, passed as an AttributeValue lvalue
    VK vk = (VK)c.pick("kind", NVK);
    CallerValue *v = fx.val(vk, 0);
    AttributeValue av = v->value();
    set_body(w, want_of(v));
    d = std::string("body=AttributeValue(") + kVKName[vk] + ")";
    lg.EmitLogRecord(av);
  } else if (what == 1) {  // body: C++ carrier types
    int carrier = c.pick("carrier", 10);
    w.has_body = true;
    switch (carrier) {
      case 0: { CallerValue *v = fx.val(V_CSTR, 0); const char *p = v->p; w.body = want_of(v); d = "body=const char*"; lg.EmitLogRecord(p); break; }
      case 1: { CallerValue *v = fx.val(V_STR, 0); nostd::string_view sv(v->p, v->n); w.body = want_of(v); d = "body=nostd::string_view"; lg.EmitLogRecord(sv); break; }
      case 2: { CallerValue *v = fx.val(V_STR_NUL, 0); nostd::string_view sv(v->p, v->n); w.body = want_of(v); d = "body=nostd::string_view with NUL, severity first"; lg.EmitLogRecord(logs::Severity::kInfo, sv); w.has_sev = true; w.sev = (int)logs::Severity::kInfo; break; }
      case 3: case 4: {
        std::string text = carrier == 3 ? "std-string-" + std::string(40, 'q') : "short";
        std::string *s = heap_string(fx, keep, text);
        w.body = want_text(text, s->data(), carrier == 3 ? "std::string (heap buffer)" : "std::string (short)");
        d = std::string("body=") + w.body.kind_name;
        lg.EmitLogRecord(*s);
        break;
      }
      case 5: { int v = 42; w.body = WantVal{"i:42", nullptr, "int"}; d = "body=int"; lg.EmitLogRecord(v); break; }
      case 6: { bool v = true; w.body = WantVal{"b:1", nullptr, "bool"}; d = "body=bool"; lg.EmitLogRecord(v); break; }
      case 7: { double v = 2.5; w.body = WantVal{"d:2.5", nullptr, "double"}; d = "body=double"; lg.EmitLogRecord(v); break; }
      case 8: { int64_t v = -7; w.body = WantVal{"i:-7", nullptr, "int64_t"}; d = "body=int64_t, severity last"; lg.EmitLogRecord(v, logs::Severity::kFatal4); w.has_sev = true; w.sev = (int)logs::Severity::kFatal4; break; }
      default: {
        CallerValue *v = fx.val(V_SP_I64, 0);
        nostd::span<const int64_t> sp(reinterpret_cast<const int64_t *>(v->p), v->n);
        w.body = want_of(v); d = "body=nostd::span<const int64_t>";
        lg.EmitLogRecord(sp);
      }
    }
  } else if (what == 2) {  // attribute value: every alternative, through a KeyValueIterable
    VK vk = (VK)c.pick("kind", NVK);
    CallerValue *k = text_value(fx, "attr.key"), *v = fx.val(vk, 0);
    KvVector *kv = make_kv(fx, keep, {{k, v}});
    common::KeyValueIterableView<KvVector> view(*kv);
    const common::KeyValueIterable &base = view;
    set_attr(w, "attr.key", want_of(v));
    d = std::string("attributes={attr.key: ") + kVKName[vk] + "} as KeyValueIterable";
    lg.EmitLogRecord(base);
  } else if (what == 3) {  // attribute list shapes x generic carriers
    int shape = c.pick("shape", 5), carrier = c.pick("carrier", 4);
    std::vector<std::pair<CallerValue *, CallerValue *>> es;
    const char *shape_name = "";
    switch (shape) {
      case 0: shape_name = "{a:string,b:int64}"; es = {{text_value(fx, "a"), fx.val(V_STR, 1)}, {text_value(fx, "b"), fx.val(V_I64, 2)}}; break;
      case 1: shape_name = "{a:first,a:second} (duplicate key)"; es = {{text_value(fx, "a"), fx.val(V_STR, 1)}, {text_value(fx, "a"), fx.val(V_STR, 2)}}; break;
      case 2: shape_name = "{} (empty)"; break;
      case 3: shape_name = "{'':string} (empty key)"; es = {{text_value(fx, ""), fx.val(V_STR, 1)}}; break;
      default: shape_name = "{a:string,b:span-string,a:int64} (duplicate key, other type)"; es = {{text_value(fx, "a"), fx.val(V_STR, 1)}, {text_value(fx, "b"), fx.val(V_SP_STR, 2)}, {text_value(fx, "a"), fx.val(V_I64, 3)}};
    }
    for (auto &e : es) set_attr(w, std::string(e.first->p, e.first->n), want_of(e.second));  // last write wins
    KvVector *kv = make_kv(fx, keep, es);
    const char *cn = "";
    switch (carrier) {
      case 0: { cn = "const KeyValueIterable&"; common::KeyValueIterableView<KvVector> view(*kv); const common::KeyValueIterable &base = view; lg.EmitLogRecord(logs::Severity::kDebug, base); break; }
      // (an lvalue of a class derived from KeyValueIterable does not compile: the trait applies is_base_of to the reference type)
      case 1: { cn = "KeyValueIterableView<vector>&& (MakeAttributes(container))"; lg.EmitLogRecord(logs::Severity::kDebug, common::MakeAttributes(*kv)); break; }
      case 2: { cn = "vector<pair<string_view,AttributeValue>>"; lg.EmitLogRecord(logs::Severity::kDebug, *kv); break; }
      default: { cn = "span<const pair<string_view,AttributeValue>>"; nostd::span<const std::pair<nostd::string_view, AttributeValue>> sp(kv->data(), kv->size()); lg.EmitLogRecord(logs::Severity::kDebug, sp); }
    }
    w.has_sev = true; w.sev = (int)logs::Severity::kDebug;
    d = std::string("attributes=") + shape_name + " as " + cn;
  } else if (what == 5) {  // event ids, timestamps and identities passed as temporaries
    int carrier = c.pick("carrier", 6);
    switch (carrier) {
      case 0: d = "EventId(id, name) temporary"; lg.EmitLogRecord(logs::EventId(kNegEventId, "temporary-name")); w.has_ev = true; w.ev_id = kNegEventId; w.ev_name = "temporary-name"; break;
      case 1: d = "EventId(id) without a name"; c.stage("EmitLogRecord(EventId(id))"); lg.EmitLogRecord(logs::EventId(32)); w.has_ev = true; w.ev_id = 32; w.ev_name = ""; break;
      case 2: d = "EventId(id, \"\")"; lg.EmitLogRecord(logs::EventId(33, "")); w.has_ev = true; w.ev_id = 33; w.ev_name = ""; break;
      case 3: {
        d = "std::chrono::system_clock::time_point";
        std::chrono::system_clock::time_point tp{std::chrono::duration_cast<std::chrono::system_clock::duration>(std::chrono::nanoseconds(kTs))};
        lg.EmitLogRecord(tp, logs::Severity::kTrace);
        w.has_ts = true; w.ts = kTs; w.has_sev = true; w.sev = (int)logs::Severity::kTrace;
        break;
      }
      case 4: d = "SystemTimestamp temporary, then trace-id/span-id/trace-flags temporaries";
        lg.EmitLogRecord(common::SystemTimestamp(std::chrono::nanoseconds(kTs)), tid_of(0xd1), sid_of(0xe1), trace::TraceFlags(0x03));
        w.has_ts = true; w.ts = kTs; w.x_tid = w.x_sid = w.x_flg = true; w.tid = hex(tid_of(0xd1)); w.sid = hex(sid_of(0xe1)); w.flg = 3;
        break;
      default: d = "SpanContext temporary after trace-id (the context wins), body literal";
        lg.EmitLogRecord(tid_of(0xd1), ctx_of(0xc1, 0x09), "literal body");
        w.x_tid = w.x_sid = w.x_flg = true; w.tid = hex(tid_of(0xc1)); w.sid = hex(sid_of(0xc1)); w.flg = 9;
        set_body(w, WantVal{"s:12:literal body", nullptr, "string literal"});
    }
  } else if (what == 6) {  // one call writes the same field twice: the later argument wins (left to right, logger.h)
    int shape = c.pick("shape", 4);
    CallerValue *k1a = text_value(fx, "key.one"), *k2 = text_value(fx, "key.two"), *k1b = text_value(fx, "key.one"), *k3 = text_value(fx, "key.three");
    CallerValue *v1 = fx.val(V_STR, 1), *v2 = fx.val(V_I64, 2), *v3 = fx.val(V_STR_LONG, 3), *v4 = fx.val(V_SP_STR, 4);
    KvVector *a = make_kv(fx, keep, {{k1a, v1}, {k2, v2}}), *b = make_kv(fx, keep, {{k1b, v3}, {k3, v4}});
    auto model = [&](bool a_first) {
      if (a_first) { set_attr(w, "key.one", want_of(v1)); set_attr(w, "key.two", want_of(v2)); }
      set_attr(w, "key.one", want_of(v3)); set_attr(w, "key.three", want_of(v4));
      if (!a_first) { set_attr(w, "key.one", want_of(v1)); set_attr(w, "key.two", want_of(v2)); }
    };
    switch (shape) {
      case 0: d = "attributes A={key.one,key.two}, attributes B={key.one,key.three} (two containers)"; model(true); lg.EmitLogRecord(*a, *b); break;
      case 1: d = "attributes B={key.one,key.three}, attributes A={key.one,key.two} (two containers)"; model(false); lg.EmitLogRecord(*b, *a); break;
      case 2: {
        d = "attributes A as KeyValueIterable, severity, attributes B as span";
        common::KeyValueIterableView<KvVector> view(*a);
        const common::KeyValueIterable &base = view;
        nostd::span<const std::pair<nostd::string_view, AttributeValue>> sp(b->data(), b->size());
        model(true); w.has_sev = true; w.sev = (int)logs::Severity::kInfo3;
        lg.EmitLogRecord(base, logs::Severity::kInfo3, sp);
        break;
      }
      default: {
        d = "body (string), attributes A, body (int64): two bodies";
        CallerValue *b1 = fx.val(V_STR, 5), *b2 = fx.val(V_I64, 6);
        AttributeValue av1 = b1->value(), av2 = b2->value();
        set_body(w, want_of(b1)); set_body(w, want_of(b2));
        set_attr(w, "key.one", want_of(v1)); set_attr(w, "key.two", want_of(v2));
        lg.EmitLogRecord(av1, *a, av2);
      }
    }
  } else {  // containers with their own element types
    int carrier = c.pick("carrier", 4);
    std::string t1 = "map-value-" + std::string(30, 'm'), t2 = "v2";
    if (carrier == 0) {
      auto m = std::make_shared<std::map<std::string, std::string>>();
      (*m)["k1"] = t1; (*m)["k2"] = t2;
      keep->objs.push_back(m);
      auto *raw = m.get();
      for (auto &kv : *raw) { fx.arena.note(kv.second.data(), kv.second.size() + 1); fx.arena.note(&kv.second, sizeof(std::string)); }
      fx.extra_scribble.push_back([raw]() { for (auto &kv : *raw) for (char &ch : kv.second) ch = scr(ch); });
      set_attr(w, "k1", want_text(t1, (*raw)["k1"].data(), "std::string in std::map"));
      set_attr(w, "k2", want_text(t2, (*raw)["k2"].data(), "std::string in std::map"));
      d = "attributes=std::map<std::string,std::string>";
      lg.EmitLogRecord(*raw);
    } else if (carrier == 1) {
      auto m = std::make_shared<std::vector<std::pair<std::string, int64_t>>>();
      m->emplace_back("n1", 11); m->emplace_back("n2", 22); m->emplace_back("n1", 33);
      keep->objs.push_back(m);
      auto *raw = m.get();
      fx.extra_scribble.push_back([raw]() { for (auto &kv : *raw) { kv.second = -1; for (char &ch : kv.first) ch = scr(ch); } });
      set_attr(w, "n1", WantVal{"i:33", nullptr, "int64_t"});
      set_attr(w, "n2", WantVal{"i:22", nullptr, "int64_t"});
      d = "attributes=std::vector<std::pair<std::string,int64_t>> with a repeated key";
      lg.EmitLogRecord(*raw);
    } else if (carrier == 2) {
      CallerValue *v1 = fx.val(V_STR, 1), *v2 = fx.val(V_SP_DBL, 2), *k1 = text_value(fx, "i1"), *k2 = text_value(fx, "i2");
      set_attr(w, "i1", want_of(v1)); set_attr(w, "i2", want_of(v2));
      d = "attributes=MakeAttributes({{i1,string},{i2,span-double}}), body last";
      CallerValue *b = fx.val(V_STR, 3);
      set_body(w, want_of(b));
      lg.EmitLogRecord(common::MakeAttributes({{view_of(k1), v1->value()}, {view_of(k2), v2->value()}}), view_of(b));
    } else {
      auto m = std::make_shared<std::unordered_map<std::string, AttributeValue>>();
      CallerValue *v1 = fx.val(V_CSTR, 1), *v2 = fx.val(V_U64, 2);
      (*m)["u1"] = v1->value(); (*m)["u2"] = v2->value();
      keep->objs.push_back(m);
      auto *raw = m.get();
      fx.extra_scribble.push_back([raw]() { for (auto &kv : *raw) kv.second = AttributeValue(false); });
      set_attr(w, "u1", want_of(v1)); set_attr(w, "u2", want_of(v2));
      d = "attributes=std::unordered_map<std::string,AttributeValue>";
      lg.EmitLogRecord(*raw);
    }
  }
  c.step();
  w.desc = "B " + d + " processors " + kProcCfgName[proccfg] + (free_mode ? " storage freed after Emit" : " storage scribbled after Emit");
  finish(c, fx, {w}, free_mode, nullptr, w.desc);
}

// ---- part C: the record API -----------------------------------------------------------------------------
const int kSetters = 12;
void run_record(vf::Ctx &c) {
  int maxlen = c.thorough() ? 4 : 3;
  int proccfg = pick_procs(c);
  int spanmode = c.pick("span-timing", 4);  // 0 none, 1 active at creation and emit, 2 at creation only, 3 at emit only
  int emit_mode = c.pick("emit", 2);        // 0 EmitLogRecord(record), 1 EmitLogRecord(record, severity)
  int len = c.pick("setters", maxlen + 1);
  Fixture fx(proccfg);
  Want w;
  std::string d = "C CreateLogRecord";
  nostd::unique_ptr<logs::LogRecord> rec;
  {
    ActiveSpans at_create;
    if (spanmode == 1 || spanmode == 2) at_create.push(ctx_of(0xa1, 1));
    note_active(w, at_create);
    c.stage("CreateLogRecord");
    std::unique_ptr<ActiveSpans> later;
    rec = fx.logger->CreateLogRecord();
    c.check((bool)rec, "C13:create-null", "CreateLogRecord of an enabled logger returned null");
    if (spanmode == 2) { ActiveSpans ended; std::swap(ended.scopes, at_create.scopes); }  // the span ends before the emit
    ActiveSpans at_emit;
    if (spanmode == 3) at_emit.push(ctx_of(0xb1, 1));
    CallerValue *k1 = text_value(fx, "k1"), *k2 = text_value(fx, "k2");
    for (int i = 0; i < len; ++i) {
      int op = c.pick("setter", kSetters);
      c.stage("setter");
      switch (op) {
        case 0: rec->SetSeverity(logs::Severity::kWarn); w.has_sev = true; w.sev = (int)logs::Severity::kWarn; d += ".SetSeverity"; break;
        case 1: { CallerValue *v = fx.val(V_STR, i); rec->SetBody(v->value()); set_body(w, want_of(v)); d += ".SetBody(string)"; break; }
        case 2: { CallerValue *v = fx.val(V_I64, i); rec->SetBody(v->value()); set_body(w, want_of(v)); d += ".SetBody(int64)"; break; }
        case 3: { CallerValue *v = fx.val(V_STR, 10 + i); rec->SetAttribute(view_of(k1), v->value()); set_attr(w, "k1", want_of(v)); d += ".SetAttribute(k1,string)"; break; }
        case 4: { CallerValue *v = fx.val(V_I64, 20 + i); rec->SetAttribute(view_of(k1), v->value()); set_attr(w, "k1", want_of(v)); d += ".SetAttribute(k1,int64)"; break; }
        case 5: { CallerValue *v = fx.val(V_SP_STR, 30 + i); rec->SetAttribute(view_of(k2), v->value()); set_attr(w, "k2", want_of(v)); d += ".SetAttribute(k2,span-string)"; break; }
        case 6: rec->SetTimestamp(common::SystemTimestamp(std::chrono::nanoseconds(kTs + i))); w.has_ts = true; w.ts = kTs + i; d += ".SetTimestamp"; break;
        case 7: { CallerValue *nm = text_value(fx, std::string("ev\0nt", 5)); rec->SetEventId(7 + i, view_of(nm)); w.has_ev = true; w.ev_id = 7 + i; w.ev_name = std::string("ev\0nt", 5); d += ".SetEventId(id,name)"; break; }
        case 8: rec->SetEventId(kBigEventId + 100 + i); w.has_ev = true; w.ev_id = kBigEventId + 100 + i; w.ev_name = ""; d += ".SetEventId(id)"; break;
        case 9: rec->SetTraceId(tid_of(0xd1)); w.x_tid = true; w.tid = hex(tid_of(0xd1)); d += ".SetTraceId"; break;
        case 10: rec->SetSpanId(sid_of(0xe1)); w.x_sid = true; w.sid = hex(sid_of(0xe1)); d += ".SetSpanId"; break;
        default: rec->SetTraceFlags(trace::TraceFlags(0x03)); w.x_flg = true; w.flg = 0x03; d += ".SetTraceFlags"; break;
      }
      c.step();
    }
    c.stage("EmitLogRecord(record)");
    if (emit_mode == 0) { fx.logger->EmitLogRecord(std::move(rec)); d += " EmitLogRecord(record)"; }
    else { fx.logger->EmitLogRecord(std::move(rec), logs::Severity::kError); w.has_sev = true; w.sev = (int)logs::Severity::kError; d += " EmitLogRecord(record, severity)"; }
    c.step();
    c.check(!rec, "C13:record-not-consumed", "EmitLogRecord left the record with the caller");
  }
  static const char *timing[4] = {"no span", "span active at creation and emit", "span ended before the emit", "span started after creation"};
  w.desc = d + " processors " + kProcCfgName[proccfg] + " " + timing[spanmode];
  finish(c, fx, {w}, false, nullptr, w.desc);
}

// ---- part F (definitions; used by part D as well): the convenience surface of logs::Logger ---------------------
// The non-template wrappers are taken by address with their exact signature, so overload resolution cannot fall through to the variadic
// templates of the same name; the templates are called with argument types no wrapper accepts.
typedef logs::Logger L;
typedef void (L::*WrapEv)(const logs::EventId &, nostd::string_view, const common::KeyValueIterable &) noexcept;
typedef void (L::*WrapId)(int64_t, nostd::string_view, const common::KeyValueIterable &) noexcept;
typedef void (L::*WrapFmt)(nostd::string_view, const common::KeyValueIterable &) noexcept;
typedef void (L::*WrapMsg)(nostd::string_view) noexcept;
const WrapEv kWrapEv[6] = {&L::Trace, &L::Debug, &L::Info, &L::Warn, &L::Error, &L::Fatal};
const WrapId kWrapId[6] = {&L::Trace, &L::Debug, &L::Info, &L::Warn, &L::Error, &L::Fatal};
const WrapFmt kWrapFmt[6] = {&L::Trace, &L::Debug, &L::Info, &L::Warn, &L::Error, &L::Fatal};
const WrapMsg kWrapMsg[6] = {&L::Trace, &L::Debug, &L::Info, &L::Warn, &L::Error, &L::Fatal};
const char *kLevelName[6] = {"Trace", "Debug", "Info", "Warn", "Error", "Fatal"};
const logs::Severity kLevelSev[6] = {logs::Severity::kTrace, logs::Severity::kDebug, logs::Severity::kInfo, logs::Severity::kWarn, logs::Severity::kError, logs::Severity::kFatal};

template <class... A>
void call_level(L &l, int level, A &&...a) {  // the variadic Trace...Fatal(args...)
  switch (level) {
    case 0: l.Trace(std::forward<A>(a)...); break;
    case 1: l.Debug(std::forward<A>(a)...); break;
    case 2: l.Info(std::forward<A>(a)...); break;
    case 3: l.Warn(std::forward<A>(a)...); break;
    case 4: l.Error(std::forward<A>(a)...); break;
    default: l.Fatal(std::forward<A>(a)...); break;
  }
}

const int kConvForms = 14;
const char *kConvFormName[kConvForms] = {
    "(const EventId&, format, attributes)", "(int64 event id, format, attributes)", "(format, attributes)", "(message)",
    "Log(severity, const EventId&, format, attributes)", "Log(severity, int64 event id, format, attributes)", "Log(severity, format, attributes)", "Log(severity, message)",
    "<variadic>()", "<variadic>(AttributeValue body, attributes)", "<variadic>(EventId, attribute container, timestamp, AttributeValue body)", "<variadic>(span-context, literal body)",
    "<variadic>(trace-id, span-id, trace-flags, timestamp, EventId, AttributeValue body, attributes)", "<variadic>(string_view body, attribute container)"};
// the severity passed to Log(): never one of the six round levels, different per form
logs::Severity log_severity(int level, int form) { return (logs::Severity)((int)kLevelSev[level] + 1 + form % 3); }

struct ConvArgs {
  ArgSet set;
  CallerValue *fmt;
  int64_t id;
};
void build_conv(Fixture &fx, ConvArgs &a, int form, int level) {
  build_args(fx, a.set);
  a.fmt = text_value(fx, vf::sfmt("format {x} of form %d level %d", form, level));
  a.id = 4200 + 10 * form + level;
}
std::string conv_name(int form, int level) { return form >= 4 && form <= 7 ? std::string(kConvFormName[form]) + vf::sfmt(" [severity %d]", (int)log_severity(level, form)) : std::string(kLevelName[level]) + kConvFormName[form]; }

void call_conv(L &lg, ConvArgs &a, int form, int level) {
  EmitArgs &e = a.set.a;
  nostd::string_view fmt = view_of(a.fmt);
  const logs::EventId &ev = *e.ev;
  const common::KeyValueIterable &attrs = *e.attrs;
  switch (form) {
    case 0: (lg.*kWrapEv[level])(ev, fmt, attrs); break;
    case 1: (lg.*kWrapId[level])(a.id, fmt, attrs); break;
    case 2: (lg.*kWrapFmt[level])(fmt, attrs); break;
    case 3: (lg.*kWrapMsg[level])(fmt); break;
    case 4: lg.Log(log_severity(level, form), ev, fmt, attrs); break;
    case 5: lg.Log(log_severity(level, form), a.id, fmt, attrs); break;
    case 6: lg.Log(log_severity(level, form), fmt, attrs); break;
    case 7: lg.Log(log_severity(level, form), fmt); break;
    case 8: call_level(lg, level); break;
    case 9: call_level(lg, level, e.body, attrs); break;
    case 10: call_level(lg, level, *e.ev, *a.set.kv, e.ts, e.body); break;
    case 11: call_level(lg, level, e.ctx, "literal body"); break;
    case 12: call_level(lg, level, e.tid, e.sid, e.flg, e.ts, *e.ev, e.body, attrs); break;
    default: call_level(lg, level, fmt, *a.set.kv); break;
  }
}
void model_conv(Want &w, const ConvArgs &a, int form, int level) {
  w.has_sev = true;
  w.sev = form >= 4 && form <= 7 ? (int)log_severity(level, form) : (int)kLevelSev[level];
  auto fmt_body = [&]() { set_body(w, want_of(a.fmt)); };
  auto ev_id_only = [&]() { w.has_ev = true; w.ev_id = a.id; w.ev_name = ""; };
  switch (form) {
    case 0: case 4: model_arg(w, a.set, K_EV); fmt_body(); model_arg(w, a.set, K_ATTR); break;
    case 1: case 5: ev_id_only(); fmt_body(); model_arg(w, a.set, K_ATTR); break;
    case 2: case 6: case 13: fmt_body(); model_arg(w, a.set, K_ATTR); break;
    case 3: case 7: fmt_body(); break;
    case 8: break;
    case 9: model_arg(w, a.set, K_BODY); model_arg(w, a.set, K_ATTR); break;
    case 10: model_arg(w, a.set, K_EV); model_arg(w, a.set, K_ATTR); model_arg(w, a.set, K_TS); model_arg(w, a.set, K_BODY); break;
    case 11: model_arg(w, a.set, K_CTX); set_body(w, WantVal{"s:12:literal body", nullptr, "string literal"}); break;
    default:
      model_arg(w, a.set, K_TID); model_arg(w, a.set, K_SID); model_arg(w, a.set, K_FLG); model_arg(w, a.set, K_TS);
      model_arg(w, a.set, K_EV); model_arg(w, a.set, K_BODY); model_arg(w, a.set, K_ATTR);
  }
}

// ---- part D: null records, disabled logger ---------------------------------------------------------------
void run_nothing(vf::Ctx &c) {
  int mode = c.pick("mode", 7);
  int proccfg = pick_procs(c);
  int spancfg = c.pick("spans", 2);
  Fixture fx(proccfg);
  ConvArgs cargs;
  int conv_form = mode == 6 ? c.pick("form", kConvForms) : 0, conv_level = conv_form % 6;
  build_conv(fx, cargs, conv_form, conv_level);
  ArgSet &args = cargs.set;
  ActiveSpans spans;
  setup_spans(spans, spancfg);
  std::string d;
  const char *sig = "C13:null-record-exported";
  c.stage("emit-nothing");
  switch (mode) {
    case 0: d = "EmitLogRecord(null record)"; fx.logger->EmitLogRecord(nostd::unique_ptr<logs::LogRecord>()); break;
    case 1: d = "EmitLogRecord(null record, severity, body, attributes)"; fx.logger->EmitLogRecord(nostd::unique_ptr<logs::LogRecord>(), args.a.sev, args.a.body, *args.a.attrs); break;
    case 2: d = "disabled logger: EmitLogRecord(null record)"; fx.disabled_logger->EmitLogRecord(nostd::unique_ptr<logs::LogRecord>()); break;
    case 3: {
      const SiteRef &site = g_sites_small[c.pick("site", (int)g_sites_small.size())];
      d = "disabled logger: " + site_name(site);
      sig = "C13:disabled-logger-exported";
      lookup(site)(*fx.disabled_logger, args.a);
      break;
    }
    case 4: {
      d = "disabled logger: CreateLogRecord + setters + EmitLogRecord(record)";
      sig = "C13:disabled-logger-exported";
      auto rec = fx.disabled_logger->CreateLogRecord();
      if (rec) {
        rec->SetSeverity(logs::Severity::kError);
        rec->SetBody(args.a.body);
        rec->SetAttribute("k", args.a.body);
        rec->SetTraceId(args.a.tid);
        rec->SetEventId(5, "name");
      }
      fx.disabled_logger->EmitLogRecord(std::move(rec));
      break;
    }
    case 5:
      d = "disabled logger: EmitLogRecord(severity, body, attributes, span-context)";
      sig = "C13:disabled-logger-exported";
      fx.disabled_logger->EmitLogRecord(args.a.sev, args.a.body, *args.a.attrs, args.a.ctx);
      break;
    default:
      d = "disabled logger: " + conv_name(conv_form, conv_level);
      sig = "C13:disabled-logger-exported";
      call_conv(*fx.disabled_logger, cargs, conv_form, conv_level);
  }
  c.step();
  d = "D " + d + " processors " + kProcCfgName[proccfg];
  for (auto &s : fx.sinks) c.check(s->recs.empty(), sig, d + vf::sfmt(": the %s exporter received %zu records", s->kind, s->recs.size()));
  fx.provider->ForceFlush();
  for (auto &s : fx.sinks) c.check(s->recs.empty(), sig, d + vf::sfmt(": the %s exporter received %zu records after the flush", s->kind, s->recs.size()));
  // the enabled logger of the same provider still works and its record is the only one
  Want w;
  w.desc = d + ", then the enabled logger emits";
  note_active(w, spans);
  model_arg(w, args, K_SEV);
  model_arg(w, args, K_BODY);
  c.stage("EmitLogRecord(args...)");
  fx.logger->EmitLogRecord(args.a.sev, args.a.body);
  c.step();
  finish(c, fx, {w}, false, nullptr, w.desc);
}

// ---- part E: two emits -----------------------------------------------------------------------------------
void emit_shape(vf::Ctx &c, Fixture &fx, int shape, int ordinal, Want &w, std::string &d) {
  logs::Logger &lg = *fx.logger;
  switch (shape) {
    case 0: { CallerValue *b = fx.val(V_STR, ordinal); AttributeValue av = b->value(); lg.EmitLogRecord(logs::Severity::kInfo, av); w.has_sev = true; w.sev = (int)logs::Severity::kInfo; set_body(w, want_of(b)); d += " Emit(severity,string)"; break; }
    case 1: {
      CallerValue *k = text_value(fx, "k"), *v = fx.val(V_SP_I64, ordinal);
      auto keep = std::make_shared<Keep>();
      KvVector *kv = make_kv(fx, keep, {{k, v}});
      fx.extra_free.push_back([keep]() { keep->objs.clear(); });
      lg.EmitLogRecord(*kv, tid_of(0xd1));
      set_attr(w, "k", want_of(v)); w.x_tid = true; w.tid = hex(tid_of(0xd1));
      d += " Emit(attributes,trace-id)";
      break;
    }
    case 2: { lg.EmitLogRecord(); d += " Emit()"; break; }
    case 3: { lg.EmitLogRecord(ctx_of(0xc1, 0x09), common::SystemTimestamp(std::chrono::nanoseconds(kTs + ordinal))); w.x_tid = w.x_sid = w.x_flg = true; w.tid = hex(tid_of(0xc1)); w.sid = hex(sid_of(0xc1)); w.flg = 9; w.has_ts = true; w.ts = kTs + ordinal; d += " Emit(span-context,timestamp)"; break; }
    default: {
      auto rec = lg.CreateLogRecord();
      CallerValue *b = fx.val(V_CSTR, ordinal);
      rec->SetBody(b->value());
      lg.EmitLogRecord(std::move(rec));
      set_body(w, want_of(b));
      d += " Create+SetBody(cstring)+Emit";
    }
  }
  c.step();
}
void run_two(vf::Ctx &c) {
  int proccfg = pick_procs(c);
  int s1 = c.pick("first", 5), span_between = c.pick("span-change", 3), s2 = c.pick("second", 5);
  Fixture fx(proccfg);
  std::string d = "E";
  std::vector<Want> wants(2);
  ActiveSpans outer;
  if (span_between == 1) outer.push(ctx_of(0xb1, 1));  // active for both
  note_active(wants[0], outer);
  c.stage("first-emit");
  emit_shape(c, fx, s1, 1, wants[0], d);
  {
    ActiveSpans inner;
    if (span_between == 2) { inner.push(ctx_of(0xa1, 1)); note_active(wants[1], inner); d += " [span starts]"; }
    else note_active(wants[1], outer);
    c.stage("second-emit");
    emit_shape(c, fx, s2, 2, wants[1], d);
  }
  d += std::string(" processors ") + kProcCfgName[proccfg];
  wants[0].desc = d + " (first record)";
  wants[1].desc = d + " (second record)";
  finish(c, fx, wants, false, nullptr, d);
}

// ---- part F (continued) ---------------------------------------------------------------------------------------
void run_convenience(vf::Ctx &c) {
  int form = c.pick("form", kConvForms);
  int level = c.pick("level", 6);
  int proccfg = pick_procs(c);
  int spancfg = c.pick("spans", 2);
  bool free_mode = c.flip("free-after-emit");
  Fixture fx(proccfg);
  ConvArgs args;
  build_conv(fx, args, form, level);
  ActiveSpans spans;
  setup_spans(spans, spancfg);
  Want w;
  w.desc = "F " + conv_name(form, level) + " processors " + kProcCfgName[proccfg] + " spans " + kSpanCfgName[spancfg] + (free_mode ? " storage freed after the call" : "");
  note_active(w, spans);
  model_conv(w, args, form, level);
  c.stage("convenience-call");
  call_conv(*fx.logger, args, form, level);
  c.step();
  finish(c, fx, {w}, free_mode, nullptr, w.desc);
}

#if OPENTELEMETRY_ABI_VERSION_NO < 2
// ---- part G: EventLogger (deprecated) ------------------------------------------------------------------------
// Its record goes through the delegate logger, so everything the statement says about a record holds for what the caller supplied. The
// "event.domain" / "event.name" attributes it adds when both are non-empty are not part of the statement: don't-care keys, and so is the
// record's event id / name when the caller supplied no EventId (an event logger may put the event name there). Each mode writes
// every field at most once: EmitEvent(args...) applies its arguments in an unspecified order (a plain pack expansion into function arguments).
void run_event_logger(vf::Ctx &c) {
  int mode = c.pick("mode", 6);
  int with_domain = c.pick("domain", 2), with_name = c.pick("event-name", 2);
  int proccfg = pick_procs(c);
  int spancfg = c.pick("spans", 2);
  Fixture fx(proccfg);
  ArgSet args;
  build_args(fx, args);
  ActiveSpans spans;
  setup_spans(spans, spancfg);
  CallerValue *dom = text_value(fx, with_domain ? "event.domain.x" : ""), *nm = text_value(fx, with_name ? "event.name.y" : "");
  sdklogs::EventLoggerProvider elp;
  c.stage("CreateEventLogger");
  nostd::shared_ptr<logs::EventLogger> el = elp.CreateEventLogger(mode == 5 ? fx.disabled_logger : fx.logger, view_of(dom));  // alive until the deferred export is over
  c.check((bool)el, "C13:create-null", "CreateEventLogger returned null");
  Want w;
  w.free_keys = {"event.domain", "event.name"};
  w.free_event = true;
  note_active(w, spans);
  std::string d;
  const char *nothing = nullptr;
  c.stage("EmitEvent");
  switch (mode) {
    case 0: d = "EmitEvent(name, severity, body, attributes)"; el->EmitEvent(view_of(nm), args.a.sev, args.a.body, *args.a.attrs); model_arg(w, args, K_SEV); model_arg(w, args, K_BODY); model_arg(w, args, K_ATTR); break;
    case 1: d = "EmitEvent(name, attribute container, timestamp, EventId, trace-id)"; el->EmitEvent(view_of(nm), *args.kv, args.a.ts, *args.a.ev, args.a.tid); model_arg(w, args, K_ATTR); model_arg(w, args, K_TS); model_arg(w, args, K_EV); model_arg(w, args, K_TID); break;
    case 2: d = "EmitEvent(name)"; el->EmitEvent(view_of(nm)); break;
    case 3: {
      d = "EmitEvent(name, CreateLogRecord + SetSeverity + SetBody)";
      auto rec = fx.logger->CreateLogRecord();
      rec->SetSeverity(logs::Severity::kError2);
      rec->SetBody(args.a.body);
      el->EmitEvent(view_of(nm), std::move(rec));
      w.has_sev = true; w.sev = (int)logs::Severity::kError2; model_arg(w, args, K_BODY);
      break;
    }
    case 4: d = "EmitEvent(name, null record)"; nothing = "C13:null-record-exported"; el->EmitEvent(view_of(nm), nostd::unique_ptr<logs::LogRecord>()); break;
    default: d = "disabled delegate logger: EmitEvent(name, severity, body)"; nothing = "C13:disabled-logger-exported"; el->EmitEvent(view_of(nm), args.a.sev, args.a.body); break;
  }
  c.step();
  w.desc = "G EventLogger(domain '" + std::string(dom->p, dom->n) + "')." + d + " name '" + std::string(nm->p, nm->n) + "' processors " + kProcCfgName[proccfg] + " spans " + kSpanCfgName[spancfg];
  std::vector<Want> wants;
  if (!nothing) wants.push_back(w);
  finish(c, fx, wants, false, nothing, w.desc);
}
const int kParts = 7;
#else
void run_event_logger(vf::Ctx &) {}
const int kParts = 6;
#endif

void setup(vf::Options &o) {
  o.split_depth = 2;
  o.deadline_s = o.thorough ? 1200 : 120;
  o.table_bits = 23;
  build_sites(o.thorough);
  if (!o.get("procs").empty()) g_only_procs = atoi(o.get("procs").c_str()) & 3;
  unsetenv("OTEL_RESOURCE_ATTRIBUTES");
  unsetenv("OTEL_SERVICE_NAME");
  sdkcommon::internal_log::GlobalLogHandler::SetLogHandler(
      nostd::shared_ptr<sdkcommon::internal_log::LogHandler>(new sdkcommon::internal_log::NoopLogHandler()));
  sdklogs::ReadWriteLogRecord fresh;
  g_untouched.severity = (int)fresh.GetSeverity();
  g_untouched.body = canon_of(fresh.GetBody());
  g_untouched.ts = fresh.GetTimestamp().time_since_epoch().count();
  g_untouched.event_id = fresh.GetEventId();
  g_untouched.event_name = std::string(fresh.GetEventName().data(), fresh.GetEventName().size());
}

void run(vf::Ctx &c) {
  vf::clock_reset();
  vf::clock_set_autostep_ns(1000);
  static const char *part_counter[7] = {"executions-part-A", "executions-part-B", "executions-part-C", "executions-part-D", "executions-part-E", "executions-part-F", "executions-part-G"};
  int part = c.pick("part", kParts);
  c.counted(part_counter[part]);
  switch (part) {
    case 0: run_orders(c); break;
    case 1: run_values(c); break;
    case 2: run_record(c); break;
    case 3: run_nothing(c); break;
    case 4: run_two(c); break;
    case 5: run_convenience(c); break;
    default: run_event_logger(c); break;
  }
}

}  // namespace

VF_MAIN("c13_logs", "C13", setup, run)
