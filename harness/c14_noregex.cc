// C14: compiles the hand-written (OPENTELEMETRY_HAVE_WORKING_REGEX == 0) variant of TraceState from the
// unchanged header under another class name, so that harness/c14_tracestate.cc (built with -DC14_NOREGEX)
// can drive it next to the regex variant that the same binary gets from the normal include.
// Everything trace_state.h includes is included first, so that the rename touches that header only.
#include <ctype.h>
#include <cstddef>
#include <string>
#include <vector>

#include <opentelemetry/common/kv_properties.h>
#include <opentelemetry/common/macros.h>
#include <opentelemetry/nostd/function_ref.h>
#include <opentelemetry/nostd/shared_ptr.h>
#include <opentelemetry/nostd/string_view.h>
#include <opentelemetry/nostd/unique_ptr.h>
#include <opentelemetry/version.h>

#undef OPENTELEMETRY_HAVE_WORKING_REGEX
#define OPENTELEMETRY_HAVE_WORKING_REGEX 0
#define TraceState TraceStateNoRegex
#include <opentelemetry/trace/trace_state.h>
#undef TraceState

namespace nostd = opentelemetry::nostd;
using opentelemetry::trace::TraceStateNoRegex;

// ---- keep this declaration identical to the one in c14_tracestate.cc ---------------------------
namespace c14nr {
class State {
 public:
  using Ptr = nostd::shared_ptr<State>;
  static Ptr FromHeader(nostd::string_view header) noexcept;
  std::string ToHeader() const noexcept;
  bool Get(nostd::string_view key, std::string &value) const noexcept;
  Ptr Set(const nostd::string_view &key, const nostd::string_view &value) noexcept;
  Ptr Delete(const nostd::string_view &key) noexcept;
  bool Empty() const noexcept;
  bool GetAllEntries(nostd::function_ref<bool(nostd::string_view, nostd::string_view)> callback) const noexcept;
  static bool IsValidKey(nostd::string_view key);
  static bool IsValidValue(nostd::string_view value);
  ~State();

 private:
  explicit State(void *impl);
  State(const State &) = delete;
  State &operator=(const State &) = delete;
  void *impl_;  // nostd::shared_ptr<TraceStateNoRegex> *
};
}  // namespace c14nr
// -------------------------------------------------------------------------------------------------

namespace c14nr {
namespace {
using Real = nostd::shared_ptr<TraceStateNoRegex>;
Real &real(void *p) { return *static_cast<Real *>(p); }
}  // namespace

// The adapter forwards the caller's views untouched (no copies), so that ownership is still the real class's.
State::State(void *impl) : impl_(impl) {}
State::~State() { delete static_cast<Real *>(impl_); }
State::Ptr State::FromHeader(nostd::string_view header) noexcept { return Ptr(new State(new Real(TraceStateNoRegex::FromHeader(header)))); }
std::string State::ToHeader() const noexcept { return real(impl_)->ToHeader(); }
bool State::Get(nostd::string_view key, std::string &value) const noexcept { return real(impl_)->Get(key, value); }
State::Ptr State::Set(const nostd::string_view &key, const nostd::string_view &value) noexcept { return Ptr(new State(new Real(real(impl_)->Set(key, value)))); }
State::Ptr State::Delete(const nostd::string_view &key) noexcept { return Ptr(new State(new Real(real(impl_)->Delete(key)))); }
bool State::Empty() const noexcept { return real(impl_)->Empty(); }
bool State::GetAllEntries(nostd::function_ref<bool(nostd::string_view, nostd::string_view)> callback) const noexcept { return real(impl_)->GetAllEntries(callback); }
bool State::IsValidKey(nostd::string_view key) { return TraceStateNoRegex::IsValidKey(key); }
bool State::IsValidValue(nostd::string_view value) { return TraceStateNoRegex::IsValidValue(value); }
}  // namespace c14nr
