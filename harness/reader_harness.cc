// Engine-A harness for PeriodicExportingMetricReader + MetricReader (C02 part b, C03 reader part):
// the real reader sources compiled with the shim, fed by a harness MetricProducer and exporting to a
// harness PushMetricExporter; concurrent ForceFlush callers, one Shutdown caller.
#include <opentelemetry/sdk/common/global_log_handler.h>
#include <opentelemetry/sdk/metrics/export/metric_producer.h>
#include <opentelemetry/sdk/metrics/export/periodic_exporting_metric_reader.h>
#include <opentelemetry/sdk/metrics/export/periodic_exporting_metric_reader_options.h>
#include <opentelemetry/sdk/metrics/push_metric_exporter.h>

#include "vf_core.h"

namespace sdkm = opentelemetry::sdk::metrics;
namespace sdkc = opentelemetry::sdk::common;
using namespace std::chrono;

namespace {
constexpr int64_t MS = 1000000;
constexpr int kIntervalMs = 1000, kTimeoutMs = 500;

enum Ev : int { CALL_FF, RET_FF, CALL_SD, RET_SD, PRODUCE, EXP_ENTER, EXP_EXIT, XFF_ENTER, XFF_EXIT, XSD_ENTER, XSD_EXIT };
const char *const kEvName[] = {"call-flush", "ret-flush", "call-shutdown", "ret-shutdown", "produce", "export-enter", "export-exit", "exp-flush-enter", "exp-flush-exit",
                               "exp-shutdown-enter", "exp-shutdown-exit"};
struct Event { int kind, thread, a, b; int64_t vt; };

struct Cfg {
  int F;         // flusher threads
  int fft;       // 0: zero (= for ever), 1: 100 ms, 2: 60 s, 3: max
  int xlat;      // Export latency: 0 none, 1: 300 ms (< export timeout), 2: 800 ms (> export timeout)
  int plat;      // Produce latency: 0 none, 1: 300 ms, 2: 800 ms (collection outlives the export timeout)
  int xfail;     // bit0 Export fails, bit1 exporter ForceFlush false
  int sd_race;   // 1: Shutdown is called from a thread racing the flushers, 0: after they returned
  int late;      // calls after Shutdown returned
};
std::vector<Cfg> g_cfgs;
std::string g_oracle;

struct Shared {
  std::vector<Event> ev;
  int inflight = 0, xsd_calls = 0, produced = 0;
  std::atomic<int> tick{0};
  const Cfg *cfg = nullptr;
  int log(int kind, int a = 0, int b = 0) {
    ev.push_back({kind, vfs::self(), a, b, vfs::virt_ns()});
    vfs::note(kEvName[kind], (uint64_t)a, (uint64_t)b);
    return (int)ev.size() - 1;
  }
} *g;

[[noreturn]] void fail(const std::string &sig, const std::string &msg) {
  const Cfg &c = *g->cfg;
  std::string s = msg + vf::sfmt("\n  config: F=%d fft=%d xlat=%d plat=%d xfail=%d sd_race=%d late=%d\n  events:\n", c.F, c.fft, c.xlat, c.plat, c.xfail, c.sd_race, c.late);
  for (size_t i = 0; i < g->ev.size(); ++i)
    s += vf::sfmt("    [%zu] T%d %s %d %d @%lldms\n", i, g->ev[i].thread, kEvName[g->ev[i].kind], g->ev[i].a, g->ev[i].b, (long long)(g->ev[i].vt / MS));
  vfs::fail(sig, s);
}

int lat_ms(int k) { return k == 1 ? 300 : k == 2 ? 800 : 0; }

class Producer final : public sdkm::MetricProducer {
 public:
  Result Produce() noexcept override {
    int id = g->produced++;
    g->log(PRODUCE, id);
    if (g->cfg->plat) std::this_thread::sleep_for(milliseconds(lat_ms(g->cfg->plat)));
    Result r;
    r.status_ = Status::kSuccess;
    r.points_.resource_ = nullptr;
    // the produce id travels in the (otherwise unused) size of scope_metric_data_
    r.points_.scope_metric_data_.resize((size_t)id + 1);
    return r;
  }
};

class Exporter final : public sdkm::PushMetricExporter {
 public:
  sdkc::ExportResult Export(const sdkm::ResourceMetrics &data) noexcept override {
    int id = (int)data.scope_metric_data_.size() - 1;
    g->log(EXP_ENTER, id);
    if (++g->inflight > 1 && g_oracle == "C03") fail("C03:overlapping-export", "PushMetricExporter::Export entered while a previous Export is still running");
    if (g->cfg->xlat) std::this_thread::sleep_for(milliseconds(lat_ms(g->cfg->xlat)));
    else g->tick.fetch_add(1);
    --g->inflight;
    g->log(EXP_EXIT, id);
    return (g->cfg->xfail & 1) ? sdkc::ExportResult::kFailure : sdkc::ExportResult::kSuccess;
  }
  sdkm::AggregationTemporality GetAggregationTemporality(sdkm::InstrumentType) const noexcept override { return sdkm::AggregationTemporality::kCumulative; }
  bool ForceFlush(microseconds) noexcept override { g->log(XFF_ENTER); g->log(XFF_EXIT); return !(g->cfg->xfail & 2); }
  bool Shutdown(microseconds) noexcept override { g->xsd_calls++; g->log(XSD_ENTER); g->log(XSD_EXIT); return true; }
};

microseconds ff_timeout(int k) {
  switch (k) {
    case 0: return microseconds(0);
    case 1: return microseconds(100 * 1000);
    case 2: return microseconds(60ll * 1000 * 1000);
    default: return (microseconds::max)();
  }
}

void run_cfg(vf::Ctx &c, const Cfg &cfg) {
  Shared sh;
  g = &sh;
  sh.cfg = &cfg;
  c.stage("run");
  vfs::begin(c);
  {
    Producer producer;
    sdkm::PeriodicExportingMetricReaderOptions o;
    o.export_interval_millis = milliseconds(kIntervalMs);
    o.export_timeout_millis = milliseconds(kTimeoutMs);
    sdkm::PeriodicExportingMetricReader reader(std::unique_ptr<sdkm::PushMetricExporter>(new Exporter()), o);
    reader.SetMetricProducer(&producer);
    std::vector<std::thread> ts;
    for (int f = 0; f < cfg.F; ++f)
      ts.emplace_back([&, f] {
        sh.log(CALL_FF, f);
        bool ok = reader.ForceFlush(ff_timeout(cfg.fft));
        sh.log(RET_FF, f, ok);
      });
    if (cfg.sd_race) ts.emplace_back([&] { sh.log(CALL_SD, 1); reader.Shutdown(); sh.log(RET_SD, 1); });
    for (auto &t : ts) t.join();
    if (!cfg.sd_race) { sh.log(CALL_SD, 0); reader.Shutdown(); sh.log(RET_SD, 0); }
    if (cfg.late) {
      size_t before = sh.ev.size();
      int64_t t0 = vfs::virt_ns();
      reader.ForceFlush(microseconds(1000));
      if (g_oracle == "C02")
        for (size_t i = before; i < sh.ev.size(); ++i)
          if (sh.ev[i].kind == EXP_ENTER) fail("C02:reader-export-after-shutdown", "ForceFlush after Shutdown returned led to an Export");
      (void)t0;
    }
  }
  vfs::end();
  c.stage("oracle");
  const std::vector<Event> &ev = sh.ev;
  int sd_ret = -1;
  for (size_t i = 0; i < ev.size(); ++i) if (ev[i].kind == RET_SD && sd_ret < 0) sd_ret = (int)i;
  std::string outcome;
  for (auto &e : ev) if (e.kind == EXP_ENTER || e.kind == RET_FF) outcome += vf::sfmt("%s%d.%d,", e.kind == EXP_ENTER ? "x" : "f", e.a, e.b);
  if (g_oracle == "C02") {
    for (size_t i = 0; i < ev.size(); ++i) {
      if (ev[i].kind != RET_FF || !ev[i].b) continue;
      int ci = -1;
      for (int j = (int)i; j >= 0; --j) if (ev[j].kind == CALL_FF && ev[j].a == ev[i].a) { ci = j; break; }
      // an Export, entered before the flush returned, of data produced after the flush was called
      bool ok = false;
      for (int j = ci; j < (int)i && !ok; ++j) {
        if (ev[j].kind != EXP_ENTER) continue;
        for (int k = ci; k < j; ++k) if (ev[k].kind == PRODUCE && ev[k].a == ev[j].a) ok = true;
      }
      if (!ok) {
        // name the special case in which the collection (not the exporter) outlived export_timeout
        fail(cfg.plat == 2 ? "C02:reader-flush-without-export:slow-collection" : "C02:reader-flush-without-export",
             vf::sfmt("ForceFlush #%d returned true at [%zu] (called at [%d]) but no Export of data collected after the call was started before it returned", ev[i].a, i, ci));
      }
      // ... and the exporter's own ForceFlush has been invoked: after that Export was entered (a flush of the
      // exporter issued before the data reached it flushes nothing) and before the reader's ForceFlush returned
      int qual = -1;  // the first Export, entered after the call, of data collected after the call
      for (int j = ci; j < (int)i && qual < 0; ++j) {
        if (ev[j].kind != EXP_ENTER) continue;
        for (int k = ci; k < j; ++k) if (ev[k].kind == PRODUCE && ev[k].a == ev[j].a) { qual = j; break; }
      }
      bool xff = false, xff_after = false;
      for (int j = ci; j < (int)i; ++j) if (ev[j].kind == XFF_ENTER) { xff = true; if (j > qual) xff_after = true; }
      if (!xff) fail("C02:reader-flush-without-exporter-flush", vf::sfmt("ForceFlush #%d returned true at [%zu] but the exporter's ForceFlush was not invoked in between", ev[i].a, i));
      // (when a Shutdown has begun before the flush returns, OnForceFlush is released at once and the final cycle and
      // the exporter's Shutdown follow: the statement does not order the two calls there, so only their presence is required)
      bool sd_began = false;
      for (int j = 0; j < (int)i; ++j) if (ev[j].kind == CALL_SD) sd_began = true;
      if (!xff_after && !sd_began) fail("C02:reader-flush-incomplete:exporter-flushed-before-data", vf::sfmt("ForceFlush #%d returned true at [%zu]: the exporter's ForceFlush was only invoked before the Export at [%d] of the data collected after the call", ev[i].a, i, qual));
    }
    if (sd_ret >= 0)
      for (size_t i = sd_ret; i < ev.size(); ++i)
        if (ev[i].kind == EXP_ENTER) fail("C02:reader-export-after-shutdown", vf::sfmt("Export entered at [%zu] after the reader's Shutdown had returned at [%d]", i, sd_ret));
    if (sh.xsd_calls != 1) fail("C02:reader-exporter-shutdown-count", vf::sfmt("the exporter's Shutdown was invoked %d times for one reader Shutdown", sh.xsd_calls));
  }
  c.outcome(vf::sfmt("%d|", (int)(&cfg - &g_cfgs[0])) + outcome);
  c.sample(vf::sfmt("F=%d fft=%d xlat=%d plat=%d sd_race=%d: %s (%zu events, %lld ms virtual)", cfg.F, cfg.fft, cfg.xlat, cfg.plat, cfg.sd_race, outcome.c_str(), ev.size(),
                    (long long)(ev.empty() ? 0 : ev.back().vt / MS)));
}

void setup(vf::Options &o) {
  opentelemetry::sdk::common::internal_log::GlobalLogHandler::SetLogLevel(opentelemetry::sdk::common::internal_log::LogLevel::None);
  g_oracle = o.get("oracle", o.property);
  o.property = g_oracle;
  o.fork_per_exec = true;
  o.split_depth = 2;
  o.horizon = 20000;
  bool th = o.thorough;
  o.cap[vf::PREEMPT] = atoi(o.get("k", th ? "3" : "2").c_str());
  o.cap[vf::TIMER] = atoi(o.get("t", th ? "2" : "1").c_str());
  o.cap[vf::WAKE] = atoi(o.get("w", th ? "1" : "0").c_str());  // spurious wake-ups of condition waits (thorough)
  o.table_bits = th ? 25 : 23;
  o.deadline_s = atof(o.get("budget", th ? "900" : "60").c_str());
  Cfg z{};
  // one configuration list for both oracles: every predicate holds for every configuration
  { Cfg c = z; c.F = 1; c.late = 1; g_cfgs.push_back(c); }
  { Cfg c = z; c.F = 2; c.fft = 3; g_cfgs.push_back(c); }
  { Cfg c = z; c.F = 1; c.fft = 1; c.xlat = 1; g_cfgs.push_back(c); }   // flush shorter than the export
  { Cfg c = z; c.F = 1; c.fft = 2; c.xlat = 2; g_cfgs.push_back(c); }   // slow exporter (outlives export_timeout)
  { Cfg c = z; c.F = 1; c.fft = 2; c.plat = 1; g_cfgs.push_back(c); }
  { Cfg c = z; c.F = 1; c.sd_race = 1; g_cfgs.push_back(c); }
  { Cfg c = z; c.F = 1; c.xfail = 3; g_cfgs.push_back(c); }
  { Cfg c = z; c.F = 2; c.xlat = 1; g_cfgs.push_back(c); }
  // Shutdown racing a cycle that outlives export_timeout (the cancel / join path concurrent with OnShutDown)
  { Cfg c = z; c.F = 1; c.sd_race = 1; c.xlat = 2; g_cfgs.push_back(c); }
  { Cfg c = z; c.F = 0; c.sd_race = 1; c.xlat = 2; g_cfgs.push_back(c); }
  { Cfg c = z; c.F = 1; c.sd_race = 1; c.plat = 2; g_cfgs.push_back(c); }
  if (th) {
    { Cfg c = z; c.F = 2; c.sd_race = 1; c.xlat = 1; g_cfgs.push_back(c); }
    { Cfg c = z; c.F = 2; c.fft = 1; c.xlat = 2; g_cfgs.push_back(c); }
  }
  // F15 (DESIGN section 6): a COLLECTION that outlives export_timeout; the statement's fault list names slow
  // exporters, so this configuration is explored under its own signature (…:slow-collection).
  { Cfg c = z; c.F = 1; c.fft = 1; c.plat = 2; g_cfgs.push_back(c); }
  std::string only = o.get("cfg");
  if (!only.empty()) { Cfg c = g_cfgs[atoi(only.c_str())]; g_cfgs.assign(1, c); }
}

void run(vf::Ctx &c) { run_cfg(c, g_cfgs[c.pick("config", (int)g_cfgs.size())]); }
}  // namespace

VF_MAIN("reader", "C02", setup, run)
