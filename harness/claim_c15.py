CLAIMS["C15"] = dict(
    engine="seq",
    technique="explicit-state exploration of operation histories on the real object against a reference model (bounded depth, canonical-state pruning) plus "
              "deviation-bounded input enumeration against an independent three-valued reference decoder, plus differential enumeration of composite propagators",
    text="(a) Every Set/Delete history up to depth 3 (quick: 9x9 keys/values, depth 2 over the full 14x15 alphabet; thorough: depth 3 full alphabet, depth 4 over 8x8, depth 5 "
         "over 4x4) over keys and values of the printable classes (alnum, space, '=', ',', '%', '+', ';' in keys, unreserved punctuation, blanks at the ends, empty value, "
         "';metadata'), from start states with 0, 2 and 179 entries, on the real Baggage against an ordered-list model: receiver unchanged, replace/remove semantics, "
         "GetValue of every key, arguments scribbled after the call, and extract(inject(b)) through the real BaggagePropagator and a map carrier rebuilds the same entries "
         "in the same order (with 181 entries: the first 180); the produced header is decoded by an independent decoder and must be written in the token alphabet. "
         "At depth 1 every printable byte 0x20..0x7e is a one-byte key and a one-byte value (95 x 95, plus all punctuation in one string), so every byte outside the token "
         "set is percent-encoded and decoded back in both positions. GetAllEntries with a callback returning false at call 0 / 1 / never reports the entries in order up to "
         "that call (whether it stops there and what it returns is not documented for Baggage and not judged). "
         "(b) BaggagePropagator::Extract on all single (three short seeds, thorough six: double) point mutations of eleven seed headers over 22 byte classes, 35 kinds of "
         "percent escape at 10 member positions x 4 header positions, 179..360 members, 4095..4098/5000-byte members, 8191..8194/9000-byte headers, each in an exact-size heap "
         "block under ASan and into two caller contexts: soundness on every input (each kept entry is the decoding of one member, in order, key and value incl. metadata "
         "printable, <= 180 entries, member and header limits), completeness on members written in the encoder's alphabet (with more than 180 members in a header within the "
         "size limit: on those among the first 180 members - both readings of the limit, 'at most 180 kept' and 'at most 180 read', agree there; invalid members are placed "
         "inside and at the edge of the first 180), caller's context returned when nothing is valid. "
         "(c) CompositePropagator over every ordered subset of the five built-in propagators up to size 3 (thorough: all 326 ordered subsets): Inject equals the union of the "
         "individual injections (8 contexts x empty/pre-filled carrier), Extract equals the in-order fold of the individual Extracts over 3^5 carriers of absent/valid/invalid "
         "header groups with pairwise different ids x 3 caller contexts, including the order of carrier accesses and context identity; Fields() of the composite with a callback "
         "returning false at every call position (and never) reports the concatenation of the parts' fields in order at least up to that call and returns true iff no call "
         "returned false (as documented), each part's fields are exactly the keys its Inject writes, and every key the composite's Inject writes is one of its fields.",
    note=SEQ_NOTE)
