// C11 (spin lock part): the real SpinLockMutex under every interleaving of 2..3 threads running
// short programs over {lock, try_lock, unlock}.
#include <opentelemetry/common/spin_lock_mutex.h>

#include "vf_core.h"

using opentelemetry::common::SpinLockMutex;

namespace {
// programs: sequences of operations; L = lock..unlock, T = try_lock (unlock if acquired)
// S = lock, sleep 3 ms (virtual) inside the critical section, unlock: while the holder sleeps nobody but the
// waiters can run, so a waiting lock() is driven through its whole ladder (100 fast iterations, yield,
// try_lock, sleep_for(1 ms), repeat) instead of being parked after its first pause
const char *const kPrograms[] = {"L", "T", "LL", "LT", "TL", "TT", "S"};
constexpr int NPROG = 6;  // programs combined freely; "S" (index 6) is added in dedicated configurations
struct Cfg { int nthreads; int prog[3]; };
std::vector<Cfg> g_cfgs;

void setup(vf::Options &o) {
  o.fork_per_exec = true;
  o.split_depth = 2;
  o.horizon = 6000;
  bool th = o.thorough;
  o.cap[vf::PREEMPT] = atoi(o.get("k", th ? "5" : "4").c_str());
  o.cap[vf::TIMER] = 1;
  o.table_bits = th ? 24 : 22;
  o.deadline_s = th ? 600 : 60;
  for (int a = 0; a < NPROG; ++a)
    for (int b = a; b < NPROG; ++b) g_cfgs.push_back({2, {a, b, 0}});
  for (int a = 0; a < (th ? NPROG : 3); ++a)
    for (int b = a; b < (th ? NPROG : 3); ++b)
      for (int c = b; c < (th ? NPROG : 3); ++c) g_cfgs.push_back({3, {a, b, c}});
  g_cfgs.push_back({2, {6, 0, 0}});   // S | L : the waiter walks the whole ladder
  g_cfgs.push_back({2, {6, 1, 0}});   // S | T
  g_cfgs.push_back({2, {6, 3, 0}});   // S | LT
  // (two waiters behind a sleeping holder branch at every spin step - both are "spinning without news" and
  // either may run - so that configuration is left out: it does not finish at any useful bound)
}

void run(vf::Ctx &c) {
  const Cfg cfg = g_cfgs[c.pick("config", (int)g_cfgs.size())];
  c.stage("run");
  vfs::begin(c);
  {
    SpinLockMutex mu;
    int holders = 0;       // plain data: the scheduler serialises the threads
    int acquisitions = 0, failed_try = 0;
    std::atomic<int> inside{0};  // a visible operation inside the critical section (a scheduling point)
    std::vector<std::thread> ts;
    for (int t = 0; t < cfg.nthreads; ++t)
      ts.emplace_back([&, t] {
        for (const char *p = kPrograms[cfg.prog[t]]; *p; ++p) {
          bool got;
          if (*p == 'L' || *p == 'S') { mu.lock(); got = true; }
          else {
            got = mu.try_lock();
            // "try_lock succeeds only on a free lock" is judged at the step at which it succeeds: the
            // occupancy check below fails if the lock was held at that moment. (The lock may have been
            // held when try_lock was *called* and released before its exchange - that is legitimate - and a
            // failure while the lock is momentarily free is allowed: the statement constrains success only.)
            if (!got) failed_try++;
          }
          if (got) {
            if (++holders != 1) vfs::fail(*p != 'T' ? "C11:two-holders" : "C11:trylock-on-held", vf::sfmt("%d threads hold the spin lock after %s returned", holders, *p != 'T' ? "lock()" : "try_lock()==true"));
            vfs::note("acquired", t);
            acquisitions++;
            inside.store(t + 1);   // a scheduling point inside the critical section
            if (*p == 'S') std::this_thread::sleep_for(std::chrono::milliseconds(3));
            if (holders != 1) vfs::fail("C11:two-holders", vf::sfmt("%d threads hold the spin lock", holders));
            --holders;
            mu.unlock();
          }
        }
      });
    for (auto &t : ts) t.join();
    c.stage("oracle");
    int locks = 0;
    for (int t = 0; t < cfg.nthreads; ++t)
      for (const char *p = kPrograms[cfg.prog[t]]; *p; ++p) locks += (*p == 'L' || *p == 'S');
    if (acquisitions < locks) vfs::fail("C11:lock-never-returned", "a lock() call did not acquire the lock");
    if (!mu.try_lock()) vfs::fail("C11:left-locked", "the lock is still held after all threads unlocked");
    mu.unlock();
    c.outcome(vf::sfmt("%d:%d%d%d acq=%d failedtry=%d", cfg.nthreads, cfg.prog[0], cfg.prog[1], cfg.prog[2], acquisitions, failed_try));
    c.sample(vf::sfmt("threads=%d programs=%s/%s/%s acquisitions=%d failed_try_lock=%d", cfg.nthreads, kPrograms[cfg.prog[0]], kPrograms[cfg.prog[1]],
                      cfg.nthreads > 2 ? kPrograms[cfg.prog[2]] : "-", acquisitions, failed_try));
  }
  vfs::end();
}
}  // namespace

VF_MAIN("c11_spinlock", "C11", setup, run)
