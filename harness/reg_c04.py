H("c04_span_export", "C04", "seq", ["harness/c04_span_export.cc"], sdk=["common", "version", "resource", "trace"],
  what="real TracerProvider with 1..3 processors (SimpleSpanProcessor, deferred-export processor) whose exporters keep the SpanData: every span program "
       "up to the depth bound over start options / SetAttribute / AddEvent (8 entry points) / SetStatus / UpdateName / End(with, without time) / "
       "TracerProvider::AddProcessor while the span runs, including every operation after End, all ordered value pairs on one key, all start-option "
       "combinations, a sampler that returns attributes; caller storage scribbled (pass 1) and freed (pass 2) after every call; compared field by field "
       "with a reference model at every exporter",
  design_ref="5/C04")
# Span::AddLink / AddLinks and instrumentation-scope attributes only exist under ABI v2: the same source (and the SDK) compiled a second
# time with the ABI macro redefined (same flags as c17_syncgauge); this build runs only the programs the ABI v1 build cannot.
H("c04_span_export_abi2", "C04", "seq", ["harness/c04_span_export.cc"], sdk=["common", "version", "resource", "trace"],
  cxxflags=["-UOPENTELEMETRY_ABI_VERSION_NO", "-DOPENTELEMETRY_ABI_VERSION_NO=2"],
  what="ABI v2 build of the same harness: every span program up to the depth bound over Span::AddLink (4 entry points) / AddLinks (3 entry points) mixed with "
       "SetAttribute / AddEvent / SetStatus / UpdateName / End / AddProcessor, before and after End, from start shapes with and without start links; tracers "
       "obtained with instrumentation-scope attributes (and a sibling tracer that differs only in them); links must be exported in call order after the start "
       "links with their own attributes as owned copies, scope attributes as given",
  design_ref="5/C04")

# "what each configured processor's exporter receives ... exactly once" on the REAL BatchSpanProcessor (the sequential harness
# uses a deferred stand-in so that what is exported is deterministic): the batch harness of C01 under the scheduler, span
# processor only, its exactly-once / nothing-lost / per-producer-order predicates reported as C04:batch:*
H("batch_c04", "C04", "sched", ["harness/batch_harness.cc"], sdk=["common", "version", "resource", "trace", "logs"],
  args={"quick": ["--oracle=C01", "--as=C04", "--kind=0", "--set=light", "--k=2", "--budget=40"],
        "thorough": ["--oracle=C01", "--as=C04", "--kind=0", "--set=light", "--k=2", "--t=0", "--c=0", "--budget=200"]},
  what="real BatchSpanProcessor under the scheduler (the C01 batch harness, span processor only): every ended span reaches the exporter exactly once, "
       "none is lost while the queue has room, per-producer order; reported as C04:batch:*",
  design_ref="5/C04, 12.8")
