H("c04_span_export", "C04", "seq", ["harness/c04_span_export.cc"], sdk=["common", "version", "resource", "trace"],
  what="real TracerProvider with 1..3 processors (SimpleSpanProcessor, deferred-export processor) whose exporters keep the SpanData: every span program "
       "up to the depth bound over start options / SetAttribute / AddEvent (8 entry points) / SetStatus / UpdateName / End(with, without time), "
       "including every operation after End, all ordered value pairs on one key, all start-option combinations; caller storage scribbled (pass 1) "
       "and freed (pass 2) after every call; compared field by field with a reference model at every exporter",
  design_ref="5/C04")
