// Auxiliary, free-running pass for C11 (DESIGN 2.7): the same bodies as the scheduler harnesses, on
// real threads, without the shim, under ThreadSanitizer.  The cooperative scheduler's hand-offs are
// happens-before edges that would hide unsynchronised non-atomic accesses, so those are looked for
// here.  This pass samples schedules; it is reported as an assumption check, not as the deciding step.
#include <opentelemetry/common/spin_lock_mutex.h>
#include <opentelemetry/sdk/common/circular_buffer.h>

#include <atomic>
#include <cstdio>
#include <cstdlib>
#include <memory>
#include <thread>
#include <vector>

using opentelemetry::common::SpinLockMutex;
using opentelemetry::sdk::common::AtomicUniquePtr;
using opentelemetry::sdk::common::CircularBuffer;
using opentelemetry::sdk::common::CircularBufferRange;

int main(int argc, char **argv) {
  int iters = argc > 1 ? atoi(argv[1]) : 300;
  unsigned seed = getenv("VERIF_SEED") ? (unsigned)atoi(getenv("VERIF_SEED")) : 0;
  srand(seed);
  long consumed_total = 0, added_total = 0;
  for (int it = 0; it < iters; ++it) {
    int cap = 1 + it % 3, P = 1 + (it / 3) % 3, n = 4;
    CircularBuffer<int> buf(cap);
    std::atomic<long> added{0};
    long consumed = 0;
    std::atomic<bool> done{false};
    std::vector<std::thread> prod;
    for (int p = 0; p < P; ++p)
      prod.emplace_back([&, p] {
        for (int i = 0; i < n; ++i) {
          std::unique_ptr<int> e(new int(p * 100 + i));
          if (buf.Add(e)) added++;
        }
      });
    std::thread cons([&] {
      while (!done.load() || !buf.empty()) {
        buf.Consume(buf.size(), [&](CircularBufferRange<AtomicUniquePtr<int>> r) noexcept {
          r.ForEach([&](AtomicUniquePtr<int> &ptr) noexcept {
            std::unique_ptr<int> e;
            ptr.Swap(e);
            if (e) consumed += (*e >= 0);
            return true;
          });
        });
        std::this_thread::yield();
      }
    });
    for (auto &t : prod) t.join();
    done = true;
    cons.join();
    if (consumed != added.load()) { printf("MISMATCH consumed=%ld added=%ld\n", consumed, added.load()); return 1; }
    consumed_total += consumed;
    added_total += added;
    // spin lock protecting plain data
    SpinLockMutex mu;
    long plain = 0;
    std::vector<std::thread> ts;
    for (int t = 0; t < 3; ++t)
      ts.emplace_back([&] {
        for (int i = 0; i < 50; ++i) {
          if (i % 3 == 0) { if (mu.try_lock()) { plain++; mu.unlock(); } }
          else { mu.lock(); plain++; mu.unlock(); }
        }
      });
    for (auto &t : ts) t.join();
  }
  printf("tsan pass: %d iterations, %ld elements through the queue, no mismatch\n", iters, consumed_total);
  return 0;
}
