// C19 shared harness pieces: a pull MetricReader, a canonical view of what a reader sees, a silent
// SDK log handler.
#pragma once
#include <algorithm>
#include <map>
#include <string>
#include <vector>

#include <opentelemetry/metrics/async_instruments.h>
#include <opentelemetry/metrics/observer_result.h>
#include <opentelemetry/metrics/sync_instruments.h>
#include <opentelemetry/sdk/common/global_log_handler.h>
#include <opentelemetry/sdk/instrumentationscope/instrumentation_scope.h>
#include <opentelemetry/sdk/metrics/data/metric_data.h>
#include <opentelemetry/sdk/metrics/export/metric_producer.h>
#include <opentelemetry/sdk/metrics/instruments.h>
#include <opentelemetry/sdk/metrics/meter.h>
#include <opentelemetry/sdk/metrics/meter_provider.h>
#include <opentelemetry/sdk/metrics/metric_reader.h>
#include <opentelemetry/sdk/resource/resource.h>

#include "seq/vf_seq.h"

namespace c19 {
namespace ot = opentelemetry;
namespace nostd = opentelemetry::nostd;
namespace sm = opentelemetry::sdk::metrics;
namespace mapi = opentelemetry::metrics;

// The SDK reports rejected instruments through its internal log; the message is still built (that
// code formats the caller's string_views) but nothing is printed.
class NullLogHandler : public ot::sdk::common::internal_log::LogHandler {
 public:
  void Handle(ot::sdk::common::internal_log::LogLevel, const char *, int, const char *, const ot::sdk::common::AttributeMap &) noexcept override {}
};
inline void quiet_sdk_log() {
  static bool done = false;
  if (done) return;
  done = true;
  ot::sdk::common::internal_log::GlobalLogHandler::SetLogHandler(nostd::shared_ptr<ot::sdk::common::internal_log::LogHandler>(new NullLogHandler()));
  ot::sdk::common::internal_log::GlobalLogHandler::SetLogLevel(ot::sdk::common::internal_log::LogLevel::Error);
}

class PullReader : public sm::MetricReader {
 public:
  explicit PullReader(sm::AggregationTemporality t = sm::AggregationTemporality::kCumulative) : t_(t) {}
  sm::AggregationTemporality GetAggregationTemporality(sm::InstrumentType) const noexcept override { return t_; }

 private:
  bool OnForceFlush(std::chrono::microseconds) noexcept override { return true; }
  bool OnShutDown(std::chrono::microseconds) noexcept override { return true; }
  sm::AggregationTemporality t_;
};

inline std::string value_str(const sm::ValueType &v) {
  if (nostd::holds_alternative<int64_t>(v)) return vf::sfmt("%lld", (long long)nostd::get<int64_t>(v));
  return vf::sfmt("%g", nostd::get<double>(v));
}

inline std::string owned_str(const ot::sdk::common::OwnedAttributeValue &v) {
  if (nostd::holds_alternative<std::string>(v)) return nostd::get<std::string>(v);
  if (nostd::holds_alternative<bool>(v)) return nostd::get<bool>(v) ? "true" : "false";
  if (nostd::holds_alternative<int32_t>(v)) return vf::sfmt("%d", nostd::get<int32_t>(v));
  if (nostd::holds_alternative<int64_t>(v)) return vf::sfmt("%lld", (long long)nostd::get<int64_t>(v));
  if (nostd::holds_alternative<double>(v)) return vf::sfmt("%g", nostd::get<double>(v));
  return "?";
}

// One metric stream as a reader sees it.
struct Stream {
  std::string scope;  // name|version|schema of the meter
  std::string scope_attrs;  // k=v,... of the meter's scope attributes (sorted by key); empty under ABI v1
  std::string name, desc, unit;
  int type = -1, value_type = -1;
  std::string kind;    // sum / sum-nonmono / hist / last / drop / empty / mixed
  std::string points;  // "{k=v,...}:value;" per point, attribute order = ordered map order
  size_t npoints = 0;
  // histogram points only: "[b0,b1,...]" of the first point, "!" appended when the points disagree; whether min/max are recorded
  std::string bounds;
  bool minmax = true;
  std::string canon() const {
    return scope + "/" + vfq::printable(name, 40) + "/" + desc + "/" + vfq::printable(unit, 20) + vf::sfmt("/t%d/v%d/", type, value_type) + kind +
           (bounds.empty() ? "" : bounds.size() <= 16 ? bounds : vf::sfmt("[%zu bounds]", (size_t)std::count(bounds.begin(), bounds.end(), ',') + 1)) + (minmax ? "" : "-nominmax") + "/" + points;
  }
};

inline std::vector<Stream> collect(sm::MetricReader &reader) {
  std::vector<Stream> out;
  reader.Collect([&](sm::ResourceMetrics &rm) {
    for (auto &sc : rm.scope_metric_data_) {
      std::string scope = sc.scope_->GetName() + "|" + sc.scope_->GetVersion() + "|" + sc.scope_->GetSchemaURL();
      std::map<std::string, std::string> sorted_attrs;
      for (auto &kv : sc.scope_->GetAttributes()) sorted_attrs[kv.first] = owned_str(kv.second);
      std::string scope_attrs;
      for (auto &kv : sorted_attrs) scope_attrs += (scope_attrs.empty() ? "" : ",") + kv.first + "=" + kv.second;
      for (auto &md : sc.metric_data_) {
        Stream s;
        s.scope = scope;
        s.scope_attrs = scope_attrs;
        s.name = md.instrument_descriptor.name_;
        s.desc = md.instrument_descriptor.description_;
        s.unit = md.instrument_descriptor.unit_;
        s.type = (int)md.instrument_descriptor.type_;
        s.value_type = (int)md.instrument_descriptor.value_type_;
        s.npoints = md.point_data_attr_.size();
        s.kind = "empty";
        for (auto &p : md.point_data_attr_) {
          std::string k, v;
          if (nostd::holds_alternative<sm::SumPointData>(p.point_data)) {
            auto &d = nostd::get<sm::SumPointData>(p.point_data);
            k = d.is_monotonic_ ? "sum" : "sum-nonmono";
            v = value_str(d.value_);
          } else if (nostd::holds_alternative<sm::HistogramPointData>(p.point_data)) {
            auto &d = nostd::get<sm::HistogramPointData>(p.point_data);
            k = "hist";
            v = vf::sfmt("n%llu,s", (unsigned long long)d.count_) + value_str(d.sum_);
            std::string b = "[";
            for (double x : d.boundaries_) b += (b.size() > 1 ? "," : "") + vf::sfmt("%g", x);
            b += "]";
            if (s.bounds.empty()) s.bounds = b;
            else if (s.bounds != b) s.bounds += "!";
            s.minmax = s.minmax && d.record_min_max_;
          } else if (nostd::holds_alternative<sm::LastValuePointData>(p.point_data)) {
            auto &d = nostd::get<sm::LastValuePointData>(p.point_data);
            k = "last";
            v = d.is_lastvalue_valid_ ? value_str(d.value_) : "invalid";
          } else {
            k = "drop";
          }
          s.kind = (s.kind == "empty" || s.kind == k) ? k : "mixed";
          std::string a = "{";
          for (auto &kv : p.attributes) a += (a.size() > 1 ? "," : "") + kv.first + "=" + owned_str(kv.second);
          s.points += a + "}:" + v + ";";
        }
        out.push_back(s);
      }
    }
    return true;
  });
  return out;
}

}  // namespace c19
