H("c17_observables", "C17", "seq", ["harness/c17_observables.cc"], sdk=["common", "version", "resource", "metrics"],
  cxxflags=["-fno-access-control"],
  args={"quick": [], "thorough": []},
  what="real Meter / ObservableRegistry / AsyncMetricStorage / TemporalMetricStorage with 1..3 pull readers of mixed temporality and one observable counter, "
       "up-down counter or gauge (int64 and double): every history of AddCallback / RemoveCallback (3 callbacks sharing function or state pointers) / destroy instrument / "
       "script(callback: step, decrease, attribute set appears or disappears) / Collect(reader) up to the depth bound; invocation counts and every collected point "
       "compared with a per-reader reference model; sub-run with a second instrument of the other value type sharing a (function, state) pair",
  design_ref="5/C17")
# Synchronous gauges only exist under ABI v2: the same source (and the SDK) compiled a second time with the ABI macro redefined.
H("c17_syncgauge", "C17", "seq", ["harness/c17_observables.cc"], sdk=["common", "version", "resource", "metrics"],
  cxxflags=["-fno-access-control", "-UOPENTELEMETRY_ABI_VERSION_NO", "-DOPENTELEMETRY_ABI_VERSION_NO=2"],
  args={"quick": [], "thorough": []},
  what="ABI v2 build: real synchronous Gauge<int64_t> / Gauge<double> with 1..3 pull readers of mixed temporality: every history of Record(value, attrs) / Collect(reader) "
       "(all four Record overloads) up to the depth bound; every collected point must be the most recently recorded value of its attribute set",
  design_ref="5/C17")
