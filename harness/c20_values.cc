// C20 (value part): nostd::string_view, span, function_ref and variant against std::string_view, an
// index-checked slice model, direct calls and std::variant (Engine B, lock-step differential).
#include <array>
#include <cmath>
#include <functional>
#include <memory>
#include <sstream>
#include <stdexcept>
#include <string>
#include <string_view>
#include <variant>
#include <vector>

#include <opentelemetry/nostd/function_ref.h>
#include <opentelemetry/nostd/span.h>
#include <opentelemetry/nostd/string_view.h>
#include <opentelemetry/nostd/utility.h>
#include <opentelemetry/nostd/variant.h>

#include "seq/vf_seq.h"

namespace nostd = opentelemetry::nostd;

namespace {

int sgn(int v) { return v < 0 ? -1 : v > 0 ? 1 : 0; }
const size_t NPOS = static_cast<size_t>(-1);

// ==================================================================================================
// string_view
// ==================================================================================================
std::vector<std::string> g_strs;  // all strings over {a, b, NUL, 0xff} up to the tier's length

// exact-size heap block holding s followed by one NUL (C-string operands)
struct CStr {
  char *p;
  explicit CStr(const std::string &s) : p(static_cast<char *>(malloc(s.size() + 1))) { memcpy(p, s.data(), s.size()); p[s.size()] = 0; }
  ~CStr() { free(p); }
  CStr(const CStr &) = delete;
};

std::vector<size_t> positions(size_t size, bool thorough) {
  std::vector<size_t> v;
  for (size_t i = 0; i <= size + 1; ++i) v.push_back(i);
  v.push_back(NPOS);
  if (thorough) v.push_back(NPOS - 1);
  return v;
}
std::string pos_str(size_t p) { return p == NPOS ? "npos" : p == NPOS - 1 ? "npos-1" : vf::sfmt("%zu", p); }

// result of an operation that may throw std::out_of_range: "!" or the value
template <class F> std::string guarded(F f) {
  try {
    return f();
  } catch (const std::out_of_range &) {
    return "!out_of_range";
  }
}
std::string q(const std::string &s) { return "'" + vfq::printable(s) + "'"; }

void run_string_view(vf::Ctx &c) {
  const bool th = c.thorough();
  int group = c.pick("sv-group", 7);
  const std::string &s = g_strs[c.pick("s", (int)g_strs.size())];
  const bool binary = group == 1 || group == 2 || group == 3 || group == 6;
  const std::string &t = binary ? g_strs[c.pick("t", (int)g_strs.size())] : s;
  vfq::HeapStr hs(s), ht(t);  // exact-size blocks without NUL: an over-read is an ASan report
  CStr ct(t);
  const std::string stt(t);
  const nostd::string_view ns = hs.view(), nt = ht.view();
  const std::string_view ss(ns.data(), ns.size()), st(nt.data(), nt.size());
  std::string out;  // results, for the outcome / state counters
  uint64_t n = 0;
  // SAME(got, want, sig, what): `what` (a std::string expression) is only evaluated when the results differ
  vf::H128 outh;
  auto same_impl = [&](const std::string &got, const std::string &want) {
    ++n;
    outh.add_str(got);
    if (out.size() < 200) out += got + ";";
    return got == want;
  };
#define SAME(GOT, WANT, SIG, WHAT)                                                                   \
  do {                                                                                               \
    std::string got_ = (GOT), want_ = (WANT);                                                        \
    if (!same_impl(got_, want_)) c.fail((SIG), std::string(WHAT) + ": nostd gives " + got_ + ", std gives " + want_); \
  } while (0)
  auto I = [](long long v) { return vf::sfmt("%lld", v); };
  switch (group) {
    case 0: {  // construction and element access
      c.stage("string_view:access");
      nostd::string_view nd;
      std::string_view sd;
      SAME(I(nd.size()) + I(nd.empty()) + I(nd.data() == nullptr) + I(nd.length()), I(sd.size()) + I(sd.empty()) + I(sd.data() == nullptr) + I(sd.length()), "C20:string_view:ctor", "default constructor");
      CStr cs(s);
      nostd::string_view nc(cs.p);
      std::string_view sc(cs.p);
      SAME(I(nc.size()) + I(nc.data() == cs.p), I(sc.size()) + I(sc.data() == cs.p), "C20:string_view:ctor", "string_view(const char*) of " + q(s));
      std::string str(s);
      nostd::string_view nstr(str);
      std::string_view sstr(str);
      SAME(I(nstr.size()) + I(nstr.data() == str.data()), I(sstr.size()) + I(sstr.data() == str.data()), "C20:string_view:ctor", "string_view(std::string) of " + q(s));
      SAME(I(ns.size()) + I(ns.length()) + I(ns.empty()) + I(ns.end() - ns.begin()) + I(ns.begin() == ns.data()),
           I(ss.size()) + I(ss.length()) + I(ss.empty()) + I(ss.end() - ss.begin()) + I(ss.begin() == ss.data()), "C20:string_view:access", "size/length/empty/begin/end of " + q(s));
      SAME(q(static_cast<std::string>(ns)), q(std::string(ss)), "C20:string_view:access", "conversion to std::string of " + q(s));
      nostd::string_view nm = ns;  // operator[] is non-const
      std::string a, b;
      for (size_t i = 0; i < s.size(); ++i) { a += nm[i]; b += ss[i]; }
      SAME(q(a), q(b), "C20:string_view:access", "operator[] over " + q(s));
      a.clear(); b.clear();
      for (char ch : ns) a += ch;
      for (char ch : ss) b += ch;
      SAME(q(a), q(b), "C20:string_view:access", "iteration over " + q(s));
      nostd::string_view ncopy(ns);
      nm = nt;
      SAME(I(ncopy.data() == ns.data()) + I(ncopy.size()) + I(nm.data() == nt.data()), "1" + I(ss.size()) + "1", "C20:string_view:ctor", "copy / assignment of " + q(s));
      break;
    }
    case 1: {  // compare(v), ordering and equality with every operand kind
      c.stage("string_view:compare");
      std::string w = q(s) + " vs " + q(t);
      SAME(I(sgn(ns.compare(nt))), I(sgn(ss.compare(st))), "C20:string_view:compare", "compare(string_view) " + w);
      SAME(I(sgn(ns.compare(ct.p))), I(sgn(ss.compare(ct.p))), "C20:string_view:compare-cstr", "compare(const char*) " + w);
      SAME(I(ns < nt) + I(ns > nt), I(ss < st) + I(ss > st), "C20:string_view:order", "operator< / operator> " + w);
      SAME(I(ns < stt) + I(ns > stt) + I(ns < ct.p) + I(ns > ct.p), I(ss < stt) + I(ss > stt) + I(ss < ct.p) + I(ss > ct.p), "C20:string_view:order-converted",
           "operator< / operator> with std::string and const char* operands " + w);
      SAME(I(ns == nt) + I(ns != nt), I(ss == st) + I(ss != st), "C20:string_view:eq", "operator== / != (string_view, string_view) " + w);
      SAME(I(ns == stt) + I(ns != stt) + I(stt == ns) + I(stt != ns), I(ss == stt) + I(ss != stt) + I(stt == ss) + I(stt != ss), "C20:string_view:eq-string",
           "operator== / != with a std::string operand " + w);
      SAME(I(ns == ct.p) + I(ns != ct.p) + I(ct.p == ns) + I(ct.p != ns), I(ss == ct.p) + I(ss != ct.p) + I(ct.p == ss) + I(ct.p != ss), "C20:string_view:eq-cstr",
           "operator== / != with a const char* operand " + w);
      break;
    }
    case 2: {  // compare(pos1, count1, v / const char* / const char*, count2)
      c.stage("string_view:compare-pos");
      for (size_t p1 : positions(s.size(), th))
        for (size_t c1 : positions(s.size(), th)) {
          std::string w = vf::sfmt("(%s,%s) of ", pos_str(p1).c_str(), pos_str(c1).c_str()) + q(s) + " with " + q(t);
          SAME(guarded([&] { return I(sgn(ns.compare(p1, c1, nt))); }), guarded([&] { return I(sgn(ss.compare(p1, c1, st))); }), "C20:string_view:compare-pos", "compare(pos1,count1,v) " + w);
          SAME(guarded([&] { return I(sgn(ns.compare(p1, c1, ct.p))); }), guarded([&] { return I(sgn(ss.compare(p1, c1, ct.p))); }), "C20:string_view:compare-pos-cstr",
               "compare(pos1,count1,const char*) " + w);
          for (size_t c2 = 0; c2 <= t.size(); ++c2)
            SAME(guarded([&] { return I(sgn(ns.compare(p1, c1, ct.p, c2))); }), guarded([&] { return I(sgn(ss.compare(p1, c1, ct.p, c2))); }), "C20:string_view:compare-pos-cstr-count",
                 vf::sfmt("compare(pos1,count1,const char*,%zu) ", c2) + w);
        }
      break;
    }
    case 3: {  // compare(pos1, count1, v, pos2, count2)
      c.stage("string_view:compare-pos2");
      for (size_t p1 : positions(s.size(), th))
        for (size_t c1 : positions(s.size(), false))
          for (size_t p2 : positions(t.size(), th))
            for (size_t c2 : positions(t.size(), false))
              SAME(guarded([&] { return I(sgn(ns.compare(p1, c1, nt, p2, c2))); }), guarded([&] { return I(sgn(ss.compare(p1, c1, st, p2, c2))); }), "C20:string_view:compare-pos2",
                   vf::sfmt("compare(%s,%s,v,%s,%s) of ", pos_str(p1).c_str(), pos_str(c1).c_str(), pos_str(p2).c_str(), pos_str(c2).c_str()) + q(s) + " with " + q(t));
      break;
    }
    case 4: {  // find(ch, pos)
      c.stage("string_view:find");
      for (char ch : std::string("ab\0\xff" "c", 5)) {
        SAME(I((long long)ns.find(ch)), I((long long)ss.find(ch)), "C20:string_view:find", vf::sfmt("find('\\x%02x') in ", (unsigned char)ch) + q(s));
        for (size_t p : positions(s.size(), th))
          SAME(I((long long)ns.find(ch, p)), I((long long)ss.find(ch, p)), "C20:string_view:find", vf::sfmt("find('\\x%02x',%s) in ", (unsigned char)ch, pos_str(p).c_str()) + q(s));
      }
      break;
    }
    case 5: {  // substr(pos, n)
      c.stage("string_view:substr");
      auto show_n = [&](nostd::string_view v) { return vf::sfmt("+%td/%zu", v.data() - ns.data(), v.size()); };
      auto show_s = [&](std::string_view v) { return vf::sfmt("+%td/%zu", v.data() - ss.data(), v.size()); };
      for (size_t p : positions(s.size(), th)) {
        const char *sig = p > s.size() ? "C20:string_view:substr-out-of-range" : "C20:string_view:substr";
        SAME(guarded([&] { return show_n(ns.substr(p)); }), guarded([&] { return show_s(ss.substr(p)); }), sig, vf::sfmt("substr(%s) of ", pos_str(p).c_str()) + q(s));
        for (size_t k : positions(s.size(), th))
          SAME(guarded([&] { return show_n(ns.substr(p, k)); }), guarded([&] { return show_s(ss.substr(p, k)); }), sig, vf::sfmt("substr(%s,%s) of ", pos_str(p).c_str(), pos_str(k).c_str()) + q(s));
      }
      break;
    }
    case 6: {  // hashing consistent with equality, stream output
      c.stage("string_view:hash");
      size_t h1 = std::hash<nostd::string_view>{}(ns), h2 = std::hash<nostd::string_view>{}(nt);
      ++n;
      c.check(!(ns == nt) || h1 == h2, "C20:string_view:hash", "equal views hash differently: " + q(s) + " and " + q(t));
      c.check(!(ss == st) || h1 == h2, "C20:string_view:hash", "views that std::string_view calls equal hash differently: " + q(s) + " and " + q(t));
      out += I(h1 == h2);
      if (h1 == h2 && s != t) c.counted("hash_collisions_of_unequal_strings");
      c.stage("string_view:stream");
      std::ostringstream on, os;
      on << ns << '|' << nt;
      os << ss << '|' << st;
      SAME(q(on.str()), q(os.str()), "C20:string_view:stream", "operator<< of " + q(s) + " and " + q(t));
      break;
    }
  }
  c.step(n);
  out += vf::sfmt("#%016llx%016llx", (unsigned long long)outh.a, (unsigned long long)outh.b);
  c.state(vf::sfmt("sv|%d|", group) + out);
  c.outcome(vf::sfmt("sv|%d|", group) + out);
#undef SAME
  if (s.size() >= 2) c.sample(vf::sfmt("string_view group %d on ", group) + q(s) + (binary ? " and " + q(t) : "") + vf::sfmt(": %llu results equal to std::string_view", (unsigned long long)n));
}

// ==================================================================================================
// span
// ==================================================================================================
// The reference is an index-checked slice: (base pointer, length); at(i) is defined for i < length.
struct Slice {
  const int *base;
  size_t len;
};

template <class S> std::string span_obs(vf::Ctx &c, const S &s, const Slice &m, const std::string &how) {
  std::string o = vf::sfmt("n%zu e%d ", s.size(), int(s.empty()));
  c.check(s.size() == m.len, "C20:span:size", how + vf::sfmt(": size() is %zu, the slice has %zu elements", s.size(), m.len));
  c.check(s.empty() == (m.len == 0), "C20:span:empty", how + ": empty() disagrees with size()");
  if (m.len > 0 || m.base) c.check(s.data() == m.base, "C20:span:data", how + ": data() does not point at the first element of the source");
  size_t k = 0;
  for (auto it = s.begin(); it != s.end(); ++it, ++k) {
    c.check(k < m.len, "C20:span:iteration-past-end", how + vf::sfmt(": iteration yields more than %zu elements", m.len));
    c.check(&*it == m.base + k, "C20:span:iteration", how + vf::sfmt(": element %zu of the iteration is not element %zu of the source", k, k));
    o += vf::sfmt("%d,", *it);
  }
  c.check(k == m.len, "C20:span:iteration-short", how + vf::sfmt(": iteration yields %zu of %zu elements", k, m.len));
  c.check(size_t(s.end() - s.begin()) == m.len, "C20:span:end", how + ": end() - begin() is not the length");
  for (size_t i = 0; i < m.len; ++i) {  // every index the slice model defines
    c.check(&s[i] == m.base + i, "C20:span:index", how + vf::sfmt(": operator[](%zu) is not element %zu of the source", i, i));
    c.check(s[i] == m.base[i], "C20:span:index", how + vf::sfmt(": operator[](%zu) has the wrong value", i));
  }
  c.step(3 + 2 * m.len);
  return o;
}

// exact-size heap array of ints: int values 10*(offset)+i so that neighbouring elements are recognisable
struct HeapInts {
  int *p;
  size_t n;
  explicit HeapInts(size_t k) : p(static_cast<int *>(malloc(k ? k * sizeof(int) : 1))), n(k) { for (size_t i = 0; i < k; ++i) p[i] = 100 + (int)i; }
  ~HeapInts() { free(p); }
  HeapInts(const HeapInts &) = delete;
};

enum SpanCtor { SC_PTR_COUNT, SC_FIRST_LAST, SC_DEFAULT, SC_C_ARRAY, SC_STD_ARRAY, SC_CONST_STD_ARRAY, SC_VECTOR, SC_CONST_VECTOR, SC_STRINGLIKE, SC_COPY, SC_ASSIGN, SC_TO_CONST, SC_STATIC_TO_DYNAMIC, SC_N };
const char *const kSpanCtorName[SC_N] = {"(pointer,count)", "(first,last)", "default", "C array", "std::array&", "const std::array&", "std::vector&", "const std::vector&",
                                         "user container with data()/size()", "copy constructor", "copy assignment", "span<T> -> span<const T>", "span<T,N> -> span<T>"};

// a minimal user container (exercises nostd::data / nostd::size through member functions)
struct IntBox {
  int *p;
  size_t n;
  int *data() { return p; }
  const int *data() const { return p; }
  size_t size() const { return n; }
};

// N = static extent or dynamic_extent; E = number of elements of this case
template <size_t N, size_t E> std::string span_case(vf::Ctx &c, int ctor, size_t off, bool *applicable) {
  constexpr bool dyn = (N == nostd::dynamic_extent);
  static_assert(dyn || N == E, "static extent equals the element count");
  using SpanT = nostd::span<int, N>;
  using CSpanT = nostd::span<const int, N>;
  static_assert(SpanT::extent == N, "extent constant");
  HeapInts buf(off + E);  // the viewed elements are the LAST E ints of an exact-size block
  int *first = buf.p + off;
  std::string how = vf::sfmt("span<int,%s> from %s over %zu elements at offset %zu", dyn ? "dynamic" : vf::sfmt("%zu", N).c_str(), kSpanCtorName[ctor], E, off);
  *applicable = true;
  Slice m{first, E};
  switch (ctor) {
    case SC_PTR_COUNT: { SpanT s(first, E); return span_obs(c, s, m, how); }
    case SC_FIRST_LAST: { SpanT s(first, first + E); return span_obs(c, s, m, how); }
    case SC_DEFAULT:
      if constexpr (E == 0) { SpanT s; Slice z{nullptr, 0}; c.check(s.data() == nullptr, "C20:span:data", how + ": data() of a default span is not null"); return span_obs(c, s, z, how); }
      break;
    case SC_C_ARRAY:
      if constexpr (E > 0) {
        struct Holder { int a[E]; };
        std::unique_ptr<Holder> h(new Holder);
        for (size_t i = 0; i < E; ++i) h->a[i] = 200 + (int)i;
        SpanT s(h->a);
        Slice ma{h->a, E};
        std::string o = span_obs(c, s, ma, how);
        s[E - 1] = 7;  // a span is a view: writes go to the source
        c.check(h->a[E - 1] == 7, "C20:span:write-through", how + ": a write through operator[] did not reach the source");
        return o;
      }
      break;
    case SC_STD_ARRAY: {
      std::unique_ptr<std::array<int, E>> a(new std::array<int, E>);
      for (size_t i = 0; i < E; ++i) (*a)[i] = 300 + (int)i;
      SpanT s(*a);
      Slice ma{a->data(), E};
      return span_obs(c, s, ma, how);
    }
    case SC_CONST_STD_ARRAY: {
      std::unique_ptr<std::array<int, E>> a(new std::array<int, E>);
      for (size_t i = 0; i < E; ++i) (*a)[i] = 400 + (int)i;
      const std::array<int, E> &ca = *a;
      CSpanT s(ca);
      Slice ma{a->data(), E};
      return span_obs(c, s, ma, how);
    }
    case SC_VECTOR: {
      std::vector<int> v(first, first + E);
      v.shrink_to_fit();
      SpanT s(v);
      Slice mv{v.data(), E};
      std::string o = span_obs(c, s, mv, how);
      if (E > 0) { *s.begin() = 9; c.check(v[0] == 9, "C20:span:write-through", how + ": a write through begin() did not reach the source"); }
      return o;
    }
    case SC_CONST_VECTOR: {
      std::vector<int> v(first, first + E);
      v.shrink_to_fit();
      const std::vector<int> &cv = v;
      CSpanT s(cv);
      Slice mv{v.data(), E};
      return span_obs(c, s, mv, how);
    }
    case SC_STRINGLIKE: {
      IntBox box{first, E};
      SpanT s(box);
      const IntBox &cbox = box;
      CSpanT cs(cbox);
      return span_obs(c, s, m, how) + span_obs(c, cs, m, how + " (const)");
    }
    case SC_COPY: { SpanT s0(first, E); SpanT s(s0); return span_obs(c, s, m, how); }
    case SC_ASSIGN: {
      HeapInts other(E);
      SpanT s(other.p, E);
      SpanT s0(first, E);
      s = s0;
      return span_obs(c, s, m, how);
    }
    case SC_TO_CONST: { SpanT s0(first, E); CSpanT s(s0); return span_obs(c, s, m, how); }
    case SC_STATIC_TO_DYNAMIC: {
      nostd::span<int, E> s0(first, E);
      nostd::span<int> s(s0);
      nostd::span<const int> cs(s0);
      return span_obs(c, s, m, how) + span_obs(c, cs, m, how + " (const)");
    }
  }
  *applicable = false;
  return "";
}

template <size_t E> std::string span_extent(vf::Ctx &c, bool dynamic, int ctor, size_t off, bool *applicable) {
  return dynamic ? span_case<nostd::dynamic_extent, E>(c, ctor, off, applicable) : span_case<E, E>(c, ctor, off, applicable);
}

void run_span(vf::Ctx &c) {
  bool dynamic = c.flip("span-dynamic");
  int e = c.pick("span-extent", 4);
  int ctor = c.pick("span-ctor", SC_N);
  size_t off = (size_t)c.pick("span-offset", 3);
  c.stage("span");
  bool applicable = false;
  std::string o;
  switch (e) {
    case 0: o = span_extent<0>(c, dynamic, ctor, off, &applicable); break;
    case 1: o = span_extent<1>(c, dynamic, ctor, off, &applicable); break;
    case 2: o = span_extent<2>(c, dynamic, ctor, off, &applicable); break;
    default: o = span_extent<3>(c, dynamic, ctor, off, &applicable); break;
  }
  if (!applicable) { c.outcome("span|n/a"); return; }  // this constructor does not exist for this extent (as in std::span)
  std::string canon = vf::sfmt("span|%d|%d|%d|%zu|", int(dynamic), e, ctor, off) + o;
  c.state(canon);
  c.outcome(canon);
  c.sample(vf::sfmt("span<int,%s> from %s, %d elements at offset %zu: %s", dynamic ? "dynamic" : "static", kSpanCtorName[ctor], e, off, o.c_str()));
}

// ==================================================================================================
// function_ref
// ==================================================================================================
int free_add(int a, int b) { return a * 10 + b; }
long free_long(int a, int b) { return 1000L + a - b; }
void free_bump(int &x) { x += 5; }

struct Accumulator {  // functor with state
  int total = 0, calls = 0;
  int operator()(int a, int b) { total += a - b; ++calls; return total; }
};
struct Doubler {
  int factor;
  void operator()(int &x) { x *= factor; ++factor; }
};

// Calls `direct` (the reference) and `ref` (through function_ref) `calls` times each on twin state.
void run_function_ref(vf::Ctx &c) {
  int kind = c.pick("fr-kind", 12);
  int calls = 1 + c.pick("fr-calls", 3);
  int a = c.pick("fr-a", 3) - 1, b = c.pick("fr-b", 2) + 2;
  bool copy = c.flip("fr-copy");  // call through a copy of the function_ref
  c.stage("function_ref");
  std::string got, want;
  auto I = [](long long v) { return vf::sfmt("%lld,", v); };
  using FII = nostd::function_ref<int(int, int)>;
  using FLI = nostd::function_ref<long(int, int)>;
  using FVR = nostd::function_ref<void(int &)>;
  auto call_ii = [&](FII f) { FII g(copy ? FII(f) : f); c.check(bool(g), "C20:function_ref:bool", "a bound function_ref converts to false"); for (int k = 0; k < calls; ++k) got += I(g(a + k, b)); };
  auto call_vr = [&](FVR f, int start) { FVR g(copy ? FVR(f) : f); int x = start; for (int k = 0; k < calls; ++k) { g(x); got += I(x); } };
  switch (kind) {
    case 0: {  // stateless lambda
      auto l = [](int x, int y) { return x - 2 * y; };
      call_ii(l);
      for (int k = 0; k < calls; ++k) want += I(l(a + k, b));
      break;
    }
    case 1: {  // lambda capturing by reference: effects reach the captured variable
      int sum_ref = 0, sum_direct = 0;
      auto l = [&sum_ref](int x, int y) { sum_ref += x + y; return sum_ref; };
      auto l2 = [&sum_direct](int x, int y) { sum_direct += x + y; return sum_direct; };
      call_ii(l);
      for (int k = 0; k < calls; ++k) want += I(l2(a + k, b));
      got += I(sum_ref); want += I(sum_direct);
      break;
    }
    case 2: {  // mutable lambda with its own state: function_ref does not copy it
      auto l = [n = 0](int x, int y) mutable { n += x * y; return n; };
      auto l2 = l;
      call_ii(l);
      for (int k = 0; k < calls; ++k) want += I(l2(a + k, b));
      got += I(l(0, 0)); want += I(l2(0, 0));  // the state advanced in the original object
      break;
    }
    case 3: {  // function pointer
      call_ii(&free_add);
      for (int k = 0; k < calls; ++k) want += I(free_add(a + k, b));
      break;
    }
    case 4: {  // function (decays / binds by reference)
      call_ii(free_add);
      for (int k = 0; k < calls; ++k) want += I(free_add(a + k, b));
      break;
    }
    case 5: {  // functor with state
      Accumulator acc, twin;
      call_ii(acc);
      for (int k = 0; k < calls; ++k) want += I(twin(a + k, b));
      got += I(acc.total) + I(acc.calls); want += I(twin.total) + I(twin.calls);
      c.check(acc.calls == calls, "C20:function_ref:copies-callable", vf::sfmt("the referenced functor saw %d of %d calls", acc.calls, calls));
      break;
    }
    case 6: {  // return type conversion int -> long, long function
      auto l = [](int x, int y) { return x + y; };
      FLI f(l);
      FLI g(free_long);
      for (int k = 0; k < calls; ++k) { got += I(f(a + k, b)) + I(g(a + k, b)); want += I(long(l(a + k, b))) + I(free_long(a + k, b)); }
      break;
    }
    case 7: {  // reference argument, free function
      call_vr(free_bump, a);
      int x = a;
      for (int k = 0; k < calls; ++k) { free_bump(x); want += I(x); }
      break;
    }
    case 8: {  // reference argument, functor with state
      Doubler d{b}, twin{b};
      call_vr(d, a + 1);
      int x = a + 1;
      for (int k = 0; k < calls; ++k) { twin(x); want += I(x); }
      got += I(d.factor); want += I(twin.factor);
      break;
    }
    case 9: {  // move-only argument passed by value
      auto l = [](std::unique_ptr<int> p) { return p ? *p + 1 : -1; };
      nostd::function_ref<int(std::unique_ptr<int>)> g(l);
      for (int k = 0; k < calls; ++k) {
        got += I(g(std::unique_ptr<int>(new int(a + k)))) + I(g(std::unique_ptr<int>()));
        want += I(l(std::unique_ptr<int>(new int(a + k)))) + I(l(std::unique_ptr<int>()));
      }
      break;
    }
    case 10: {  // string arguments by const reference and by value, string result
      auto l = [](const std::string &x, std::string y) { return x + "/" + y; };
      nostd::function_ref<std::string(const std::string &, std::string)> f(l);
      std::string s1(size_t(a + 2), 'x'), s2(size_t(b), 'y');
      for (int k = 0; k < calls; ++k) { got += f(s1, s2) + ","; want += l(s1, s2) + ","; }
      break;
    }
    case 11: {  // empty references
      FII n1(nullptr);
      int (*nullfn)(int, int) = nullptr;
      FII n2(nullfn);
      FII n3(n1);
      FII bound(&free_add);
      got += I(bool(n1)) + I(bool(n2)) + I(bool(n3)) + I(bool(bound));
      want += I(0) + I(0) + I(0) + I(1);
      break;
    }
  }
  c.step((uint64_t)calls);
  c.check(got == want, "C20:function_ref:result", vf::sfmt("callable kind %d, %d calls, a=%d b=%d%s: through function_ref [%s], direct [%s]", kind, calls, a, b, copy ? " (copied ref)" : "", got.c_str(), want.c_str()));
  c.state(vf::sfmt("fr|%d|", kind) + got);
  c.outcome(vf::sfmt("fr|%d|", kind) + got);
  c.sample(vf::sfmt("function_ref kind %d x%d (a=%d,b=%d): [%s] equals the direct calls", kind, calls, a, b, got.c_str()));
}

// ==================================================================================================
// variant
// ==================================================================================================
int g_live[2];       // live Tracked / Bomb instances per side (0 = std, 1 = nostd)
bool g_armed = false;  // Bomb constructors throw while armed
struct BombEx {};

template <int Side> struct Tracked {
  int v;
  bool moved = false;
  explicit Tracked(int x) : v(x) { ++g_live[Side]; }
  Tracked(const Tracked &o) : v(o.v), moved(o.moved) { ++g_live[Side]; }
  Tracked(Tracked &&o) noexcept : v(o.v), moved(o.moved) { o.moved = true; ++g_live[Side]; }
  Tracked &operator=(const Tracked &o) { v = o.v; moved = o.moved; return *this; }
  Tracked &operator=(Tracked &&o) noexcept { v = o.v; moved = o.moved; o.moved = true; return *this; }
  ~Tracked() { --g_live[Side]; }
  bool operator==(const Tracked &o) const { return v == o.v; }
  bool operator!=(const Tracked &o) const { return v != o.v; }
  bool operator<(const Tracked &o) const { return v < o.v; }
  bool operator>(const Tracked &o) const { return v > o.v; }
  bool operator<=(const Tracked &o) const { return v <= o.v; }
  bool operator>=(const Tracked &o) const { return v >= o.v; }
};
// an alternative whose constructors can throw (copy and move): drives valueless_by_exception
template <int Side> struct Bomb {
  int v;
  explicit Bomb(int x) : v(x) { if (g_armed) throw BombEx{}; ++g_live[Side]; }
  Bomb(const Bomb &o) : v(o.v) { if (g_armed) throw BombEx{}; ++g_live[Side]; }
  Bomb(Bomb &&o) : v(o.v) { if (g_armed) throw BombEx{}; ++g_live[Side]; }
  Bomb &operator=(const Bomb &o) { if (g_armed) throw BombEx{}; v = o.v; return *this; }
  Bomb &operator=(Bomb &&o) { if (g_armed) throw BombEx{}; v = o.v; return *this; }
  ~Bomb() { --g_live[Side]; }
  bool operator==(const Bomb &o) const { return v == o.v; }
  bool operator!=(const Bomb &o) const { return v != o.v; }
  bool operator<(const Bomb &o) const { return v < o.v; }
  bool operator>(const Bomb &o) const { return v > o.v; }
  bool operator<=(const Bomb &o) const { return v <= o.v; }
  bool operator>=(const Bomb &o) const { return v >= o.v; }
};

struct StdV {
  static constexpr int side = 0;
  using mono = std::monostate;
  using V = std::variant<std::monostate, bool, int64_t, uint64_t, double, std::string, Tracked<0>, Bomb<0>>;
  using bad = std::bad_variant_access;
  template <class T> static bool holds(const V &v) { return std::holds_alternative<T>(v); }
  template <class T> static T &get(V &v) { return std::get<T>(v); }
  template <size_t I> static auto &geti(V &v) { return std::get<I>(v); }
  template <class T> static T *get_if(V *v) { return std::get_if<T>(v); }
  template <size_t I> static auto *get_ifi(V *v) { return std::get_if<I>(v); }
  template <class F, class... Vs> static decltype(auto) visit(F &&f, Vs &&...vs) { return std::visit(std::forward<F>(f), std::forward<Vs>(vs)...); }
  static constexpr size_t size = std::variant_size<V>::value;
  template <size_t I> using alt = std::variant_alternative_t<I, V>;
};
struct NoV {
  static constexpr int side = 1;
  using mono = nostd::monostate;
  using V = nostd::variant<nostd::monostate, bool, int64_t, uint64_t, double, std::string, Tracked<1>, Bomb<1>>;
  using bad = nostd::bad_variant_access;
  template <class T> static bool holds(const V &v) { return nostd::holds_alternative<T>(v); }
  template <class T> static T &get(V &v) { return nostd::get<T>(v); }
  template <size_t I> static auto &geti(V &v) { return nostd::get<I>(v); }
  template <class T> static T *get_if(V *v) { return nostd::get_if<T>(v); }
  template <size_t I> static auto *get_ifi(V *v) { return nostd::get_if<I>(v); }
  template <class F, class... Vs> static decltype(auto) visit(F &&f, Vs &&...vs) { return nostd::visit(std::forward<F>(f), std::forward<Vs>(vs)...); }
  static constexpr size_t size = nostd::variant_size<V>::value;
  template <size_t I> using alt = nostd::variant_alternative_t<I, V>;
};
static_assert(StdV::size == 8 && NoV::size == 8, "variant_size");
static_assert(std::is_same<NoV::alt<2>, int64_t>::value && std::is_same<NoV::alt<5>, std::string>::value && std::is_same<NoV::alt<0>, nostd::monostate>::value, "variant_alternative_t");

constexpr int kAlts = 8;
const char *const kAltName[kAlts] = {"monostate", "bool", "int64", "uint64", "double", "string", "Tracked", "Bomb"};

struct Show {  // visitor: type name and value
  template <class M> typename std::enable_if<std::is_empty<M>::value, std::string>::type operator()(const M &) const { return "mono"; }
  std::string operator()(bool b) const { return b ? "bool:1" : "bool:0"; }
  std::string operator()(int64_t v) const { return vf::sfmt("i64:%lld", (long long)v); }
  std::string operator()(uint64_t v) const { return vf::sfmt("u64:%llu", (unsigned long long)v); }
  std::string operator()(double v) const { return std::isnan(v) ? "dbl:nan" : vf::sfmt("dbl:%g", v); }
  std::string operator()(const std::string &s) const { return "str:" + s; }
  template <int S> std::string operator()(const Tracked<S> &t) const { return vf::sfmt("trk:%d%s", t.v, t.moved ? "(moved)" : ""); }
  template <int S> std::string operator()(const Bomb<S> &t) const { return vf::sfmt("bomb:%d", t.v); }
};
struct Show2 {
  template <class A, class B> std::string operator()(const A &a, const B &b) const { return Show{}(a) + "+" + Show{}(b); }
};

template <class F> struct VWorld {
  using V = typename F::V;
  std::unique_ptr<V> v[2];
  VWorld() { v[0].reset(new V()); v[1].reset(new V()); }

  template <class T> std::string probe(V &x) {
    // holds_alternative / get_if / get by type; get throws exactly when the alternative is not held
    std::string o = F::template holds<T>(x) ? "h" : "-";
    T *p = F::template get_if<T>(&x);
    o += p ? "p" : "-";
    try {
      T &r = F::template get<T>(x);
      o += (&r == p) ? "g" : "G";
    } catch (const typename F::bad &) {
      o += "!";
    }
    return o;
  }
  template <size_t I> std::string probe_i(V &x) {
    std::string o;
    auto *p = F::template get_ifi<I>(&x);
    o += p ? "p" : "-";
    try {
      auto &r = F::template geti<I>(x);
      o += (&r == p) ? "g" : "G";
    } catch (const typename F::bad &) {
      o += "!";
    }
    return o;
  }
  std::string describe(V &x) {
    std::string o = vf::sfmt("idx=%d vl=%d ", x.index() == size_t(-1) ? -1 : (int)x.index(), int(x.valueless_by_exception()));
    o += probe<typename F::mono>(x) + probe<bool>(x) + probe<int64_t>(x) + probe<uint64_t>(x) + probe<double>(x) + probe<std::string>(x) + probe<Tracked<F::side>>(x) + probe<Bomb<F::side>>(x);
    o += " " + probe_i<0>(x) + probe_i<1>(x) + probe_i<2>(x) + probe_i<3>(x) + probe_i<4>(x) + probe_i<5>(x) + probe_i<6>(x) + probe_i<7>(x);
    try {
      o += " visit=" + F::visit(Show{}, x);
    } catch (const typename F::bad &) {
      o += " visit=!bad_variant_access";
    }
    return o;
  }
  // alternative and value of both variants (through visit; a valueless variant throws) and the instance count
  std::string canon() {
    std::string o;
    for (int t = 0; t < 2; ++t) {
      try { o += F::visit(Show{}, *v[t]); } catch (const typename F::bad &) { o += "valueless"; }
      o += "|";
    }
    return o + vf::sfmt("%d", g_live[F::side]);
  }
  std::string observe() {
    V &a = *v[0], &b = *v[1];
    std::string o = "a{" + describe(a) + "} b{" + describe(b) + "}";
    try {
      o += " visit2=" + F::visit(Show2{}, a, b);
    } catch (const typename F::bad &) {
      o += " visit2=!bad_variant_access";
    }
    o += vf::sfmt(" rel=%d%d%d%d%d%d", int(a == b), int(a != b), int(a < b), int(a > b), int(a <= b), int(a >= b));
    o += vf::sfmt(" live=%d", g_live[F::side]);
    return o;
  }

  template <size_t I> void emplace_alt(V &x, int k) {
    using T = typename F::template alt<I>;
    if constexpr (I == 0) x.template emplace<I>();
    else if constexpr (I == 1) x.template emplace<I>(k != 0);
    else if constexpr (I == 2) x.template emplace<I>(k ? INT64_MIN : int64_t(-7));
    else if constexpr (I == 3) x.template emplace<I>(k ? UINT64_MAX : uint64_t(7));
    else if constexpr (I == 4) x.template emplace<I>(k ? std::nan("") : 1.5);
    else if constexpr (I == 5) x.template emplace<T>(k ? std::string("a longer string that does not fit the small buffer") : std::string());
    else x.template emplace<T>(k ? 2 : 1);
  }
  template <size_t I> void assign_alt(V &x, int k) {  // converting assignment from a value of exactly the alternative's type
    using T = typename F::template alt<I>;
    if constexpr (I == 0) x = T{};
    else if constexpr (I == 1) x = (k != 0);
    else if constexpr (I == 2) x = k ? INT64_MIN : int64_t(-7);
    else if constexpr (I == 3) x = k ? UINT64_MAX : uint64_t(7);
    else if constexpr (I == 4) x = k ? std::nan("") : 1.5;
    else if constexpr (I == 5) x = k ? std::string("a longer string that does not fit the small buffer") : std::string();
    else x = T(k ? 2 : 1);
  }
  template <size_t I> void construct_alt(std::unique_ptr<V> &x, int k) {  // converting / in-place construction
    using T = typename F::template alt<I>;
    if constexpr (I == 0) x.reset(new V(T{}));
    else if constexpr (I == 1) x.reset(new V(k != 0));
    else if constexpr (I == 2) x.reset(new V(k ? INT64_MIN : int64_t(-7)));
    else if constexpr (I == 3) x.reset(new V(k ? UINT64_MAX : uint64_t(7)));
    else if constexpr (I == 4) x.reset(new V(k ? std::nan("") : 1.5));
    else if constexpr (I == 5) x.reset(new V(k ? std::string("a longer string that does not fit the small buffer") : std::string()));
    else x.reset(new V(T(k ? 2 : 1)));
  }

  // libstdc++ 12's std::variant::swap is wrong when exactly one operand is valueless_by_exception: with a valueless
  // *this it moves rhs's value into *this but leaves rhs holding the moved-from value instead of making it valueless
  // ([variant.swap] requires "exchanges values of rhs and *this").  The reference therefore performs the exchange the
  // standard describes by hand in that one case; the nostd side always runs its real swap.
  bool reference_swap_one_valueless(V &x, V &y) {
    if (F::side != 0 || x.valueless_by_exception() == y.valueless_by_exception()) return false;
    V &empty = x.valueless_by_exception() ? x : y, &full = x.valueless_by_exception() ? y : x;
    empty = std::move(full);
    g_armed = true;
    try { full.template emplace<Bomb<F::side>>(0); } catch (const BombEx &) {}
    g_armed = false;
    return true;
  }

  // returns true if the operation threw BombEx
  bool apply(int op, int t, int alt, int k) {
    V &x = *v[t], &y = *v[1 - t];
    try {
      switch (op) {
        case 0:  // emplace<alt>
          switch (alt) { case 0: emplace_alt<0>(x, k); break; case 1: emplace_alt<1>(x, k); break; case 2: emplace_alt<2>(x, k); break; case 3: emplace_alt<3>(x, k); break;
                         case 4: emplace_alt<4>(x, k); break; case 5: emplace_alt<5>(x, k); break; case 6: emplace_alt<6>(x, k); break; default: emplace_alt<7>(x, k); break; }
          break;
        case 1:  // x = value
          switch (alt) { case 0: assign_alt<0>(x, k); break; case 1: assign_alt<1>(x, k); break; case 2: assign_alt<2>(x, k); break; case 3: assign_alt<3>(x, k); break;
                         case 4: assign_alt<4>(x, k); break; case 5: assign_alt<5>(x, k); break; case 6: assign_alt<6>(x, k); break; default: assign_alt<7>(x, k); break; }
          break;
        case 2:  // construct from value
          switch (alt) { case 0: construct_alt<0>(v[t], k); break; case 1: construct_alt<1>(v[t], k); break; case 2: construct_alt<2>(v[t], k); break; case 3: construct_alt<3>(v[t], k); break;
                         case 4: construct_alt<4>(v[t], k); break; case 5: construct_alt<5>(v[t], k); break; case 6: construct_alt<6>(v[t], k); break; default: construct_alt<7>(v[t], k); break; }
          break;
        case 3: x = y; break;                               // copy assignment
        case 4: x = std::move(y); break;                    // move assignment
        case 5: { const V &self = x; x = self; break; }     // self copy assignment
        case 6: v[t].reset(new V(y)); break;                // copy construction
        case 7: v[t].reset(new V(std::move(y))); break;     // move construction
        case 8: if (!reference_swap_one_valueless(x, y)) x.swap(y); break;                        // swap
        case 9: if (!reference_swap_one_valueless(x, y)) { using std::swap; swap(x, y); } break;  // non-member swap
        case 10: v[t].reset(new V()); break;                // default construction
        case 11: g_armed = true; x.template emplace<Bomb<F::side>>(3); break;  // emplace throws: valueless
        case 12: g_armed = true; x = y; break;              // copy assignment whose copy throws
        case 13: g_armed = true; x = std::move(y); break;   // move assignment whose move throws
      }
    } catch (const BombEx &) {
      g_armed = false;
      return true;
    }
    g_armed = false;
    return false;
  }
};

struct VOp {
  int op, t, alt, k;
  std::string name;
};
const std::vector<VOp> &variant_ops() {
  static std::vector<VOp> ops;
  if (!ops.empty()) return ops;
  const char *vn[2] = {"a", "b"};
  for (int t = 0; t < 2; ++t) {
    for (int op = 0; op < 3; ++op)
      for (int alt = 0; alt < kAlts; ++alt)
        for (int k = 0; k < (alt == 0 ? 1 : 2); ++k)
          ops.push_back({op, t, alt, k, vf::sfmt("%s%s%s#%d", vn[t], op == 0 ? ".emplace:" : op == 1 ? "=value:" : "=V(value):", kAltName[alt], k)});
    const char *names[] = {"", "", "", "=copy(other)", "=move(other)", "=self", "=V(other)", "=V(move(other))", ".swap(other)", " std::swap", "=V()", ".emplace(throws)", "=copy(other)(throws)", "=move(other)(throws)"};
    for (int op = 3; op <= 13; ++op) ops.push_back({op, t, 0, 0, std::string(vn[t]) + names[op]});
  }
  return ops;
}

void run_variant(vf::Ctx &c) {
  g_live[0] = g_live[1] = 0;
  g_armed = false;
  int depth = atoi(c.opt().get("variant-depth", c.thorough() ? "4" : "3").c_str());
  std::string hist, last;
  {
    VWorld<StdV> ws;
    VWorld<NoV> wn;
    const std::vector<VOp> &ops = variant_ops();
    for (int d = 0; d < depth; ++d) {
      {
        vf::H128 h; h.add(0x7a); h.add((uint64_t)(depth - d)); h.add_str(wn.canon());
        c.prune_point(h);  // complete: a variant's future depends on the alternative held and its value only (both are in the string)
      }
      const VOp &o = ops[c.pick("variant-op", (int)ops.size())];
      if (o.op >= 12) {  // the throwing assignments need a Bomb in the source
        bool src_bomb = StdV::holds<Bomb<0>>(*ws.v[1 - o.t]);
        if (!src_bomb) { c.outcome("variant|n/a"); return; }
      }
      c.stage("variant");
      hist += " " + o.name;
      bool ts = ws.apply(o.op, o.t, o.alt, o.k);
      bool tn = wn.apply(o.op, o.t, o.alt, o.k);
      c.step();
      c.check(ts == tn, "C20:variant:exception", vf::sfmt("after%s: nostd::variant %s, std::variant %s", hist.c_str(), tn ? "propagated the exception" : "did not throw", ts ? "propagated it" : "did not throw"));
      std::string os = ws.observe(), on = wn.observe();
      const char *sig = o.op >= 11 ? "C20:variant:state-after-exception" : o.op >= 3 && o.op <= 9 ? "C20:variant:copy-move-swap" : "C20:variant:alternative-selection";
      c.check(os == on, sig, vf::sfmt("after%s: nostd::variant [%s] vs std::variant [%s]", hist.c_str(), on.c_str(), os.c_str()));
      c.state(vf::sfmt("variant|%d|", depth - d - 1) + on);
      last = on;
    }
  }
  c.check(g_live[0] == 0 && g_live[1] == 0, "C20:variant:leak", vf::sfmt("after%s and destruction: %d instances alive under nostd::variant, %d under std::variant", hist.c_str(), g_live[1], g_live[0]));
  c.outcome("variant|" + last);
  c.sample("variant:" + hist + " => " + last);
}

void setup(vf::Options &o) {
  o.split_depth = 3;
  o.deadline_s = o.thorough ? 900 : 100;
  o.table_bits = 22;
  const std::string alphabet("ab\0\xff", 4);
  size_t maxlen = o.thorough ? 3 : 2;
  g_strs = {""};
  for (size_t b = 0, e = 1, len = 1; len <= maxlen; ++len) {
    for (size_t i = b; i < e; ++i)
      for (char ch : alphabet) g_strs.push_back(g_strs[i] + ch);
    b = e;
    e = g_strs.size();
  }
}

void run(vf::Ctx &c) {
  switch (c.pick("type", 4)) {
    case 0: run_string_view(c); break;
    case 1: run_span(c); break;
    case 2: run_function_ref(c); break;
    default: run_variant(c); break;
  }
}

}  // namespace

VF_MAIN("c20_values", "C20", setup, run)
